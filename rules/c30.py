"""C30 — file-format codecs round-trip and reject malformed input (layout agreement).

Decided:
  AGREE-C30a  header: the map field -> (offset, width) recovered from HeaderCodec::encode (ranges of copy_from_slice
              destinations, evaluated by the constant evaluator) equals the map recovered from HeaderCodec::decode
              (extract_array::<N>(bytes, offset) feeding each field of the Header aggregate); every field of Header
              is covered, ranges are pairwise disjoint and inside HEADER_SIZE; the validated fields
              (magic, version, wal_offset, wal_size -> InvalidHeader) agree between the two.
  AGREE-C30b  footer: same for CommitFooter::encode / decode (magic first, then toc_len, toc_hash, generation);
              decode rejects a wrong length and a wrong magic.
  AGREE-C30c  time index: the ordered item list written by append_track (widths, endianness, source) equals the
              list read by read_track; every written item is also hashed; the magic read is compared.
  AGREE-C30e  time index, order contract: append_track sorts by the tuple (timestamp, frame_id) before writing and
              read_track rejects exactly that order's violations, so everything the encoder writes is accepted by the
              decoder whatever order the caller supplied (shared with C15).
  MPT-C30d    every Ok exit of Toc::decode lies on the `bytes_read == bytes.len()` edge (no trailing bytes) in all
              three format arms.
  GUARD-C30f  length/count consistency in the decoders is decided exactly: an equality test that relates a declared
              count to a byte length must not compute either side by integer division (which drops the remainder and
              accepts a length that is up to record_size - 1 bytes too long); the time-index reader multiplies the
              count (checked) and compares for equality.
Not decided: round-trip equality for arbitrary values."""
from . import lib
from .facts import Place, op_place


def _dom_order(fn, calls):
    return sorted(calls, key=lambda c: (sum(1 for d in calls if d is not c and fn.dominates(d.bb, c.bb)), c.line or 0))


def _range_of(fn, index_call):
    """(start, end) of the Range / RangeTo / RangeFrom passed to an index/index_mut call, None if not constant"""
    rop = index_call.args[1]
    sl = lib.slice_back(fn, [rop], through_calls=False, at=(index_call.bb, None))
    for bb, i, s in fn.stmts():
        rv = s['rv']
        if rv['k'] == 'agg' and rv.get('ak') == 'adt' and rv['adt'] in ('Range', 'RangeTo', 'RangeFrom', 'RangeInclusive') and s['lhs']['l'] in sl.locals \
                and lib._def_reaches(fn, bb, i, index_call.bb, None):
            ops = dict(zip(rv['fields'], rv['ops']))
            start = lib.const_eval(fn, ops['start'], (bb, i)) if 'start' in ops else 0
            end = lib.const_eval(fn, ops['end'], (bb, i)) if 'end' in ops else None
            return start, end
    return None


def encode_map(ctx, fn, owner):
    """field -> (offset, width) from `buf[a..b].copy_from_slice(&self.field…)`"""
    out = {}
    extra = []
    for c in fn.calls():
        if c.name != 'copy_from_slice':
            continue
        dst = lib.slice_back(fn, c.args[:1], through_calls=True, at=(c.bb, None), stop_at_calls=('IndexMut::index_mut', 'index_mut'))
        ic = [x for x in dst.calls if x.name in ('index_mut', 'index')]
        src = lib.slice_back(fn, c.args[1:2], through_calls=True, at=(c.bb, None))
        fields = sorted({f for o, f in src.fields if o == owner})
        if not ic:
            continue
        r = _range_of(fn, ic[0])
        if r is None:
            extra.append(('?', c.line))
            continue
        start, end = r
        width = None
        le = any(x.name == 'to_le_bytes' for x in src.calls)
        if end is None:
            # RangeFrom: width from the source array type
            for x in src.calls:
                if x.name in ('to_le_bytes', 'to_be_bytes'):
                    m = lib._ARR.search(fn.local_ty(x.dest.l))
                    if m:
                        width = int(m.group(1))
        else:
            width = end - start
        if len(fields) == 1:
            out[fields[0]] = (start, width, 'le' if le else 'raw')
        else:
            named = [k.get('name', '').split('::')[-1] for k in src.consts if k.get('name')]
            extra.append((named[0] if named else 'const', start, width))
    return out, extra


def header(ctx, F):
    enc = ctx.need('AGREE-C30a', 'HeaderCodec::encode')
    dec = ctx.need('AGREE-C30a', 'HeaderCodec::decode')
    adt = F.adt('Header')
    if enc is None or dec is None or adt is None:
        return
    ctx.touch(enc, len(enc.blocks))
    ctx.touch(dec, len(dec.blocks))
    emap, extra = encode_map(ctx, enc, 'Header')
    dmap = {}
    aggs = [(bb, i, s) for bb, i, s in dec.stmts() if s['rv']['k'] == 'agg' and s['rv'].get('adt') == 'Header']
    if not aggs:
        ctx.lost('AGREE-C30a', 'Header aggregate not found in decode')
        return
    bb, i, s = aggs[0]
    for f, op in zip(s['rv']['fields'], s['rv']['ops']):
        sl = lib.slice_back(dec, [op], through_calls=True, at=(bb, i), stop_at_calls=('extract_array',))
        ex = [c for c in sl.calls if c.name == 'extract_array']
        if len(ex) != 1:
            dmap[f] = None
            continue
        off = lib.const_eval(dec, ex[0].args[1], (ex[0].bb, None))
        n = None
        for sub in (ex[0].t.get('res_substs') or ex[0].t.get('substs') or []):
            if sub.isdigit():
                n = int(sub)
        le = any(c.name == 'from_le_bytes' for c in sl.calls)
        dmap[f] = (off, n, 'le' if le else 'raw')
    fields = [f['name'] for f in adt['variants'][0]['fields']]
    hs = F.const('HEADER_SIZE')
    ctx.evaluations += 2 * len(fields)
    for f in fields:
        e, d = emap.get(f), dmap.get(f)
        if e is None or d is None or None in e or None in d:
            ctx.bad('AGREE-C30a', enc if e is None else dec, 'header field %s: layout not recovered (encode %s, decode %s)' % (f, e, d), detail='header-field-unmapped:' + f)
        elif e != d:
            ctx.bad('AGREE-C30a', dec, 'header field %s is written at offset %s width %s (%s) but read at offset %s width %s (%s)' % (f, *e, *d),
                    detail='header-layout-mismatch:' + f, sink=f)
        else:
            ctx.ok('AGREE-C30a', dec, 'header.%s @%d width %d %s: writer == reader' % (f, e[0], e[1], e[2]))
    ranges = sorted((v[0], v[0] + v[1], k) for k, v in emap.items() if v and None not in v)
    ok = all(a[1] <= b[0] for a, b in zip(ranges, ranges[1:])) and (hs is None or all(r[1] <= hs for r in ranges))
    if ok and ranges:
        ctx.ok('AGREE-C30a', enc, 'field ranges are pairwise disjoint and inside HEADER_SIZE (%s)' % hs)
    else:
        ctx.bad('AGREE-C30a', enc, 'header field ranges overlap or exceed HEADER_SIZE: %s' % ranges, detail='header-ranges')
    # validation agreement
    def validated(fn, owner):
        out = set()
        for c in lib.comparisons(fn):
            errs = lib.enum_constructions(fn, 'MemvidError', 'InvalidHeader')
            for tgt, rel in c.edges():
                if any(fn.dominates(tgt, e['bb']) for e in errs) and lib.edge_dominates(fn, c.bb, tgt, tgt):
                    fs = {f for o, f in (c.sa().fields | c.sb().fields) if o == owner}
                    out |= fs
                    # decode compares locals that later become fields
                    for side in (c.sa(), c.sb()):
                        for cc in side.calls:
                            if cc.name == 'extract_array':
                                off = lib.const_eval(fn, cc.args[1], (cc.bb, None))
                                for k, v in dmap.items():
                                    if v and v[0] == off:
                                        out.add(k)
        return out
    ve, vd = validated(enc, 'Header'), validated(dec, 'Header')
    ctx.evaluations += 2
    if ve and ve == vd:
        ctx.ok('AGREE-C30a', dec, 'encode and decode validate the same fields %s' % sorted(ve))
    else:
        ctx.bad('AGREE-C30a', dec, 'validated fields differ: encode %s, decode %s' % (sorted(ve), sorted(vd)), detail='header-validation-sets')
    ctx.floor('AGREE-C30a', len(ve), 4, 'validated header fields')


def footer(ctx, F):
    enc = ctx.need('AGREE-C30b', 'CommitFooter::encode')
    dec = ctx.need('AGREE-C30b', 'CommitFooter::decode')
    adt = F.adt('CommitFooter')
    if enc is None or dec is None or adt is None:
        return
    ctx.touch(enc, len(enc.blocks))
    ctx.touch(dec, len(dec.blocks))
    emap, extra = encode_map(ctx, enc, 'CommitFooter')
    dmap = {}
    aggs = [(bb, i, s) for bb, i, s in dec.stmts() if s['rv']['k'] == 'agg' and s['rv'].get('adt') == 'CommitFooter']
    if not aggs:
        ctx.lost('AGREE-C30b', 'CommitFooter aggregate not found in decode')
        return
    bb, i, s = aggs[0]
    for f, op in zip(s['rv']['fields'], s['rv']['ops']):
        sl = lib.slice_back(dec, [op], through_calls=True, at=(bb, i))
        ic = [c for c in sl.calls if c.name == 'index' and len(c.args) == 2]
        r = None
        for c in ic:
            rr = _range_of(dec, c)
            if rr is not None and rr[0] is not None:
                r = rr
        if r is None:
            dmap[f] = None
            continue
        start, end = r
        width = (end - start) if end is not None else None
        if width is None:
            for c in sl.calls:
                if c.name in ('from_le_bytes',):
                    m = lib._ARR.search(dec.local_ty(op_place(c.args[0]).l)) if op_place(c.args[0]) is not None else None
                    if m:
                        width = int(m.group(1))
        le = any(c.name == 'from_le_bytes' for c in sl.calls)
        dmap[f] = (start, width, 'le' if le else 'raw')
    ctx.evaluations += 2 * len(dmap)
    for f in [x['name'] for x in adt['variants'][0]['fields']]:
        e, d = emap.get(f), dmap.get(f)
        if e is None or d is None or None in e or None in d:
            ctx.bad('AGREE-C30b', dec, 'footer field %s: layout not recovered (encode %s, decode %s)' % (f, e, d), detail='footer-field-unmapped:' + f)
        elif e != d:
            ctx.bad('AGREE-C30b', dec, 'footer field %s is written at offset %s width %s (%s) but read at offset %s width %s (%s)' % (f, *e, *d),
                    detail='footer-layout-mismatch:' + f, sink=f)
        else:
            ctx.ok('AGREE-C30b', dec, 'footer.%s @%d width %d %s: writer == reader' % (f, e[0], e[1], e[2]))
    fs = F.const('FOOTER_SIZE')
    magic = [x for x in extra if x[0] == 'FOOTER_MAGIC']
    if magic and magic[0][1] == 0:
        ctx.ok('AGREE-C30b', enc, 'magic written at offset 0 width %s' % magic[0][2])
    else:
        ctx.bad('AGREE-C30b', enc, 'footer magic is not written at offset 0 (%s)' % extra, detail='footer-magic-position')
    # decode rejects wrong length / magic: None returns dominated by the comparisons
    cmps = lib.comparisons(dec)
    len_ok = any((fs in c.sa().const_vals() + c.sb().const_vals() or any(k.get('name', '').endswith('FOOTER_SIZE') for k in c.sa().consts + c.sb().consts)) and ('PtrMetadata' in (c.sa().ops | c.sb().ops) or any(x.name == 'len' for x in c.sa().calls + c.sb().calls)) for c in cmps)
    magic_ok = any(any(k.get('name', '').endswith('FOOTER_MAGIC') for k in c.sa().consts + c.sb().consts) for c in cmps)
    if len_ok and magic_ok:
        ctx.ok('AGREE-C30b', dec, 'decode tests the length against FOOTER_SIZE and the magic')
    else:
        ctx.bad('AGREE-C30b', dec, 'decode does not reject a wrong length (%s) or magic (%s)' % (len_ok, magic_ok), detail='footer-reject')


def time_index(ctx, F):
    wr = ctx.need('AGREE-C30c', 'io::time_index::append_track')
    rd = ctx.need('AGREE-C30c', 'io::time_index::read_track')
    if wr is None or rd is None:
        return
    ctx.touch(wr, len(wr.blocks))
    ctx.touch(rd, len(rd.blocks))
    witems = []
    hashed = []
    for c in _dom_order(wr, [c for c in wr.calls() if c.name in ('write_all', 'update')]):
        sl = lib.slice_back(wr, c.args[1:2], through_calls=True, at=(c.bb, None))
        width = None
        for l in sl.locals:
            m = lib._ARR.search(wr.local_ty(l))
            if m and 'TimeIndexEntry' not in wr.local_ty(l):
                width = int(m.group(1))
        src = sorted({f for o, f in sl.fields if o == 'TimeIndexEntry'}) or \
            (['MAGIC'] if any(k.get('name', '').endswith('TIME_INDEX_MAGIC') for k in sl.consts) else
             (['count'] if any(x.name == 'len' for x in sl.calls) or 'PtrMetadata' in sl.ops else ['?']))
        le = any(x.name == 'to_le_bytes' for x in sl.calls)
        item = (width, src[0], 'le' if le else 'raw')
        (witems if c.name == 'write_all' else hashed).append(item)
    def item_of(rd, c):
            p = op_place(c.args[1])
            roots = lib.root_of(rd, p.l) if p is not None else set()
            width = None
            for l in roots:
                m = lib._ARR.search(rd.local_ty(l))
                if m:
                    width = int(m.group(1))
            # what is the buffer used for?
            use = '?'
            le = False
            for bb, i, s in rd.stmts():
                rv = s['rv']
                if rv['k'] == 'agg' and rv.get('adt') == 'TimeIndexEntry':
                    for f, op in zip(rv['fields'], rv['ops']):
                        sl = lib.slice_back(rd, [op], through_calls=True, at=(bb, i), stop_at_calls=('read_exact',))
                        if roots & sl.locals:
                            use = f
                            le = any(x.name == 'from_le_bytes' for x in sl.calls)
            if use == '?':
                for cm in lib.comparisons(rd):
                    if (roots & cm.sa().locals) or (roots & cm.sb().locals):
                        if any(k.get('name', '').endswith('TIME_INDEX_MAGIC') for k in cm.sa().consts + cm.sb().consts):
                            use = 'MAGIC'
                for cc in rd.calls():
                    if cc.name == 'from_le_bytes' and roots & lib.slice_back(rd, cc.args, through_calls=False, at=(cc.bb, None)).locals and use == '?':
                        use = 'count'
                        le = True
            return (width, use, 'le' if le else 'raw')

    def read_items(fx, depth):
        # read_exact calls in dominance order; a private helper that reads (`read_entry(reader)?`) contributes its items in place
        evs = [c for c in fx.calls() if c.name == 'read_exact']
        if depth > 0:
            evs += [c for c in fx.calls() if c.local_callee in F.fns and not F.fns[c.local_callee].is_closure and any(x.name == 'read_exact' for x in F.fns[c.local_callee].calls())]
        out = []
        for c in _dom_order(fx, evs):
            if c.name == 'read_exact':
                out.append(item_of(fx, c))
            else:
                ctx.touch(F.fns[c.local_callee], 1)
                out += read_items(F.fns[c.local_callee], depth - 1)
        return out
    ritems = read_items(rd, 1)
    ctx.evaluations += len(witems) + len(ritems) + len(hashed)
    ctx.floor('AGREE-C30c', len(witems), 4, 'items written by append_track')
    if witems == ritems:
        ctx.ok('AGREE-C30c', rd, 'writer items == reader items: %s' % witems)
    else:
        ctx.bad('AGREE-C30c', rd, 'time-index layout differs: written %s, read %s' % (witems, ritems), detail='time-index-layout')
    if hashed == witems:
        ctx.ok('AGREE-C30c', wr, 'every written item is hashed, in the same order')
    else:
        ctx.bad('AGREE-C30c', wr, 'checksum covers %s but %s is written' % (hashed, witems), detail='time-index-hash-coverage')


def toc(ctx, F):
    fn = ctx.need('MPT-C30d', 'Toc::decode')
    if fn is None:
        return
    ctx.touch(fn, len(fn.blocks))
    cut = set()
    for c in lib.comparisons(fn):
        a, b = c.sa(), c.sb()
        for x, y in ((a, b), (b, a)):
            is_read = any(cc.name == 'decode_from_slice' for cc in x.calls)
            is_len = 1 in y.args and ('PtrMetadata' in y.ops or any(cc.name == 'len' for cc in y.calls))
            if is_read and is_len:
                for tgt, rel in c.edges():
                    if rel == '==':
                        cut.add((c.bb, tgt))
    exits = [ex for ex in fn.ok_exits() if ex['kind'] != 'err']
    ctx.floor('MPT-C30d', len(cut), 3, 'bytes_read == bytes.len() tests in Toc::decode (one per format)')
    n = 0
    for ex in exits:
        # exits that merely propagate decode errors are `err`; keep those that build Ok(toc)
        if ex['kind'] == 'call' and ex['call'].name == 'into' and 'Err' in str(ex):
            continue
        ctx.evaluations += 1
        if ex['kind'] == 'ok' or ex['kind'] == 'call':
            n += 1
            if lib.reachable_without_edges(fn, ex['bb'], cut) and not _is_err_exit(fn, ex):
                ctx.bad('MPT-C30d', fn, 'Toc::decode can return Ok without the bytes_read == bytes.len() test (trailing bytes accepted)', line=ex['line'], detail='trailing-bytes-accepted')
            elif not _is_err_exit(fn, ex):
                ctx.ok('MPT-C30d', fn, 'Ok only on the bytes_read == bytes.len() edge', line=ex['line'])


def _is_err_exit(fn, ex):
    if ex['kind'] == 'ok':
        return False
    if ex['kind'] == 'call':
        # `Err(e.into())` shows up as an aggregate, not a call; direct calls are conversions of Ok values
        return False
    return False


DECODERS = ('io::time_index::read_track', 'CommitFooter::decode', 'HeaderCodec::decode', 'types::sketch_track::read_sketch_track', 'Toc::decode')


def _exact_lengths(ctx, F):
    ctx.rule('GUARD-C30f', 'decoders relate counts and byte lengths by exact equality (multiplication), never through integer division')
    n = 0
    for key in DECODERS:
        fn = F.fn(key)
        if fn is None:
            continue
        ctx.touch(fn, len(fn.blocks))
        bad = None
        eqs = 0
        for c in lib.comparisons(fn):
            if c.rel not in ('==', '!='):
                continue
            eqs += 1
            for x in (c.sa(), c.sb()):
                if {'Div', 'Shr'} & x.ops and (x.args or any(cc.name in ('from_le_bytes', 'from_be_bytes') for cc in x.calls)):
                    bad = c
        n += eqs
        ctx.evaluations += eqs
        if bad is not None:
            ctx.bad('GUARD-C30f', fn, 'a length/count equality test is computed through integer division: the remainder is dropped, so an image whose declared length is a few bytes too long is '
                    'accepted', line=bad.line, sink='Div', detail='lossy-length-check')
        else:
            ctx.ok('GUARD-C30f', fn, 'no equality test over a divided length (%d equality tests)' % eqs)
    ctx.floor('GUARD-C30f', n, 2, 'equality tests in the decoders')

REJECT_DECODERS = (('HeaderCodec::decode', 'Header'), ('CommitFooter::decode', 'CommitFooter'))
REJECT_CONST = ('MAGIC', 'VERSION', 'SPEC_', 'FOOTER_SIZE')


def _identity_rejects(ctx, F):
    """GUARD-C30g: a decoder's identity tests (input bytes against MAGIC / VERSION / SPEC_* / FOOTER_SIZE) each reject on their
    own: the mismatch edge of every such comparison cannot reach the block that builds the decoded value (`a != X && b != Y`
    lets an image with one wrong byte through)."""
    ctx.rule('GUARD-C30g', 'every identity test of a decoder (bytes vs MAGIC/VERSION/SPEC_*/FOOTER_SIZE) rejects alone: its mismatch edge cannot reach the decoded value')
    n = 0
    for key, adt in REJECT_DECODERS:
        fn = ctx.need('GUARD-C30g', key)
        if fn is None:
            continue
        ctx.touch(fn, len(fn.blocks))
        okb = {bb for bb, i, s in fn.stmts() if s['rv']['k'] == 'agg' and s['rv'].get('adt') == adt}
        if not okb:
            ctx.lost('GUARD-C30g', '%s aggregate not found in %s' % (adt, key))
            continue
        for c in lib.comparisons(fn):
            if c.rel not in ('==', '!='):
                continue
            a, b = c.sa(), c.sb()
            if a.args and not b.args:
                cs = b
            elif b.args and not a.args:
                cs = a
            else:
                continue
            names = [k.get('name') or '' for k in cs.consts]
            tag = [nm.rsplit('::', 1)[-1] for nm in names if any(t in nm.rsplit('::', 1)[-1] for t in REJECT_CONST)]
            if not tag:
                continue
            n += 1
            ctx.evaluations += 1
            mism = [t for t, rel in c.edges() if rel == '!=']
            leak = [t for t in mism if okb & (set(fn.reachable(t)) | {t})]
            if leak:
                ctx.bad('GUARD-C30g', fn, 'the mismatch edge of the %s test can still reach the decoded %s: an image that fails this test alone is accepted' % (tag[0], adt),
                        line=c.line, sink=tag[0], detail='identity-test-not-rejecting:' + tag[0])
            else:
                ctx.ok('GUARD-C30g', fn, '%s mismatch cannot reach the decoded %s' % (tag[0], adt), line=c.line)
    ctx.floor('GUARD-C30g', n, 4, 'identity tests in header/footer decoders (6 counted)')


def run(ctx):
    _exact_lengths(ctx, ctx.facts())
    _identity_rejects(ctx, ctx.facts())
    from . import c15
    ctx.rule('AGREE-C30e', 'time index: the writer sorts by (timestamp, frame_id); the reader validates the same lexicographic order')
    c15._key(ctx, ctx.facts(), rule='AGREE-C30e')
    ctx.rule('AGREE-C30a', 'header field -> (offset, width, endianness): encode map == decode map; disjoint; validated fields agree')
    ctx.rule('AGREE-C30b', 'footer field -> (offset, width): encode == decode; magic at 0; decode rejects wrong length/magic')
    ctx.rule('AGREE-C30c', 'time-index item list written == read == hashed')
    ctx.rule('MPT-C30d', 'Toc::decode returns Ok only on the bytes_read == bytes.len() edge')
    F = ctx.facts()
    header(ctx, F)
    footer(ctx, F)
    time_index(ctx, F)
    toc(ctx, F)
