"""Direction analysis for in-place block moves (memmove rule).

A loop that reads a block of a file at `src` and writes it to the *same* file at `dst` is an overlapping move
whenever the region is longer than |dst - src|. It is correct only if blocks are visited away from the
destination: a right shift (dst > src) must walk tail-first (src decreasing), a left shift head-first.

The analysis is a sign abstraction, not value reasoning:
  linear form   src, dst as signed sums of leaves (locals defined outside the loop, call results, loop-carried
                accumulators), through use / cast / Add / Sub (checked or not) only;
  accumulators  locals redefined in the loop as themselves (+/-) unsigned terms: increasing or decreasing;
  shift         sign of (dst - src) when its terms are unsigned and of one sign;
  walk          product of the accumulator's sign in src and its direction.
Anything outside this fragment is `unknown`, never guessed."""
from . import lib
from .facts import Place, op_place

ADD = ('Add', 'AddWithOverflow', 'AddUnchecked')
SUB = ('Sub', 'SubWithOverflow', 'SubUnchecked')


def natural_loops(fn):
    """header -> set of blocks"""
    out = {}
    live = fn.live_blocks()
    for b in live:
        for h in fn.succs(b):
            if h in live and fn.dominates(h, b):
                body = out.setdefault(h, {h})
                st = [b]
                while st:
                    x = st.pop()
                    if x in body:
                        continue
                    body.add(x)
                    st.extend(p for p in fn.preds(x) if p in live)
    return out


def _unsigned(fn, l):
    return fn.local_ty(l) in ('u64', 'usize', 'u32', 'u16', 'u8', 'u128')


def linear_form(fn, op, body, depth=0, keep=()):
    """operand -> {leaf local: sign} or None (outside the fragment). Constants contribute nothing.
    Locals in `keep`, locals with several definitions and call results are leaves."""
    if 'k' in op:
        return {}
    p = op_place(op)
    if p is None:
        return None
    if p.p and not (len(p.p) == 1 and p.fields() in (('0',), (0,))):
        return None
    l = p.l
    ds = lib.defs(fn).get(l, [])
    if l in keep or depth > 12 or l <= fn.r['argc'] or len(ds) != 1 or ds[0]['kind'] == 'call':
        return {l: 1}
    d = ds[0]
    rv = d['rv']
    if d['lhs'].p:
        return {l: 1}
    k = rv['k']
    if k == 'use' or (k == 'cast' and rv.get('ck', 'IntToInt') in ('IntToInt',)):
        r = linear_form(fn, rv['a'], body, depth + 1, keep)
        return r if r is not None else {l: 1}
    if k == 'bin' and rv['op'] in ADD + SUB:
        a = linear_form(fn, rv['a'], body, depth + 1, keep)
        b = linear_form(fn, rv['b'], body, depth + 1, keep)
        if a is None or b is None:
            return {l: 1}
        sg = 1 if rv['op'] in ADD else -1
        out = dict(a)
        for x, s in b.items():
            v = out.get(x, 0) + sg * s
            if v:
                out[x] = v
            else:
                out.pop(x, None)
        return out
    return {l: 1}


def accumulators(fn, body):
    """loop-carried locals: local -> 'inc' | 'dec' | 'unknown'"""
    out = {}
    d = lib.defs(fn)
    for l, ds in d.items():
        inside = [x for x in ds if x['bb'] in body and not x['lhs'].p]
        outside = [x for x in ds if x['bb'] not in body]
        if not inside or not outside or not _unsigned(fn, l):
            continue
        dirs = set()
        for x in inside:
            if x['kind'] == 'call':
                dirs.add('unknown')
                continue
            rv = x['rv']
            if rv['k'] != 'use':
                lf = None
                if rv['k'] == 'bin' and rv['op'] in ADD + SUB:
                    a = linear_form(fn, rv['a'], body, keep=(l,))
                    b = linear_form(fn, rv['b'], body, keep=(l,))
                    if a is not None and b is not None:
                        sg = 1 if rv['op'] in ADD else -1
                        lf = dict(a)
                        for y, s in b.items():
                            lf[y] = lf.get(y, 0) + sg * s
            else:
                lf = linear_form(fn, rv['a'], body, keep=(l,))
            if lf is None or lf.get(l) != 1:
                dirs.add('unknown')
                continue
            rest = {y: s for y, s in lf.items() if y != l and s}
            if not rest:
                continue
            if not all(_unsigned(fn, y) for y in rest):
                dirs.add('unknown')
            elif all(s > 0 for s in rest.values()):
                dirs.add('inc')
            elif all(s < 0 for s in rest.values()):
                dirs.add('dec')
            else:
                dirs.add('unknown')
        if dirs:
            out[l] = dirs.pop() if len(dirs) == 1 else 'unknown'
    return out


def seek_position(fn, io_call, body, same_recv):
    """the operand X of the closest `seek(SeekFrom::Start(X))` on the same receiver that dominates io_call inside the loop"""
    best = None
    for c in fn.calls():
        if c.name != 'seek' or c.bb not in body or not lib.call_success_dominates(fn, c, io_call.bb):
            continue
        if not same_recv(c):
            continue
        if best is None or fn.dominates(best.bb, c.bb):
            best = c
    if best is None:
        return None, None
    sl = lib.slice_back(fn, best.args[1:2], through_calls=False, at=(best.bb, None))
    for bb, i, s in fn.stmts():
        rv = s['rv']
        if rv['k'] == 'agg' and rv.get('adt') == 'SeekFrom' and rv.get('variant') == 'Start' and s['lhs']['l'] in sl.locals and bb in body:
            return best, rv['ops'][0]
    return best, None


def move_direction(fn, is_file):
    """for every loop that reads and writes the same file at seek positions: dict(loop header, read, write, shift, walk, ok)"""
    res = []
    loops = natural_loops(fn)
    for h, body in sorted(loops.items()):
        reads = [c for c in fn.calls() if c.bb in body and c.name in ('read_exact', 'read') and c.args and is_file(fn, c, c.args[0])]
        writes = [c for c in fn.calls() if c.bb in body and c.name in ('write_all', 'write') and c.args and is_file(fn, c, c.args[0])]
        if not reads or not writes:
            continue
        # innermost loop only
        if any(h2 != h and b2 < body and any(r.bb in b2 for r in reads) and any(w.bb in b2 for w in writes) for h2, b2 in loops.items()):
            continue
        r, w = reads[0], writes[0]
        rs, src = seek_position(fn, r, body, lambda c: is_file(fn, c, c.args[0]))
        ws, dst = seek_position(fn, w, body, lambda c: is_file(fn, c, c.args[0]))
        rec = dict(header=h, read=r, write=w, shift='unknown', walk='unknown', ok=None, why='')
        res.append(rec)
        if src is None or dst is None or rs is ws:
            rec['why'] = 'seek positions of the read and the write not found'
            continue
        acc = accumulators(fn, body)
        keep = tuple(acc)
        ls = linear_form(fn, src, body, keep=keep)
        ld = linear_form(fn, dst, body, keep=keep)
        if ls is None or ld is None:
            rec['why'] = 'positions are not linear in the loop variables'
            continue
        diff = {}
        for x in set(ls) | set(ld):
            v = ld.get(x, 0) - ls.get(x, 0)
            if v:
                diff[x] = v
        if diff and all(_unsigned(fn, x) for x in diff):
            if all(v > 0 for v in diff.values()):
                rec['shift'] = 'right'
            elif all(v < 0 for v in diff.values()):
                rec['shift'] = 'left'
        walks = set()
        for a, dr in acc.items():
            s = ls.get(a, 0)
            if not s:
                continue
            if dr == 'unknown':
                walks.add('unknown')
            else:
                walks.add('up' if (s > 0) == (dr == 'inc') else 'down')
        if len(walks) == 1:
            rec['walk'] = walks.pop()
        rec['src'], rec['dst'], rec['acc'] = ls, ld, acc
        if rec['shift'] == 'unknown' or rec['walk'] == 'unknown':
            rec['why'] = 'shift %s, walk %s' % (rec['shift'], rec['walk'])
            continue
        rec['ok'] = (rec['shift'] == 'right' and rec['walk'] == 'down') or (rec['shift'] == 'left' and rec['walk'] == 'up')
    return res
