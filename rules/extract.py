"""Fact extraction driver: builds mvfacts, runs it over /repo for a feature
configuration, caches the result keyed by a hash of /repo's sources."""
import fcntl, glob, hashlib, os, shutil, subprocess, sys, time

VERIF = os.path.dirname(os.path.dirname(os.path.abspath(__file__)))
REPO = os.environ.get('VERIF_REPO', '/repo')
BUILD = os.path.join(VERIF, 'build')
DRIVER_DIR = os.path.join(VERIF, 'driver')
DRIVER_BIN = os.path.join(BUILD, 'driver-target', 'release', 'mvfacts')

CONFIGS = {
    'default': [],
    'wide': ['--features', 'encryption,hnsw_bench,replay,temporal_track,parallel_segments'],
    'encryption': ['--features', 'encryption'],
    'nodefault': ['--no-default-features'],
}


def src_hash(repo=REPO):
    h = hashlib.sha256()
    files = []
    for root, dirs, fs in os.walk(os.path.join(repo, 'src')):
        dirs.sort()
        for f in sorted(fs):
            files.append(os.path.join(root, f))
    for f in ('Cargo.toml', 'Cargo.lock', 'build.rs', 'rust-toolchain.toml'):
        p = os.path.join(repo, f)
        if os.path.exists(p):
            files.append(p)
    for p in files:
        h.update(os.path.relpath(p, repo).encode())
        h.update(b'\0')
        with open(p, 'rb') as fh:
            h.update(fh.read())
        h.update(b'\0')
    # the extractor itself is part of the key
    for p in sorted(glob.glob(os.path.join(DRIVER_DIR, 'src', '*.rs'))):
        with open(p, 'rb') as fh:
            h.update(fh.read())
    return h.hexdigest()


def _env():
    e = dict(os.environ)
    e['CARGO_NET_OFFLINE'] = 'true'
    e.pop('RUSTC_WRAPPER', None)
    return e


def sysroot():
    return subprocess.check_output(['rustc', '+nightly', '--print', 'sysroot'], env=_env(), cwd=DRIVER_DIR).decode().strip()


def build_driver(log=sys.stderr):
    srcs = glob.glob(os.path.join(DRIVER_DIR, 'src', '*.rs')) + [os.path.join(DRIVER_DIR, 'Cargo.toml')]
    if os.path.exists(DRIVER_BIN) and all(os.path.getmtime(DRIVER_BIN) >= os.path.getmtime(s) for s in srcs):
        return
    e = _env()
    e['CARGO_TARGET_DIR'] = os.path.join(BUILD, 'driver-target')
    r = subprocess.run(['cargo', 'build', '--offline', '--release'], cwd=DRIVER_DIR, env=e,
                       stdout=subprocess.PIPE, stderr=subprocess.STDOUT)
    if r.returncode != 0:
        log.write(r.stdout.decode(errors='replace'))
        raise SystemExit('mvfacts driver failed to build')


class Lock:
    def __init__(self, name='lock'):
        os.makedirs(BUILD, exist_ok=True)
        self.path = os.path.join(BUILD, name)

    def __enter__(self):
        self.f = open(self.path, 'w')
        fcntl.flock(self.f, fcntl.LOCK_EX)
        return self

    def __exit__(self, *a):
        fcntl.flock(self.f, fcntl.LOCK_UN)
        self.f.close()


def ensure_facts(config='default', repo=REPO, log=sys.stderr):
    """Return (path, info) of a fact file for the *current* sources of `repo`."""
    if config not in CONFIGS:
        raise SystemExit('unknown configuration %s' % config)
    t0 = time.time()
    with Lock():
        h = src_hash(repo)
        facts_dir = os.path.join(BUILD, 'facts')
        os.makedirs(facts_dir, exist_ok=True)
        out = os.path.join(facts_dir, '%s-%s.jsonl' % (config, h[:20]))
        info = dict(config=config, src_sha256=h, path=out, cached=True)
        if os.path.exists(out):
            return out, info
        info['cached'] = False
        build_driver(log)
        target = os.path.join(BUILD, 'target')
        # cargo replays a cached result without calling the wrapper: force the crate to be re-checked
        for fp in glob.glob(os.path.join(target, 'debug', '.fingerprint', 'memvid-core-*')):
            shutil.rmtree(fp, ignore_errors=True)
        e = _env()
        e['LD_LIBRARY_PATH'] = os.path.join(sysroot(), 'lib') + ':' + e.get('LD_LIBRARY_PATH', '')
        e['RUSTFLAGS'] = '-Awarnings'
        e['RUSTC_WORKSPACE_WRAPPER'] = DRIVER_BIN
        e['CARGO_TARGET_DIR'] = target
        e['MVFACTS_OUT'] = out
        e['MVFACTS_HIR'] = '*'
        e['MVFACTS_CRATES'] = 'memvid_core'
        cmd = ['cargo', '+nightly', 'check', '--offline', '--lib'] + CONFIGS[config]
        r = subprocess.run(cmd, cwd=repo, env=e, stdout=subprocess.PIPE, stderr=subprocess.STDOUT)
        if r.returncode != 0 or not os.path.exists(out):
            log.write(r.stdout.decode(errors='replace')[-6000:])
            log.write('\nmvfacts: /repo does not type-check in configuration %s (no verdict)\n' % config)
            raise SystemExit(2)
        # drop fact files of older source states for this configuration
        for old in glob.glob(os.path.join(facts_dir, '%s-*.jsonl*' % config)):
            if not old.startswith(out):
                try:
                    os.remove(old)
                except OSError:
                    pass
        info['extract_s'] = round(time.time() - t0, 2)
        return out, info


def extract_crate(crate_dir, crate_name, out, log=sys.stderr):
    """Run the extractor over a small stand-alone crate (positive-control fixtures)."""
    build_driver(log)
    e = _env()
    e['LD_LIBRARY_PATH'] = os.path.join(sysroot(), 'lib') + ':' + e.get('LD_LIBRARY_PATH', '')
    e['RUSTFLAGS'] = '-Awarnings'
    e['RUSTC_WORKSPACE_WRAPPER'] = DRIVER_BIN
    tgt = os.path.join(BUILD, 'fixture-target')
    e['CARGO_TARGET_DIR'] = tgt
    e['MVFACTS_OUT'] = out
    e['MVFACTS_HIR'] = '*'
    e['MVFACTS_CRATES'] = crate_name
    shutil.rmtree(os.path.join(tgt, 'debug', '.fingerprint'), ignore_errors=True)
    if os.path.exists(out):
        os.remove(out)
    r = subprocess.run(['cargo', '+nightly', 'check', '--offline', '--lib'], cwd=crate_dir, env=e,
                       stdout=subprocess.PIPE, stderr=subprocess.STDOUT)
    if r.returncode != 0 or not os.path.exists(out):
        log.write(r.stdout.decode(errors='replace')[-4000:])
        raise SystemExit('fixture crate failed to analyse')
    return out
