"""C04 — recovery is crash-safe and idempotent (idempotence link).

Decided:
  MPT-C04a  recover_wal, on the branch that applied pending records, returns Ok only through
            apply_records(ok) -> record_checkpoint(ok) -> persist_header(ok) -> File::sync_all(ok), in that order:
            if the advanced wal_sequence were not persisted the next open would replay the same records and
            allocate a second set of frames.
  MPT-C04b  open_locked's TOC-recovery arm persists the repaired header only on the edge where the recovered
            footer offset or checksum differs from the header's (a second open of a recovered file writes nothing
            on that arm), and the value persisted is the recovered one.
  MPT-C04c  record_checkpoint's header.wal_sequence store is what persist_header writes: persist_header's header
            argument is self.header, the same object record_checkpoint updated.
  MPT-C04d  single publication point: between the success of apply_records (the replayed frames are in the in-memory
            TOC) and record_checkpoint (the header's wal_sequence moves past them), recover_wal must not reach a
            persist of the header: a header written in that window publishes a TOC that already contains the
            replayed frames together with a wal_sequence that still marks their records as pending, so a process
            crash before the second header write makes the next open replay them again (duplicate frames).
            Interprocedural: a local callee counts if it transitively reaches persist_header / HeaderCodec::write.
  MPT-C04e  replayed state changes are idempotent: the appliers of delete/supersede records (mark_frame_deleted,
            mark_frame_superseded, called by apply_records) have no error exit that depends on the target frame's
            status. A tombstone can legitimately be replayed against a frame the persisted TOC already shows as
            deleted (the window of MPT-C04d); rejecting it makes every later open fail.
  MPT-C04f  rebuild_indexes leaves a committed footer behind everything it wrote: on every path from a call that writes
            index bytes into the live file (track/segment writers, the Tantivy flush, set_len) to an Ok exit there is
            a later rewrite_toc_footer of rebuild_indexes itself. recover_wal relies on this: it only checkpoints and
            persists the header afterwards, so a rebuild whose last TOC write precedes later index writes leaves a
            header that points at index bytes, and the *next* open cannot find a TOC.
Not decided: nested crashes during recovery (crash points)."""
from . import lib
from .facts import op_place


# window calls that fire the rule but were not reproduced as a state difference
CANDIDATE_VIA = {
    'Memvid::flush_tantivy': 'reached only when the replay inserted no frame (tombstones / lex batches); replaying those again is idempotent (a tombstone re-marks a deleted frame), not reproduced as a state difference',
}


def _footer_last(ctx, F):
    from . import c02
    ctx.rule('MPT-C04f', 'rebuild_indexes: every in-place index write is followed on every Ok path by rebuild_indexes\' own rewrite_toc_footer')
    rb = ctx.need('MPT-C04f', 'Memvid::rebuild_indexes')
    if rb is None:
        return
    ctx.touch(rb, len(rb.blocks))
    rw = rb.calls_to('Memvid::rewrite_toc_footer')
    if not rw:
        ctx.lost('MPT-C04f', 'rebuild_indexes no longer calls rewrite_toc_footer')
        return
    writers = []
    for c in rb.calls():
        if c in rw or c.is_(('persist_header',)):
            continue
        h = F.fns.get(c.local_callee) if c.local_callee else None
        if h is not None:
            if any(c02.direct_live_writes(g) for g in lib.reachable_fns(F, [h]).values()):
                writers.append(c)
        elif c in c02.direct_live_writes(rb):
            writers.append(c)
    ctx.floor('MPT-C04f', len(writers), 3, 'calls in rebuild_indexes that write index bytes into the live file')
    exits = {ex['bb'] for ex in rb.ok_exits()}
    cut = {r.bb for r in rw}
    bad = []
    for w in writers:
        ctx.evaluations += 1
        start = w.target if w.target is not None else w.bb
        if start in cut:
            continue
        if rb.reachable(start, avoid=cut) & exits:
            bad.append(w)
    if bad:
        w = bad[-1]
        ctx.bad('MPT-C04f', rb, 'after %s wrote into the live file an Ok exit is reachable without a later rewrite_toc_footer: the last TOC on disk precedes (and is overwritten by) the index bytes, '
                'and after an open-time recovery the header points at bytes that are not a TOC' % w.key.split('::')[-1], line=w.line, sink='rewrite_toc_footer', detail='index-write-after-last-toc')
    else:
        ctx.ok('MPT-C04f', rb, 'all %d in-place index writes are followed by rewrite_toc_footer on every Ok path' % len(writers), line=rw[-1].line)


STABLE_VIA = set(CANDIDATE_VIA) | {'Memvid::rebuild_indexes'}


def run(ctx):
    ctx.rule('MPT-C04a', 'recover_wal (records applied): Ok only via apply_records -> record_checkpoint -> persist_header -> sync_all')
    ctx.rule('MPT-C04b', 'open_locked persists a recovered header only under the inequality test, with the recovered values')
    ctx.rule('MPT-C04c', 'the header persisted is the one the checkpoint updated (self.header)')
    F = ctx.facts()
    fn = ctx.need('MPT-C04a', 'Memvid::recover_wal')
    if fn is not None:
        ctx.touch(fn, len(fn.blocks))
        ar = fn.calls_to('Memvid::apply_records')
        rc = fn.calls_to('EmbeddedWal::record_checkpoint')
        ph = fn.calls_to('persist_header')
        sy = fn.calls_to('File::sync_all')
        if not (ar and rc and ph and sy):
            ctx.bad('MPT-C04a', fn, 'recover_wal lacks one of apply_records/record_checkpoint/persist_header/sync_all: %s' % (
                [bool(ar), bool(rc), bool(ph), bool(sy)]), detail='missing-step')
        else:
            # first persist_header after the checkpoint, last sync
            ph1 = [p for p in ph if lib.call_success_dominates(fn, rc[0], p.bb)]
            steps = [ar[0], rc[0], (ph1 or ph)[0], sy[-1]]
            ctx.evaluations += 4
            bad = None
            for a, b in zip(steps, steps[1:]):
                if not lib.call_success_dominates(fn, a, b.bb):
                    bad = '%s does not succeed before %s' % (a.key, b.key)
            exits = [ex for ex in fn.ok_exits() if lib.call_success_dominates(fn, ar[0], ex['bb'])]
            if not exits:
                ctx.lost('MPT-C04a', 'recover_wal has no Ok exit after apply_records')
            for ex in exits:
                if not lib.call_success_dominates(fn, steps[-1], ex['bb']):
                    bad = 'Ok exit at line %s not dominated by the final sync' % ex['line']
            if bad:
                ctx.bad('MPT-C04a', fn, 'recovery does not persist its checkpoint before returning: ' + bad, detail='recover-persist-order')
            else:
                ctx.ok('MPT-C04a', fn, 'apply_records -> record_checkpoint -> persist_header -> sync_all dominate the Ok exit of the replay branch', line=rc[0].line)
            for p in ph:
                s = lib.slice_back(fn, p.args[1:2], through_calls=False)
                ctx.evaluations += 1
                if s.has_field('Memvid', 'header'):
                    ctx.ok('MPT-C04c', fn, 'persist_header writes self.header', line=p.line)
                else:
                    ctx.bad('MPT-C04c', fn, 'persist_header does not write self.header', line=p.line, detail='persist-other-header')
            s = lib.slice_back(fn, rc[0].args[1:2], through_calls=False)
            if s.has_field('Memvid', 'header'):
                ctx.ok('MPT-C04c', fn, 'record_checkpoint updates self.header', line=rc[0].line)
            else:
                ctx.bad('MPT-C04c', fn, 'record_checkpoint does not update self.header', line=rc[0].line, detail='checkpoint-other-header')
    # ---- d
    ctx.rule('MPT-C04d', 'recover_wal: no header persist between apply_records and record_checkpoint (single publication point)')
    if fn is not None and ar and rc:
        sb, _ = fn.success_block(ar[0])
        window = [c for c in fn.calls() if sb is not None and fn.dominates(sb, c.bb) and rc[0].bb in fn.reachable(c.bb) and c is not rc[0] and c.bb != rc[0].bb]
        ctx.evaluations += len(window)
        hits = []
        for c in window:
            if c.is_(('persist_header', 'HeaderCodec::write')):
                hits.append((c, [c.key]))
                continue
            lc = c.local_callee
            if lc and lc in F.fns:
                reach = lib.reachable_fns(F, [F.fns[lc]])
                for g in reach.values():
                    w = [x for x in g.calls() if x.is_(('persist_header', 'HeaderCodec::write'))]
                    if w:
                        # key by the reviewed operation, also when it is reached through a thin private wrapper (`flush_x_if_pending`)
                        first = c.key
                        if first not in STABLE_VIA:
                            inner = {x.key for x in F.fns[lc].calls() if x.key in STABLE_VIA}
                            if len(inner) == 1:
                                first = inner.pop()
                        hits.append((c, [first, g.key, w[0].key]))
                        break
        if not window:
            ctx.lost('MPT-C04d', 'recover_wal: no calls between apply_records and record_checkpoint (anchors moved)')
        for c, path in hits:
            if path[0] in CANDIDATE_VIA:
                ctx.candidate('MPT-C04d', fn, 'header persisted between apply_records and record_checkpoint via %s: %s' % (' -> '.join(path), CANDIDATE_VIA[path[0]]), line=c.line,
                              detail='header-persisted-before-checkpoint:' + path[0])
                continue
            ctx.bad('MPT-C04d', fn, 'the header is persisted between apply_records and record_checkpoint (via %s): it publishes the replayed frames with a wal_sequence that still '
                    'marks their records pending; a crash before the final header write makes the next open replay them again' % ' -> '.join(path),
                    line=c.line, sink=path[0], detail='header-persisted-before-checkpoint:' + path[0])
        if window and not [h for h in hits if h[1][0] not in CANDIDATE_VIA]:
            ctx.ok('MPT-C04d', fn, 'no header persist between apply_records and record_checkpoint', line=rc[0].line)
    # ---- e
    ctx.rule('MPT-C04e', 'mark_frame_deleted / mark_frame_superseded: no error exit conditioned on Frame.status (replay is idempotent)')
    for key in ('Memvid::mark_frame_deleted', 'Memvid::mark_frame_superseded'):
        g = ctx.need('MPT-C04e', key)
        if g is None:
            continue
        ctx.touch(g, len(g.blocks))
        errs = lib.enum_constructions(g, 'MemvidError')
        tests = []
        for c in lib.comparisons(g):
            if c.sa().has_field('Frame', 'status') or c.sb().has_field('Frame', 'status'):
                tests += [(c.bb, t, c.line) for t, rel in c.edges() if t is not None]
        for vs in lib.variant_switches(g):
            if vs.get('enum') == 'FrameStatus' or ('Frame', 'status') in vs['place'].field_owners():
                tests += [(vs['bb'], t, vs['line']) for t in vs['arms'].values()]
        ctx.evaluations += len(errs) + len(tests)
        hit = [(e, ln) for e in errs for (b, t, ln) in tests if lib.edge_dominates(g, b, t, e['bb'])]
        if hit:
            ctx.bad('MPT-C04e', g, 'an error exit depends on the target frame\'s status (test at line %s): replaying the record against a TOC that already reflects it fails, '
                    'and so does every later open' % hit[0][1], line=hit[0][0].get('line'), detail='status-dependent-error')
        else:
            ctx.ok('MPT-C04e', g, 'no error exit depends on Frame.status (%d error sites, %d status tests)' % (len(errs), len(tests)))
    _footer_last(ctx, F)
    ol = ctx.need('MPT-C04b', 'Memvid::open_locked')
    if ol is not None:
        ctx.touch(ol, len(ol.blocks))
        rt = ol.calls_to('recover_toc')
        if not rt:
            # the read-or-recover block extracted into a helper: decide the same clauses in the helper
            F_ = ctx.facts()
            for c in ol.calls():
                h = F_.fns.get(c.local_callee) if c.local_callee else None
                if h is not None and not h.is_closure and h.calls_to('recover_toc'):
                    ol = h
                    ctx.touch(ol, len(ol.blocks))
                    rt = ol.calls_to('recover_toc')
                    break
        if not rt:
            ctx.lost('MPT-C04b', 'open_locked no longer calls recover_toc')
        else:
            phs = [p for p in ol.calls_to('persist_header') if lib.call_success_dominates(ol, rt[0], p.bb)]
            # the recovery-arm persist is the one that precedes the construction of the handle (recover_wal call)
            rw = ol.calls_to('Memvid::recover_wal')
            arm = [p for p in phs if not (rw and lib.call_success_dominates(ol, rw[0], p.bb))]
            ctx.floor('MPT-C04b', len(arm), 1, 'persist_header in the TOC-recovery arm of open_locked')
            for p in arm:
                ctx.evaluations += 1
                g = None
                for c, rel in lib.guards_holding_at(ol, p.bb):
                    if rel == '!=':
                        a, b = c.sa(), c.sb()
                        fields = a.fields | b.fields
                        if ('Header', 'footer_offset') in fields or ('Header', 'toc_checksum') in fields:
                            g = c
                # `a != b || c != d` gives two edges into the block: accept reachability-cut form
                if g is None:
                    cut = set()
                    for c in lib.comparisons(ol):
                        fields = c.sa().fields | c.sb().fields
                        if ('Header', 'footer_offset') in fields or ('Header', 'toc_checksum') in fields:
                            for tgt, rel in c.edges():
                                if rel == '!=':
                                    cut.add((c.bb, tgt))
                    if cut and not lib.reachable_without_edges(ol, p.bb, cut):
                        g = True
                if g:
                    ctx.ok('MPT-C04b', ol, 'recovered header persisted only when it differs from the stored one', line=p.line)
                else:
                    ctx.bad('MPT-C04b', ol, 'open rewrites the header on the recovery arm even when nothing changed (second open would write again)',
                            line=p.line, detail='recover-header-unconditional')
                # stores of the recovered values precede it
                sts = [st for st in lib.field_stores(ol, 'Header', 'footer_offset') if ol.dominates(st['bb'], p.bb)]
                if sts and any(rt[0] in lib.slice_back(ol, lib.rv_operands(st['rv'])).calls for st in sts):
                    ctx.ok('MPT-C04b', ol, 'header.footer_offset := recovered offset before it is persisted', line=sts[0]['line'])
                else:
                    ctx.bad('MPT-C04b', ol, 'the recovered footer offset is not what gets persisted', line=p.line, detail='recover-header-value')
