"""C22 — no panic or hang on arbitrary file bytes (two Engler-style checkers).

Decided, over every function reachable from the untrusted-input entry points (open, open_read_only, verify,
doctor_plan, doctor, doctor_apply and the read APIs):
  PANIC-C22a  no explicit assertion (assert!/debug_assert!/assert_eq!/panic!/unreachable!/todo!/unimplemented!,
              recognised by macro expansion) is reachable there, except reviewed sites keyed by function + macro.
              An assertion on a value computed from the file contradicts the code that reports that very value
              (Engler's contradiction rule: DoctorPlanner::probe counts pending WAL records, compute asserted there
              are none).
  ALLOC-C22b  an integer read from the file (manifest / frame / header size fields, or from_le_bytes of bytes read)
              that sizes an allocation (vec![0; n], Vec::with_capacity, resize, reserve) must be bounded first: a
              dominating comparison of that very quantity with a constant or with the file length, a clamp (min), or
              the success of a local validator that performs such a comparison on the same struct.
  SUB-C22c    an unsigned subtraction `a - b` whose subtrahend is read from the file (size/offset field of a decoded
              structure, or from_le_bytes of bytes read) underflows on a crafted value - a panic in debug builds, a
              wrapped offset and an out-of-range slice in release builds. It must be dominated by an edge on which
              b <= a holds *for that a* (a comparison whose one side derives from b and whose other side derives from
              a), or b must be clamped by min() first. A guard against a different quantity does not count.
  SUB-C22d    `len - w` where len is the length of the untrusted buffer (slice / map length) and w is a loop-carried
              window/cursor: every definition of w that reaches the subtraction is clamped with min(., len-derived
              value), is a constant, or the subtraction is dominated by a w <= len edge. A window that is doubled
              without the clamp exceeds the file length on files that are not a power-of-two multiple of the start
              size, and the subtraction underflows.
  MUL-C22e    an integer decoded from the file (from_le_bytes) is multiplied only through checked_mul / saturating_mul, or
              where a comparison bounding that integer from above dominates the product. A plain `count * 16` panics on
              overflow in debug builds and, wrapped, can satisfy a length comparison and size an allocation in release.
Not decided: panic-freedom of index/arithmetic sites in general, termination."""
from . import lib
from .facts import Place, op_place

ENTRY = ('Memvid::open', 'Memvid::open_read_only', 'Memvid::open_read_only_with_options', 'Memvid::verify', 'Memvid::doctor_plan',
         'Memvid::doctor', 'Memvid::doctor_apply', 'Memvid::search', 'Memvid::timeline', 'Memvid::frame_canonical_payload', 'Memvid::stats',
         'Memvid::search_vec', 'Memvid::ask', 'Memvid::blob_reader', 'Memvid::frame_by_id', 'Memvid::frame_text_by_id', 'Memvid::frame_by_uri',
         'Memvid::vec_search_with_embedding_acl', 'Memvid::frame_embedding', 'Memvid::frame_preview_by_id')
ASSERT_MACROS = ('assert', 'debug_assert', 'assert_eq', 'debug_assert_eq', 'assert_ne', 'debug_assert_ne', 'panic', 'unreachable', 'todo', 'unimplemented')
REVIEWED_ASSERTS = {
    ('TemporalNormalizer::first_business_day_next_month', 'unreachable'): 'the matched value is start_of_next_month().value, which is always built by date_resolution() as TemporalResolutionValue::Date; independent of file bytes',
    ('memvid::lifecycle::scan_range_for_toc', 'debug_assert'): 'slice.len() <= MAX_TOC_BYTES holds by construction of scan_start (start.max(end - MAX_TOC_BYTES))',
}
CANDIDATE_ASSERTS = {
    ('simd::l2_distance_squared_simd', 'debug_assert_eq'): 'equal-length precondition; a file holding embeddings of mixed dimensions would trip it in debug builds (not reproduced)',
}
ALLOC = ('Vec::with_capacity', 'std::vec::from_elem', 'Vec::resize', 'Vec::reserve', 'Vec::reserve_exact', 'String::with_capacity')
SIZE_HINT = ('bytes_length', 'payload_length', 'length', 'count', 'entry_count', 'toc_len', 'wal_size', 'vector_count', 'len', 'size', 'canonical_length')
FILE_STRUCT_SUFFIX = ('Manifest', 'Frame', 'Header', 'SegmentCommon', 'CommitFooter', 'Descriptor', 'Segment')
CANDIDATE_ALLOC = {
    ('io::time_index::read_track', 'from_le_bytes'): 'entry count is cross-checked only against the caller-supplied length (itself from the manifest); needs a crafted TOC with a consistent huge pair, not reproduced',
}


def run(ctx):
    ctx.rule('PANIC-C22a', 'no explicit assertion macro reachable from the untrusted-input entry points (reviewed exemptions keyed by function+macro)')
    ctx.rule('ALLOC-C22b', 'file-derived sizes are bounded (constant / file length / clamp / validator) before they size an allocation')
    F = ctx.facts()
    roots = [F.fn(k) for k in ENTRY]
    roots = [r for r in roots if r is not None]
    ctx.floor('PANIC-C22a:entries', len(roots), 15, 'untrusted-input entry points')
    reach = lib.reachable_fns(F, roots)
    ctx.evaluations += sum(len(f.calls()) for f in reach.values())
    for f in reach.values():
        ctx.fns_seen.add(f.path)
    n_assert = 0
    for f in sorted(reach.values(), key=lambda x: x.path):
        seen_here = set()
        for c in f.calls():
            if not (c.key.startswith('core::panicking') or c.key.startswith('std::rt::begin_panic') or c.key.startswith('std::panicking')):
                continue
            macs = [m.split('::')[-1] for m in c.t.get('mac', [])]
            am = [m for m in macs if m in ASSERT_MACROS]
            if not am:
                continue      # compiler-inserted checks (overflow, bounds) are out of scope of this rule
            macro = am[-1]
            k = (f.path if f.is_closure else f.key, macro)
            if (k, c.line) in seen_here:
                continue
            seen_here.add((k, c.line))
            n_assert += 1
            if k in REVIEWED_ASSERTS:
                ctx.ok('PANIC-C22a', f, 'reviewed %s!: %s' % (macro, REVIEWED_ASSERTS[k]), line=c.line)
            elif k in CANDIDATE_ASSERTS:
                ctx.candidate('PANIC-C22a', f, '%s! reachable from file-reading entry points: %s' % (macro, CANDIDATE_ASSERTS[k]), line=c.line, detail='assert:' + macro)
            else:
                ctx.bad('PANIC-C22a', f, 'explicit %s! is reachable from open/verify/doctor/read entry points: a crash-left or crafted file makes the process panic instead of returning an error'
                        % macro, line=c.line, sink='panic', detail='assert-on-untrusted-path:' + macro)
    ctx.extra['explicit_assertions_in_reach'] = n_assert
    ctx.floor('PANIC-C22a:reach', len(reach), 400, 'functions reachable from the untrusted-input entry points')
    # ---- allocations
    n_alloc = 0
    for f in sorted(reach.values(), key=lambda x: x.path):
        for c in f.calls():
            if not c.is_(ALLOC):
                continue
            arg = c.args[1] if c.name in ('from_elem', 'resize', 'reserve', 'reserve_exact') else c.args[-1]
            sl = lib.slice_back(f, [arg], through_calls=True, at=(c.bb, None))
            flds = {(o, x) for o, x in sl.fields if o and o.endswith(FILE_STRUCT_SUFFIX) and any(h in x for h in SIZE_HINT)}
            fromle = [cc for cc in sl.calls if cc.name in ('from_le_bytes', 'from_be_bytes')]
            if not flds and not fromle:
                continue
            n_alloc += 1
            ctx.evaluations += 1
            why = None
            if any(cc.name in ('min', 'clamp') for cc in sl.calls):
                why = 'clamped with min()'
            if why is None:
                for cm, rel in lib.guards_holding_at(f, c.bb):
                    for x, y in ((cm.sa(), cm.sb()), (cm.sb(), cm.sa())):
                        same = (flds & x.fields) or any(cc in x.calls for cc in fromle)
                        bound = (y.const_vals() or any(k.get('name') for k in y.consts) or any(cc.name in ('len', 'metadata') for cc in y.calls)) and \
                            not (flds & y.fields) and not any(cc in y.calls for cc in fromle)
                        if same and bound:
                            why = 'compared with a constant / the file length at line %s' % cm.line
            if why is None:
                # transitive bound: the quantity (times a record size, plus a header) is required to *equal* a value
                # that is itself bounded by a dominating comparison with a constant
                guards = lib.guards_holding_at(f, c.bb)
                for cm, rel in guards:
                    if rel != '==':
                        continue
                    for x, y in ((cm.sa(), cm.sb()), (cm.sb(), cm.sa())):
                        same = (flds & x.fields) or any(cc in x.calls for cc in fromle)
                        if not same or (flds & y.fields) or any(cc in y.calls for cc in fromle):
                            continue
                        if {'Sub', 'SubWithOverflow', 'Div', 'Shr', 'Rem', 'BitAnd'} & x.ops:
                            continue      # the equated expression must grow with the quantity
                        for cm2, rel2 in guards:
                            if cm2 is cm or rel2 not in ('<=', '<'):
                                continue
                            for u, v in ((cm2.sa(), cm2.sb(), ), (cm2.sb(), cm2.sa())):
                                r = rel2 if u is cm2.sa() else lib.FLIP[rel2]
                                if r in ('<=', '<') and (set(u.args) & set(y.args) or (u.locals & y.locals and not u.calls)) and (v.const_vals() or any(k.get('name') for k in v.consts)):
                                    why = 'required to equal a value bounded by a constant (lines %s, %s)' % (cm.line, cm2.line)
            if why is None:
                # local validator: a dominating successful call whose body compares the same field with a constant
                for v in f.calls():
                    lc = v.local_callee
                    if not lc or lc not in F.fns or not lib.call_success_dominates(f, v, c.bb) or v is c:
                        continue
                    g = F.fns[lc]
                    for cm in lib.comparisons(g):
                        for x, y in ((cm.sa(), cm.sb()), (cm.sb(), cm.sa())):
                            if (flds & x.fields) and (y.const_vals() or any(k.get('name') for k in y.consts)) and g.returns_result():
                                why = 'validated by %s (line %s)' % (g.key.split('::')[-1], v.line)
            key = (f.key, 'from_le_bytes' if fromle and not flds else ','.join(sorted(x for o, x in flds)))
            src = ', '.join(sorted('%s.%s' % p for p in flds)) or 'from_le_bytes(bytes read)'
            if why:
                ctx.ok('ALLOC-C22b', f, '%s sized by %s: %s' % (c.name, src, why), line=c.line)
            elif key in CANDIDATE_ALLOC:
                ctx.candidate('ALLOC-C22b', f, '%s sized by %s without a constant / file-length bound: %s' % (c.name, src, CANDIDATE_ALLOC[key]), line=c.line, detail='unbounded-alloc')
            else:
                ctx.bad('ALLOC-C22b', f, '%s is sized by %s, read from the file, with no bound against a constant or the file length on its path: a crafted size field aborts the process'
                        % (c.name, src), line=c.line, sink=c.name, detail='unbounded-alloc:' + key[1])
    ctx.floor('ALLOC-C22b', n_alloc, 4, 'allocations sized by file-derived integers')
    # ---- subtractions
    ctx.rule('SUB-C22c', 'unsigned a - b with file-derived b is dominated by a b <= a edge for the same a, or b is clamped with min()')
    n_sub = 0
    for f in sorted(reach.values(), key=lambda x: x.path):
        if f.r.get('derive'):
            continue
        for bb, i, st in f.stmts():
            rv = st['rv']
            if rv['k'] != 'bin' or rv['op'] not in ('Sub', 'SubWithOverflow') or 'k' in rv['b']:
                continue
            pb = op_place(rv['b'])
            if pb is None or f.local_ty(pb.l) not in ('u64', 'usize', 'u32', 'u16'):
                continue
            sb = lib.slice_back(f, [rv['b']], through_calls=True, at=(bb, i))
            fromle = [c for c in sb.calls if c.name in ('from_le_bytes', 'from_be_bytes')]
            flds = {(o, x) for o, x in sb.fields if o and o.endswith(FILE_STRUCT_SUFFIX) and any(h in x for h in SIZE_HINT + ('offset',))}
            if not fromle and not flds:
                continue
            n_sub += 1
            ctx.evaluations += 1
            src = ', '.join(sorted('%s.%s' % p for p in flds)) or 'from_le_bytes(bytes read)'
            if any(c.name in ('min', 'clamp') for c in sb.calls):
                ctx.ok('SUB-C22c', f, 'subtrahend (%s) clamped with min()' % src, line=st.get('l'))
                continue
            sa = lib.slice_back(f, [rv['a']], through_calls=True, at=(bb, i))
            why = None
            for cm, rel in lib.guards_holding_at(f, bb):
                for x, y, r in ((cm.sa(), cm.sb(), rel), (cm.sb(), cm.sa(), lib.FLIP[rel])):
                    b_side = bool(x.locals & sb.locals) or any(c in x.calls for c in fromle) or bool(flds & x.fields)
                    a_side = bool((y.locals & sa.locals) - sb.locals) or bool((y.fields & sa.fields) - sb.fields)
                    if b_side and a_side and r in ('<=', '<', '=='):
                        why = 'b <= a established at line %s' % cm.line
            if why is None and ({'Add', 'AddWithOverflow'} & sa.ops) and ((lib.root_of(f, pb.l) | {pb.l}) & sa.locals):
                why = 'the minuend was formed by adding this very value (a = x + b)'
            if why:
                ctx.ok('SUB-C22c', f, 'a - b with b from %s: %s' % (src, why), line=st.get('l'))
            else:
                ctx.bad('SUB-C22c', f, 'unsigned subtraction of a file-derived value (%s) that is not bounded by the minuend on this path: a crafted field underflows (panic in debug, '
                        'wrapped offset and out-of-range slice in release)' % src, line=st.get('l'), sink='Sub', detail='unguarded-sub:' + (','.join(sorted(x for o, x in flds)) or 'from_le_bytes'))
    ctx.floor('SUB-C22c', n_sub, 3, 'unsigned subtractions with a file-derived subtrahend')
    # ---- multiplications
    ctx.rule('MUL-C22e', 'a multiplication of an integer decoded from the file (from_le_bytes) is checked (checked_mul/saturating_mul) or dominated by an upper bound on that integer')
    n_mul = 0
    for f in sorted(reach.values(), key=lambda x: x.path):
        if f.r.get('derive'):
            continue
        for bb, i, st in f.stmts():
            rv = st['rv']
            if rv['k'] != 'bin' or rv['op'] not in ('Mul', 'MulWithOverflow'):
                continue
            for side in ('a', 'b'):
                if 'k' in rv[side]:
                    continue
                pl = op_place(rv[side])
                if pl is None or f.local_ty(pl.l) not in ('u64', 'usize', 'u32'):
                    continue
                sx = lib.slice_back(f, [rv[side]], through_calls=True, at=(bb, i))
                fromle = [c for c in sx.calls if c.name in ('from_le_bytes', 'from_be_bytes')]
                if not fromle or any(c.name in ('min', 'clamp') for c in sx.calls):
                    continue
                n_mul += 1
                ctx.evaluations += 1
                why = None
                for cm, rel in lib.guards_holding_at(f, bb):
                    for x, y, r in ((cm.sa(), cm.sb(), rel), (cm.sb(), cm.sa(), lib.FLIP[rel])):
                        if any(c in x.calls for c in fromle) and not any(c in y.calls for c in fromle) and r in ('<=', '<', '=='):
                            why = 'bounded at line %s' % cm.line
                if why:
                    ctx.ok('MUL-C22e', f, 'product of a file-decoded integer: %s' % why, line=st.get('l'))
                else:
                    ctx.bad('MUL-C22e', f, 'an integer decoded from the file is multiplied without an overflow check or an upper bound on its path: a crafted count overflows (panic in debug; '
                            'in release the wrapped product can pass the length comparison and size an allocation)', line=st.get('l'), sink='Mul', detail='unchecked-mul-of-file-integer')
    # ---- len - loop-carried window
    ctx.rule('SUB-C22d', 'len - w with a loop-carried w: every definition of w is clamped with min() / constant, or w <= len is established')
    n_w = 0
    for f in sorted(reach.values(), key=lambda x: x.path):
        if f.r.get('derive'):
            continue
        d = lib.defs(f)
        for bb, i, st in f.stmts():
            rv = st['rv']
            if rv['k'] != 'bin' or rv['op'] not in ('Sub', 'SubWithOverflow') or 'k' in rv['b'] or 'k' in rv['a']:
                continue
            pb = op_place(rv['b'])
            if pb is None or f.local_ty(pb.l) not in ('usize', 'u64'):
                continue
            carried = [l for l in (lib.root_of(f, pb.l) | {pb.l}) if len([x for x in d.get(l, []) if not x['lhs'].p]) >= 2]
            if not carried:
                continue
            sa = lib.slice_back(f, [rv['a']], through_calls=True, at=(bb, i))
            if not ('PtrMetadata' in sa.ops or any(c.name == 'len' for c in sa.calls)):
                continue
            n_w += 1
            ctx.evaluations += 1
            raw = []
            for l in carried:
                for x in d[l]:
                    if x['kind'] == 'call':
                        if x['call'].name not in ('min', 'clamp'):
                            raw.append(x.get('line'))
                        continue
                    s2 = lib.slice_back(f, lib.rv_operands(x['rv']), through_calls=True, at=(x['bb'], x['idx']), stop_locals=(l,))
                    if any(c.name in ('min', 'clamp') for c in s2.calls) or (l not in s2.locals and not s2.calls and not s2.args):
                        continue
                    raw.append(x.get('line'))
            guarded = False
            sbl = lib.slice_back(f, [rv['b']], through_calls=True, at=(bb, i))
            for cm, rel in lib.guards_holding_at(f, bb):
                for x, y, r in ((cm.sa(), cm.sb(), rel), (cm.sb(), cm.sa(), lib.FLIP[rel])):
                    if (x.locals & sbl.locals) and ('PtrMetadata' in y.ops or any(c.name == 'len' for c in y.calls)) and r in ('<=', '<', '=='):
                        guarded = True
            if raw and not guarded:
                ctx.bad('SUB-C22d', f, 'the window subtracted from the buffer length is redefined (line %s) without a min() clamp against that length and no `window <= len` edge dominates the '
                        'subtraction: once it exceeds the file length the subtraction underflows (panic in debug, out-of-range slice in release)' % raw[0], line=st.get('l'), sink='Sub', detail='unclamped-window')
            else:
                ctx.ok('SUB-C22d', f, 'loop-carried window is clamped with min() / guarded before `len - window`', line=st.get('l'))
    ctx.floor('SUB-C22d', n_w, 1, 'len - loop-carried window subtractions (locate_footer_window)')
