"""Analysis helpers shared by the property rules: definitions, backward slices
(explicit data dependence), comparisons and guard edges, stores, error sites."""
from collections import defaultdict
from .facts import Place, Call, op_place, rv_operands, path_matches

CMP_OPS = {'Lt': '<', 'Le': '<=', 'Gt': '>', 'Ge': '>=', 'Eq': '==', 'Ne': '!='}
NEG = {'<': '>=', '<=': '>', '>': '<=', '>=': '<', '==': '!=', '!=': '=='}
FLIP = {'<': '>', '<=': '>=', '>': '<', '>=': '<=', '==': '==', '!=': '!='}
CMP_METHODS = {'eq': '==', 'ne': '!=', 'lt': '<', 'le': '<=', 'gt': '>', 'ge': '>='}


# ----------------------------------------------------------------- definitions
def defs(fn):
    """local -> list of def sites: dict(bb, idx (None for call), kind 'stmt'|'call', lhs Place, rv|call)"""
    d = getattr(fn, '_defs', None)
    if d is not None:
        return d
    d = defaultdict(list)
    live = fn.live_blocks()
    for i, b in enumerate(fn.blocks):
        if i not in live:
            continue
        for j, s in enumerate(b['s']):
            lhs = Place(s['lhs'])
            d[lhs.l].append(dict(bb=i, idx=j, kind='stmt', lhs=lhs, rv=s['rv'], line=s.get('l')))
        t = b['t']
        if t['k'] == 'call':
            lhs = Place(t['dest'])
            d[lhs.l].append(dict(bb=i, idx=None, kind='call', lhs=lhs, call=fn.call_at(i), line=t.get('l')))
    fn._defs = d
    return d


def mut_borrows(fn):
    """local r -> Place it mutably borrows (flow-insensitive): `r = &mut P`"""
    m = getattr(fn, '_mutb', None)
    if m is None:
        m = defaultdict(list)
        for bb, idx, s in fn.stmts():
            rv = s['rv']
            if rv['k'] in ('ref', 'rawptr') and rv.get('mut', rv['k'] == 'rawptr'):
                lhs = Place(s['lhs'])
                if not lhs.p:
                    m[lhs.l].append(Place(rv['p']))
        fn._mutb = m
    return m


def promoted_summary(fn, idx):
    """what a promoted constant (`&EXPR` temporary) is built from: aggregates (Adt::Variant) and constants"""
    out = dict(aggs=set(), consts=[])
    proms = fn.r.get('promoted') or []
    if idx >= len(proms):
        return out
    for b in proms[idx]:
        for s in b['s']:
            rv = s['rv']
            if rv['k'] == 'agg' and rv.get('ak') == 'adt':
                out['aggs'].add(rv['adt'] + '::' + rv['variant'])
            for o in rv_operands(rv):
                if 'k' in o:
                    out['consts'].append(o['k'])
    return out


class Slice:
    """result of a backward slice: everything a value is (explicitly) data-derived from"""

    def __init__(self):
        self.fields = set()     # (owner, field) pairs read anywhere along the slice
        self.args = set()       # argument locals reached
        self.arg_paths = set()  # (arg local, (field,…)) for direct projections off an argument
        self.consts = []        # constant dicts
        self.calls = []         # Call objects whose result feeds the value
        self.locals = set()
        self.ops = set()        # binary/unary operators applied on the way
        self.aggs = set()       # aggregate ADT names constructed on the way
        self.closures = set()
        self.truncated = False

    def has_field(self, owner, field):
        return (owner, field) in self.fields

    def field_names(self):
        return {f for _, f in self.fields}

    def callee_names(self):
        return {c.callee for c in self.calls}

    def calls_matching(self, pat):
        return [c for c in self.calls if c.is_(pat)]

    def const_vals(self):
        return [k.get('v') for k in self.consts if 'v' in k]


def _note_place(sl, fn, p):
    for o, f in p.field_owners():
        sl.fields.add((o, f))
    if 1 <= p.l <= fn.r['argc']:
        sl.args.add(p.l)
        sl.arg_paths.add((p.l, p.fields()))


def _overlap(a, b):
    n = min(len(a), len(b))
    return a[:n] == b[:n]


def _reach(fn, b):
    """blocks reachable from b by one or more edges (b itself only if it lies on a cycle)"""
    cache = getattr(fn, '_reach_cache', None)
    if cache is None:
        cache = fn._reach_cache = {}
    r = cache.get(b)
    if r is None:
        r = set()
        st = list(fn.succs(b))
        while st:
            x = st.pop()
            if x in r:
                continue
            r.add(x)
            st.extend(fn.succs(x))
        cache[b] = r
    return r


def _def_reaches(fn, dbb, didx, ubb, uidx):
    """can a definition at (dbb, didx) be live at the use (ubb, uidx)?  idx None = the block terminator"""
    if dbb == ubb:
        if didx is not None and (uidx is None or didx < uidx):
            return True
        if didx is None and uidx is None:
            return dbb in _reach(fn, dbb)
        return dbb in _reach(fn, dbb)      # around a loop
    if didx is None:
        # a call defines its destination on its return edge
        return ubb in _reach(fn, dbb)
    return ubb in _reach(fn, dbb)


def slice_back(fn, starts, through_calls=True, max_items=20000, stop_at_calls=(), at=None, stop_locals=()):
    """Backward explicit-dataflow slice, *field-sensitive* and (when `at` is given) *flow-sensitive*:
    work items are (local, field path, use position). A read of `x.a.b` depends on definitions whose
    destination overlaps `x.a.b`; with `at=(bb, idx)` only definitions that can reach the use in the CFG
    are followed (idx None = the terminator of bb). `p = &q.f` / `p = q.f` compose paths, struct aggregates
    are projected field-wise. A value returned by a call depends on all its arguments (library default)
    when through_calls; a call receiving `&mut q…` is a definition of the places it borrows (a whole-object
    `&mut self` borrow is not taken to redefine self's individual fields)."""
    sl = Slice()
    d = defs(fn)
    work = []
    seen = set()
    argc = fn.r['argc']
    flow = at is not None

    def push(l, fields, pos):
        k = (l, fields, pos if flow else None)
        if k not in seen:
            seen.add(k)
            work.append(k)

    def push_place(p, pos, suffix=()):
        _note_place(sl, fn, p)
        for e in p.p:
            if isinstance(e, dict) and 'ix' in e:
                push(e['ix'], (), pos)
        push(p.l, p.fields() + tuple(suffix), pos)

    def push_operand(o, pos, suffix=()):
        if 'k' in o:
            sl.consts.append(o['k'])
            if 'promoted' in o['k']:
                ps = promoted_summary(fn, o['k']['promoted'])
                sl.aggs |= ps['aggs']
                sl.consts.extend(ps['consts'])
            return
        p = op_place(o)
        if p is not None:
            push_place(p, pos, suffix)

    for s in starts:
        if isinstance(s, int):
            push(s, (), at)
        elif isinstance(s, Place):
            push_place(s, at)
        else:
            push_operand(s, at)
    mutdefs = _mut_arg_defs(fn)
    while work:
        l, pf, pos = work.pop()
        sl.locals.add(l)
        if l in stop_locals:
            continue
        if len(seen) > max_items:
            sl.truncated = True
            break
        if 1 <= l <= argc:
            sl.args.add(l)
        for site in d.get(l, ()):
            lf = site['lhs'].fields()
            if not _overlap(lf, pf):
                continue
            if flow and pos is not None and not _def_reaches(fn, site['bb'], site['idx'], pos[0], pos[1]):
                continue
            npos = (site['bb'], site['idx']) if flow else None
            rest = pf[len(lf):] if len(pf) > len(lf) else ()
            if site['kind'] == 'stmt':
                rv = site['rv']
                k = rv['k']
                if k in ('bin', 'un'):
                    sl.ops.add(rv['op'])
                if k in ('use', 'ref', 'rawptr'):
                    if k == 'use':
                        push_operand(rv['a'], npos, rest)
                    else:
                        push_place(Place(rv['p']), npos, rest)
                    continue
                if k == 'agg':
                    if rv.get('ak') == 'adt':
                        sl.aggs.add(rv['adt'] + '::' + rv['variant'])
                        if rest and rest[0] in rv.get('fields', ()):
                            push_operand(rv['ops'][rv['fields'].index(rest[0])], npos, rest[1:])
                            continue
                    elif rv.get('ak') == 'closure':
                        sl.closures.add(rv['def'])
                    elif rv.get('ak') == 'tuple' and rest and rest[0].isdigit() and int(rest[0]) < len(rv['ops']):
                        push_operand(rv['ops'][int(rest[0])], npos, rest[1:])
                        continue
                for o in rv_operands(rv):
                    push_operand(o, npos)
            else:
                c = site['call']
                if c not in sl.calls:
                    sl.calls.append(c)
                if through_calls and not c.is_(stop_at_calls):
                    for a in c.args:
                        push_operand(a, npos)
        for c, q in mutdefs.get(l, ()):
            qf = q.fields()
            if not _overlap(qf, pf):
                continue
            if not qf and pf and 1 <= l <= argc:
                continue   # whole-object &mut borrow of a parameter: not a redefinition of its fields
            if flow and pos is not None and not _def_reaches(fn, c.bb, None, pos[0], pos[1]):
                continue
            if c not in sl.calls:
                sl.calls.append(c)
            if through_calls and not c.is_(stop_at_calls):
                for a in c.args:
                    push_operand(a, (c.bb, None) if flow else None)
    return sl


def mut_targets(fn, local, depth=0):
    """places a `&mut` value held in `local` may point to, following moves, unsizing casts and reborrows"""
    cache = getattr(fn, '_mt_cache', None)
    if cache is None:
        cache = fn._mt_cache = {}
    if local in cache:
        return cache[local]
    cache[local] = []
    out = []
    if depth < 8:
        for s in defs(fn).get(local, ()):
            if s['kind'] != 'stmt' or s['lhs'].p:
                continue
            rv = s['rv']
            if rv['k'] in ('ref', 'rawptr') and rv.get('mut', rv['k'] == 'rawptr'):
                p = Place(rv['p'])
                out.append(p)
                if p.has_deref():
                    for t in mut_targets(fn, p.l, depth + 1):
                        q = Place({'l': t.l, 'p': list(t.p) + [e for e in p.p if isinstance(e, dict) and 'f' in e]})
                        out.append(q)
            elif rv['k'] in ('use', 'cast'):
                q = op_place(rv['a'])
                if q is not None and not q.p:
                    out += mut_targets(fn, q.l, depth + 1)
    cache[local] = out
    return out


def _mut_arg_defs(fn):
    m = getattr(fn, '_mutargdefs', None)
    if m is not None:
        return m
    m = defaultdict(list)
    for c in fn.calls():
        for a in c.args:
            p = op_place(a)
            if p is not None and not p.p:
                for target in mut_targets(fn, p.l):
                    m[target.l].append((c, target))
    fn._mutargdefs = m
    return m


# ----------------------------------------------------------------- comparisons / guards
class Cmp:
    """a two-way branch on a comparison: on edge (bb -> t_true) `a rel b` holds, on (bb -> t_false) its negation"""

    def __init__(self, fn, bb, rel, a, b, t_true, t_false, line, via):
        self.fn, self.bb, self.rel, self.a, self.b = fn, bb, rel, a, b
        self.t_true, self.t_false, self.line, self.via = t_true, t_false, line, via
        self._sa = self._sb = None

    def sa(self):
        if self._sa is None:
            self._sa = slice_back(self.fn, [self.a], at=(self.bb, None))
        return self._sa

    def sb(self):
        if self._sb is None:
            self._sb = slice_back(self.fn, [self.b], at=(self.bb, None))
        return self._sb

    def edges(self):
        """[(target block, rel holding on that edge)]"""
        return [(self.t_true, self.rel), (self.t_false, NEG[self.rel])]

    def __repr__(self):
        return 'Cmp(bb%d %s l%s)' % (self.bb, self.rel, self.line)


def comparisons(fn):
    """All branches whose condition is a comparison (primitive BinOp or PartialEq/PartialOrd call),
    looking through `!` and plain copies of the boolean."""
    cached = getattr(fn, '_cmps', None)
    if cached is not None:
        return cached
    d = defs(fn)
    out = []
    live = fn.live_blocks()
    for i, b in enumerate(fn.blocks):
        if i not in live:
            continue
        t = b['t']
        if t['k'] != 'switch':
            continue
        p = op_place(t['d'])
        if p is None or p.p:
            continue
        # a boolean switch has exactly one explicit target, value 0 (false)
        if len(t['ts']) != 1 or t['ts'][0][0] != 0:
            continue
        if fn.local_ty(p.l) != 'bool':
            continue
        t_false, t_true = t['ts'][0][1], t['o']
        neg = False
        cur = p.l
        found = None
        for _ in range(6):
            sites = d.get(cur, ())
            if len(sites) != 1:
                break
            s = sites[0]
            if s['kind'] == 'stmt':
                rv = s['rv']
                if rv['k'] == 'bin' and rv['op'] in CMP_OPS:
                    found = (CMP_OPS[rv['op']], rv['a'], rv['b'], s['line'], 'binop')
                    break
                if rv['k'] == 'un' and rv['op'] == 'Not':
                    neg = not neg
                    q = op_place(rv['a'])
                    if q is None or q.p:
                        break
                    cur = q.l
                    continue
                if rv['k'] == 'use':
                    q = op_place(rv['a'])
                    if q is None or q.p:
                        break
                    cur = q.l
                    continue
                break
            else:
                c = s['call']
                nm = c.name
                if nm in CMP_METHODS and len(c.args) == 2 and ('cmp::Partial' in (c.decl or '') or 'cmp::Partial' in c.callee):
                    found = (CMP_METHODS[nm], c.args[0], c.args[1], s['line'], 'call:' + c.callee)
                break
        if found:
            rel, a, bb_, line, via = found
            if neg:
                rel = NEG[rel]
            out.append(Cmp(fn, i, rel, a, bb_, t_true, t_false, line, via))
    fn._cmps = out
    return out


def edge_dominates(fn, src, tgt, b):
    """the CFG edge src->tgt dominates block b: tgt dominates b and tgt is entered only via src
    (other predecessors of tgt must themselves be dominated by tgt, i.e. be back edges)"""
    if not fn.dominates(tgt, b):
        return False
    for p in fn.preds(tgt):
        if p != src and not fn.dominates(tgt, p):
            return False
    return True


def guards_holding_at(fn, block):
    """[(Cmp, rel)] for every comparison one of whose edges dominates `block`"""
    out = []
    for c in comparisons(fn):
        for tgt, rel in c.edges():
            if tgt is not None and edge_dominates(fn, c.bb, tgt, block):
                out.append((c, rel))
    return out


def rel_implies(rel, wanted):
    """does `a rel b` imply `a wanted b`?"""
    imp = {'<': {'<', '<=', '!='}, '<=': {'<='}, '>': {'>', '>=', '!='}, '>=': {'>='}, '==': {'==', '<=', '>='}, '!=': {'!='}}
    return wanted in imp[rel]


def find_guard(fn, block, wanted, pred_a, pred_b):
    """Is there a comparison edge dominating `block` that establishes  A wanted B  where
    pred_a(slice) identifies A and pred_b(slice) identifies B?  Returns the Cmp or None."""
    for c, rel in guards_holding_at(fn, block):
        if pred_a(c.sa()) and pred_b(c.sb()) and rel_implies(rel, wanted):
            return c
        if pred_a(c.sb()) and pred_b(c.sa()) and rel_implies(FLIP[rel], wanted):
            return c
    return None


# ----------------------------------------------------------------- stores / mutation points
def field_stores(fn, owner=None, field=None):
    """statements whose destination path contains field (owner, field) (None = wildcard)"""
    out = []
    for bb, idx, s in fn.stmts():
        lhs = Place(s['lhs'])
        for o, f in lhs.field_owners():
            if (owner is None or o == owner) and (field is None or f == field):
                out.append(dict(bb=bb, idx=idx, lhs=lhs, rv=s['rv'], line=s.get('l')))
                break
    return out


def root_of(fn, local, depth=8):
    """follow `x = &mut P` / `x = move y` chains back to a root local; returns set of root locals"""
    d = defs(fn)
    seen = set()
    roots = set()
    st = [local]
    while st:
        l = st.pop()
        if l in seen:
            continue
        seen.add(l)
        if 1 <= l <= fn.r['argc']:
            roots.add(l)
            continue
        sites = d.get(l, ())
        adv = False
        for s in sites:
            if s['kind'] == 'stmt' and not s['lhs'].p:
                rv = s['rv']
                if rv['k'] in ('ref', 'rawptr'):
                    st.append(rv['p']['l'])
                    adv = True
                elif rv['k'] in ('use', 'cast'):
                    q = op_place(rv['a'])
                    if q is not None and not q.p:   # plain move/copy of a whole local
                        st.append(q.l)
                        adv = True
        if not adv:
            roots.add(l)
    # every local on the chain names (part of) the same object: report them all
    return roots | seen


def self_mutations(fn, self_local=1, allow_calls=()):
    """Program points that can change state reachable from `self` (arg 1 of a &mut self method):
    (a) statements storing through a place rooted at self; (b) calls that receive a `&mut`
    borrow rooted at self. Calls matching allow_calls are skipped. Returns list of
    dict(bb, line, what, fields)."""
    out = []
    mb = mut_borrows(fn)
    for bb, idx, s in fn.stmts():
        lhs = Place(s['lhs'])
        if not lhs.p:
            continue
        if '*' not in lhs.p and lhs.l != self_local:
            # plain field store into a by-value local: not a store through self
            if self_local not in root_of(fn, lhs.l) or not lhs.has_deref():
                continue
        if self_local in root_of(fn, lhs.l):
            out.append(dict(bb=bb, line=s.get('l'), what='store %r' % lhs, fields=lhs.field_owners(), kind='store'))
    for c in fn.calls():
        for a in c.args:
            p = op_place(a)
            if p is None or p.p:
                continue
            if p.l in mb and any(self_local in root_of(fn, t.l) for t in mb[p.l]):
                if c.is_(allow_calls):
                    continue
                flds = tuple(fo for t in mb[p.l] for fo in t.field_owners())
                out.append(dict(bb=c.bb, line=c.line, what='call %s(&mut self…)' % c.callee, fields=flds, kind='call', call=c))
                break
    return out


# ----------------------------------------------------------------- error sites
def enum_constructions(fn, adt, variant=None):
    out = []
    for bb, idx, s in fn.stmts():
        rv = s['rv']
        if rv['k'] == 'agg' and rv.get('ak') == 'adt' and rv['adt'] == adt and (variant is None or rv['variant'] == variant):
            out.append(dict(bb=bb, idx=idx, line=s.get('l'), variant=rv['variant'], rv=rv, lhs=Place(s['lhs'])))
    return out


def can_reach(fn, a, b):
    """block b reachable from block a (a == b counts)"""
    return b in fn.reachable(a)


def call_success_dominates(fn, call, block):
    """the success edge of fallible `call` dominates `block`"""
    sb, how = fn.success_block(call)
    if sb is None:
        return False
    if how == 'infallible':
        return fn.dominates(sb, block) and (call.bb != block)
    return fn.dominates(sb, block)


def ordered_on_all_ok_paths(fn, steps):
    """steps: list of Call objects; True if success(steps[i]) dominates steps[i+1].bb and the last
    step's success dominates every Ok exit. Returns (ok, reason)."""
    for a, b in zip(steps, steps[1:]):
        if not call_success_dominates(fn, a, b.bb):
            return False, '%s does not succeed-before %s' % (a.callee, b.callee)
    last = steps[-1]
    for ex in fn.ok_exits():
        if ex.get('call') is last:
            continue
        if not call_success_dominates(fn, last, ex['bb']):
            return False, 'Ok exit at line %s not dominated by success of %s' % (ex.get('line'), last.callee)
    return True, ''


# ----------------------------------------------------------------- branches
def bool_switches(fn):
    """two-way branches on a bool local: dict(bb, local, t_true, t_false, line)"""
    out = []
    live = fn.live_blocks()
    for i, b in enumerate(fn.blocks):
        if i not in live:
            continue
        t = b['t']
        if t['k'] != 'switch' or len(t['ts']) != 1 or t['ts'][0][0] != 0:
            continue
        p = op_place(t['d'])
        if p is None or p.p or fn.local_ty(p.l) != 'bool':
            continue
        out.append(dict(bb=i, local=p.l, t_false=t['ts'][0][1], t_true=t['o'], line=t.get('l')))
    return out


def variant_switches(fn):
    """multi-way branches on an enum discriminant: dict(bb, place, enum, arms{variant: bb}, otherwise, line)"""
    out = []
    d = defs(fn)
    live = fn.live_blocks()
    for i, b in enumerate(fn.blocks):
        if i not in live:
            continue
        t = b['t']
        if t['k'] != 'switch':
            continue
        p = op_place(t['d'])
        if p is None or p.p:
            continue
        sites = [s for s in d.get(p.l, ()) if s['kind'] == 'stmt' and s['rv']['k'] == 'discr']
        if len(sites) != 1:
            continue
        rv = sites[0]['rv']
        names = {v: n for v, n in rv.get('variants', [])}
        arms = {names.get(v, str(v)): tb for v, tb in t['ts']}
        # the `otherwise` arm stands for the variants not listed
        rest = [n for v, n in rv.get('variants', []) if n not in arms]
        other = t['o']
        if len(rest) == 1 and fn.blocks[other]['t']['k'] != 'unreachable':
            arms[rest[0]] = other
        out.append(dict(bb=i, place=Place(rv['p']), enum=rv.get('enum'), arms=arms, otherwise=other, rest=rest, line=t.get('l')))
    return out


def reachable_without_edges(fn, target, cut, start=0):
    """is block `target` reachable from `start` when the CFG edges in `cut` {(src,dst)} are removed"""
    seen = set()
    st = [start]
    while st:
        b = st.pop()
        if b in seen:
            continue
        seen.add(b)
        if b == target:
            return True
        for s in fn.succs(b):
            if (b, s) not in cut:
                st.append(s)
    return False


def arg_locals_of_type(fn, needle):
    return [i for i in range(1, fn.r['argc'] + 1) if needle in fn.local_ty(i)]


def ret_operands(fn, ok_only=True):
    """operands from which the function's return value is built (Ok/Some payloads, or direct call results)"""
    ops = []
    for ex in (fn.ok_exits() if ok_only else fn.ret_assignments()):
        if 'call' in ex:
            ops += ex['call'].args
        elif ex['kind'] == 'ok':
            ops += ex['rv']['ops']
        else:
            ops += rv_operands(ex['rv'])
    return ops


def reachable_fns(F, roots, through_closures=True):
    """local functions reachable from `roots` over resolved local call edges (+ closures created inside)"""
    seen = {}
    st = list(roots)
    while st:
        f = st.pop()
        if f.path in seen:
            continue
        seen[f.path] = f
        for c in f.calls():
            lc = c.local_callee
            if lc and lc in F.fns and lc not in seen:
                st.append(F.fns[lc])
            elif not lc and c.t.get('trait') and c.t.get('decl_local'):
                # unresolved local trait method: every local impl of that method
                for g in F.by_name.get(c.name, ()):
                    if g.r.get('impl_trait') == c.t['trait'] and g.path not in seen:
                        st.append(g)
        if through_closures:
            for cl in F.closures_of(f):
                if cl.path not in seen:
                    st.append(cl)
    return seen


def api_roots(F, impl_self_suffix='::Memvid'):
    return [f for f in F.fns.values() if f.r.get('exported') and f.r.get('pub') and f.r.get('impl_self', '').endswith(impl_self_suffix)]


# ----------------------------------------------------------------- tiny constant evaluator
import re as _re
_ARR = _re.compile(r'\[[^;\]]+; (\d+)\]')


def const_eval(fn, op, at=None, depth=0):
    """integer value of an operand/Place if it is a compile-time constant expression of the function body
    (constants, + - * on constants, casts, `.len()` of a fixed-size array, checked-arithmetic tuples); else None"""
    if depth > 24:
        return None
    if isinstance(op, dict) and 'k' in op:
        v = op['k'].get('v')
        return v if isinstance(v, int) and not isinstance(v, bool) else None
    p = op if isinstance(op, Place) else op_place(op)
    if p is None:
        return None
    d = defs(fn)
    pf = p.fields()
    sites = [s for s in d.get(p.l, ()) if _overlap(s['lhs'].fields(), pf) and
             (at is None or _def_reaches(fn, s['bb'], s['idx'], at[0], at[1]))]
    if len(sites) != 1:
        return None
    s = sites[0]
    pos = (s['bb'], s['idx'])
    if s['kind'] == 'call':
        c = s['call']
        if c.name == 'len' and c.args:
            return _array_len(fn, c.args[0], pos, 0)
        if c.name in ('min', 'max') and len(c.args) == 2:
            a, b = const_eval(fn, c.args[0], pos, depth + 1), const_eval(fn, c.args[1], pos, depth + 1)
            if a is not None and b is not None:
                return min(a, b) if c.name == 'min' else max(a, b)
        return None
    rv = s['rv']
    k = rv['k']
    if k == 'use':
        return const_eval(fn, rv['a'], pos, depth + 1)
    if k == 'cast':
        return const_eval(fn, rv['a'], pos, depth + 1)
    if k == 'bin':
        a, b = const_eval(fn, rv['a'], pos, depth + 1), const_eval(fn, rv['b'], pos, depth + 1)
        if a is None or b is None:
            return None
        opn = rv['op'].replace('WithOverflow', '').replace('Unchecked', '')
        try:
            return {'Add': a + b, 'Sub': a - b, 'Mul': a * b, 'Div': a // b if b else None, 'Shl': a << b, 'Shr': a >> b,
                    'BitOr': a | b, 'BitAnd': a & b}.get(opn)
        except Exception:
            return None
    if k == 'un' and rv['op'] == 'PtrMetadata':
        return _array_len(fn, rv['a'], pos, 0)
    return None


def _array_len(fn, op, at, depth):
    if depth > 10:
        return None
    p = op_place(op)
    if p is None:
        if 'k' in op:
            m = _ARR.search(op['k'].get('ty', ''))
            return int(m.group(1)) if m else None
        return None
    if not p.p or p.p == ['*']:
        m = _ARR.search(fn.local_ty(p.l))
        if m and 'Vec<' not in fn.local_ty(p.l):
            return int(m.group(1))
    d = defs(fn)
    sites = [s for s in d.get(p.l, ()) if s['kind'] == 'stmt' and not s['lhs'].p and _def_reaches(fn, s['bb'], s['idx'], at[0], at[1])]
    if len(sites) != 1:
        return None
    rv = sites[0]['rv']
    pos = (sites[0]['bb'], sites[0]['idx'])
    if rv['k'] in ('use', 'cast'):
        return _array_len(fn, rv['a'], pos, depth + 1)
    if rv['k'] in ('ref', 'rawptr'):
        q = Place(rv['p'])
        if not q.fields():
            m = _ARR.search(fn.local_ty(q.l))
            if m and 'Vec<' not in fn.local_ty(q.l):
                return int(m.group(1))
            return _array_len(fn, {'c': rv['p']}, pos, depth + 1)
    return None


# ----------------------------------------------------------------- wrappers (Min et al.: a wrapper "is" the operation)
def wrappers_of(F, base_keys, max_rounds=4):
    """paths of local functions that *are* the base operation for their callers: every Ok exit is the result of, or is
    dominated by the success edge of, a call to a base function or to another wrapper (fixpoint). Returns {path: depth}."""
    cache = getattr(F, '_wrappers', None)
    if cache is None:
        cache = F._wrappers = {}
    ck = tuple(base_keys)
    if ck in cache:
        return cache[ck]
    base = {f.path for k in base_keys for f in ([F.fn(k)] if F.fn(k) is not None else [])}
    wr = {}
    for rnd in range(max_rounds):
        added = False
        for f in F.fns.values():
            if f.path in wr or f.path in base or f.is_closure or not f.returns_result():
                continue
            calls = [c for c in f.calls() if c.local_callee in base or c.local_callee in wr]
            if not calls:
                continue
            exits = f.ok_exits()
            if exits and all(ex.get('call') in calls or any(call_success_dominates(f, c, ex['bb']) for c in calls) for ex in exits):
                wr[f.path] = rnd + 1
                added = True
        if not added:
            break
    cache[ck] = wr
    return wr


def op_calls(F, fn, base_keys, max_wrapper_depth=1):
    """calls in fn to a base function or to a *thin* wrapper of it (wrapper depth <= max_wrapper_depth)"""
    wr = wrappers_of(F, base_keys)
    base = {f.path for k in base_keys for f in ([F.fn(k)] if F.fn(k) is not None else [])}
    return [c for c in fn.calls() if c.local_callee in base or wr.get(c.local_callee, 99) <= max_wrapper_depth]


def variant_test_edges(fn, owner, field, enum, variant):
    """CFG edges on which `<owner>.<field> == <enum>::<variant>` is known to hold, whatever the syntax: an `==`/`!=`
    comparison with the variant constant, or a match / matches! on the field's discriminant. Returns [(src, tgt, line)]."""
    out = []
    want = '%s::%s' % (enum, variant)
    for c in comparisons(fn):
        a, b = c.sa(), c.sb()
        if (a.has_field(owner, field) and want in b.aggs) or (b.has_field(owner, field) and want in a.aggs):
            for tgt, rel in c.edges():
                if rel == '==' and tgt is not None:
                    out.append((c.bb, tgt, c.line))
    for vs in variant_switches(fn):
        if vs.get('enum') == enum and variant in vs['arms'] and vs['place'].field_owners() and vs['place'].field_owners()[-1] == (owner, field):
            out.append((vs['bb'], vs['arms'][variant], vs['line']))
            # matches!(x, V): the arm stores `true`, every other arm `false`, and a later branch tests that flag
            flags = {}
            for arm_name, tb in list(vs['arms'].items()) + [('*', vs['otherwise'])]:
                if tb is None:
                    continue
                for st in fn.blocks[tb]['s']:
                    rv = st['rv']
                    if rv['k'] == 'use' and 'k' in rv['a'] and isinstance(rv['a']['k'].get('v'), bool) and not st['lhs'].get('p'):
                        flags.setdefault(st['lhs']['l'], {})[arm_name] = rv['a']['k']['v']
            for t, vals in flags.items():
                if vals.get(variant) is True and all(v is False for k, v in vals.items() if k != variant) and len(vals) >= 2:
                    for bs in bool_switches(fn):
                        if bs['local'] == t or t in root_of(fn, bs['local']):
                            out.append((bs['bb'], bs['t_true'], vs['line']))
    return out


def holds_variant_at(fn, block, owner, field, enum, variant):
    return [e for e in variant_test_edges(fn, owner, field, enum, variant) if edge_dominates(fn, e[0], e[1], block)]
