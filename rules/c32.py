"""C32 — query language is total and means what it says.

Decided:
  REC-C32a    every cycle of the call graph among the functions reachable from parse_query (the recursive-descent
              parser) is broken by a depth guard: a call edge counts as guarded when it is dominated by the success of
              a function (or an inline comparison) that tests a counter field against a constant, rejects with
              InvalidQuery on the failing edge and increments that counter. After removing guarded edges no cycle
              may remain.
  LADDER-C32b precedence is call layering: the function that consumes TokenKind::Or calls the one that consumes
              TokenKind::And, which calls the one that consumes TokenKind::Not, and never the reverse order.
  TABLE-C32c  Expr::evaluate: Or -> Iterator::any, And -> Iterator::all, Not -> logical negation of the child,
              Term -> delegation to Term::evaluate.
  REC-C32d    the depth of the expression tree is bounded like the parser's own recursion: every consumer of Expr
              (evaluate, token collection, the Tantivy query builder, Drop) recurses once per level. A loop that wraps
              an expression into a recursive variant of Expr around *its own previous value* (e = Expr::Not(Box(e)))
              grows the depth with the input without passing the depth guard, so it must not exist in the parser
              unless the depth guard succeeds on every iteration.
  PANIC-C32e  no explicit panic is reachable from parse_query on input-derived data: a call of Result/Option
              `unwrap`/`expect` whose receiver derives from a parameter, a field or a captured variable (anything
              but constants), or a `panic!`/`unreachable!`/`assert!`-family macro, in a function reachable from
              parse_query. A receiver computed from constants only (`Regex::new("^$").unwrap()`) is accepted: it does
              not depend on the query. Compiler-inserted checks (bounds, overflow) are values, not decided.
Not decided: substring/phrase matching semantics of terms (values)."""
from . import lib
from .facts import Place, op_place


def run(ctx):
    ctx.rule('REC-C32a', 'every recursion cycle reachable from parse_query is cut by a depth guard (counter vs constant, InvalidQuery on failure)')
    ctx.rule('LADDER-C32b', 'Or-consumer calls And-consumer calls Not-consumer (precedence ladder)')
    ctx.rule('TABLE-C32c', 'Expr::evaluate: Or=any, And=all, Not=negation, Term=delegate')
    F = ctx.facts()
    pq = ctx.need('REC-C32a', 'search::parser::parse_query')
    if pq is not None:
        reach = lib.reachable_fns(F, [pq])
        ctx.evaluations += len(reach)
        for f in reach.values():
            ctx.fns_seen.add(f.path)
        # guard functions
        guards = set()
        for f in reach.values():
            for c in lib.comparisons(f):
                a, b = c.sa(), c.sb()
                for x, y in ((a, b), (b, a)):
                    flds = {(o, fl) for o, fl in x.fields if o}
                    if len(flds) == 1 and y.const_vals() and not y.fields and not y.args:
                        (o, fl), = flds
                        errs = lib.enum_constructions(f, 'MemvidError', 'InvalidQuery')
                        rej = any(any(f.dominates(t, e['bb']) for e in errs) for t, rel in c.edges())
                        inc = any({'Add', 'AddWithOverflow'} & lib.slice_back(f, lib.rv_operands(s['rv']), through_calls=True).ops for s in lib.field_stores(f, o, fl))
                        if rej and inc:
                            guards.add(f.path)
        # graph
        edges = {}
        for f in reach.values():
            for c in f.calls():
                lc = c.local_callee
                if lc in reach:
                    gcalls = [g for g in f.calls() if g.local_callee in guards]
                    guarded = any(lib.call_success_dominates(f, g, c.bb) for g in gcalls) or f.path in guards and False
                    edges.setdefault(f.path, []).append((lc, guarded, c))
        # cycles in the unguarded subgraph
        color = {}
        cycle = []

        def dfs(u, stack):
            color[u] = 1
            for v, guarded, c in edges.get(u, ()):
                if guarded:
                    continue
                if color.get(v) == 1:
                    cycle.append(stack + [(u, v, c)])
                    return True
                if color.get(v) is None and dfs(v, stack + [(u, v, c)]):
                    return True
            color[u] = 2
            return False
        has_rec = False
        # is there any recursion at all (guarded or not)?
        col2 = {}

        def dfs2(u):
            col2[u] = 1
            for v, g, c in edges.get(u, ()):
                if col2.get(v) == 1:
                    return True
                if col2.get(v) is None and dfs2(v):
                    return True
            col2[u] = 2
            return False
        for p in reach:
            if col2.get(p) is None and dfs2(p):
                has_rec = True
        if not has_rec:
            ctx.lost('REC-C32a', 'no recursion found in the parser (the grammar is recursive: anchors lost)')
        found = False
        for p in sorted(reach):
            if color.get(p) is None and dfs(p, []):
                found = True
                break
        if found:
            cyc = cycle[0]
            names = ' -> '.join(F.fns[u].key.split('::')[-1] for u, v, c in cyc) + ' -> ' + F.fns[cyc[-1][1]].key.split('::')[-1]
            fn = F.fns[cyc[-1][0]]
            ctx.bad('REC-C32a', fn, 'unbounded recursion: the cycle %s has no depth guard, so deeply nested input (e.g. thousands of parentheses) exhausts the stack instead of returning InvalidQuery'
                    % names, line=cyc[-1][2].line, sink='stack', detail='unguarded-cycle:' + '>'.join(sorted({F.fns[u].key.split('::')[-1] for u, v, c in cyc})))
        elif has_rec:
            ctx.ok('REC-C32a', pq, 'every recursion cycle of the parser passes a depth guard (%s)' % ', '.join(sorted(F.fns[g].key.split('::')[-1] for g in guards)))
    # ---- explicit panics on input-derived data
    ctx.rule('PANIC-C32e', 'no unwrap/expect on an input-derived Result/Option and no panic-family macro in the functions reachable from parse_query')
    if pq is not None:
        from .c22 import ASSERT_MACROS
        n_sites = 0
        n_fn = 0
        reported = set()
        for f in list(reach.values()):
            for body in [f] + F.closures_of(f):
                n_fn += 1
                for c in body.calls():
                    macs = [m.split('::')[-1].rstrip('!') for m in (c.t.get('mac') or c.t.get('macros') or [])]
                    am = [m for m in macs if m in ASSERT_MACROS]
                    what = None
                    if am:
                        what = am[-1] + '!'
                    elif c.name in ('unwrap', 'expect') and c.args and ('Result' in c.callee or 'Option' in c.callee):
                        n_sites += 1
                        sl = lib.slice_back(body, c.args[0:1], through_calls=True, at=(c.bb, None))
                        if sl.args or sl.fields or sl.truncated:
                            what = c.name
                    if what is None:
                        continue
                    ctx.evaluations += 1
                    key = (f.key, what)
                    if key in reported:
                        continue
                    reported.add(key)
                    ctx.bad('PANIC-C32e', body, '%s on a value derived from the query text is reachable from parse_query: an input that makes it fail (e.g. a wildcard term whose compiled '
                            'regex exceeds the size limit) panics instead of returning InvalidQuery' % what, line=c.line, sink='panic', detail='panic-on-input:%s:%s' % (f.key.split('::')[-1], what))
        ctx.floor('PANIC-C32e', n_fn, 15, 'functions and closures reachable from parse_query')
        if not reported:
            ctx.ok('PANIC-C32e', pq, 'no input-derived unwrap/expect and no panic-family macro in %d functions/closures reachable from parse_query (%d constant-only unwrap/expect sites accepted)' % (n_fn, n_sites))
    # ---- tree depth
    ctx.rule('REC-C32d', 'no loop wraps an Expr into a recursive Expr variant around its own previous value without the depth guard')
    if pq is not None:
        from . import monotone
        rec_variants = set()
        ex = F.adt('Expr') if hasattr(F, 'adt') else None
        for a in F.adts_by_name.get('Expr', []):
            if 'search::parser' in a['path'] or a['path'].endswith('parser::Expr'):
                ex = a
        if ex is None:
            ctx.lost('REC-C32d', 'Expr type not found')
        else:
            for v in ex['variants']:
                if any('Expr' in f['ty'] for f in v['fields']):
                    rec_variants.add(v['name'])
            n_ctor = 0
            for f in reach.values():
                loops = None
                for bb, i, st in f.stmts():
                    rv = st['rv']
                    if not (rv['k'] == 'agg' and rv.get('adt') == 'Expr' and rv.get('variant') in rec_variants):
                        continue
                    n_ctor += 1
                    ctx.evaluations += 1
                    if loops is None:
                        loops = monotone.natural_loops(f)
                    inl = [b for h, b in loops.items() if bb in b]
                    if not inl:
                        continue
                    body = min(inl, key=len)
                    # does the wrapped operand derive from the value this aggregate is (eventually) assigned to?
                    sl = lib.slice_back(f, rv['ops'], through_calls=True, at=(bb, i))
                    tgt = {st['lhs']['l']}
                    changed = True
                    while changed:
                        changed = False
                        for b2, i2, s2 in f.stmts():
                            if b2 in body and s2['rv']['k'] == 'use' and not s2['lhs'].get('p'):
                                q = op_place(s2['rv']['a'])
                                if q is not None and q.l in tgt and s2['lhs']['l'] not in tgt:
                                    tgt.add(s2['lhs']['l'])
                                    changed = True
                    self_wrap = bool(sl.locals & tgt)
                    guarded = any(g.local_callee in guards and g.bb in body and lib.call_success_dominates(f, g, bb) for g in f.calls())
                    # flattening idiom: `e = match e { V(mut list) => { list.push(x); V(list) } _ => V(vec![e, x]) }` - the re-wrap in arm V
                    # keeps the depth, the wrap in the other arm happens at most once (afterwards e is a V): depth + 1, not + n
                    for vs in lib.variant_switches(f):
                        if vs.get('enum') == 'Expr' and rv['variant'] in vs['arms'] and vs['bb'] in body and \
                                ((lib.root_of(f, vs['place'].l) | {vs['place'].l}) & tgt or lib.slice_back(f, [{'c': {'l': vs['place'].l, 'p': []}}], through_calls=False, at=(vs['bb'], None)).locals & tgt):
                            if any(lib.edge_dominates(f, vs['bb'], t, bb) for t in list(vs['arms'].values()) + [vs['otherwise']] if t is not None):
                                guarded = True
                    if self_wrap and not guarded:
                        ctx.bad('REC-C32d', f, 'Expr::%s is wrapped around its own previous value inside a loop that does not pass the depth guard: the tree depth grows with the input '
                                'and every recursive consumer of Expr (evaluate, token collection, Drop) can exhaust the stack' % rv['variant'], line=st.get('l'), sink='Expr::' + rv['variant'], detail='unbounded-tree-depth:' + rv['variant'])
            ctx.floor('REC-C32d', n_ctor, 3, 'constructions of recursive Expr variants in the parser')
            if not any(i['rule'] == 'REC-C32d' and i['verdict'] == 'VIOLATION' and i.get('config', 'default') == ctx.config for i in ctx.instances):
                ctx.ok('REC-C32d', pq, 'no loop-carried self-wrapping of Expr (%d recursive constructions: %s)' % (n_ctor, ', '.join(sorted(rec_variants))))
    # ---- ladder
    consumers = {}
    for f in F.fns.values():
        if not f.r.get('impl_self', '').endswith('::Parser') or f.is_closure:
            continue
        for c in f.calls():
            if c.name in ('match_token',):
                sl = lib.slice_back(f, c.args[1:2], through_calls=False, at=(c.bb, None))
                for a in sl.aggs:
                    if a.startswith('TokenKind::'):
                        consumers.setdefault(a.split('::')[1], set()).add(f.path)
    ctx.evaluations += len(consumers)
    ok = all(k in consumers and len(consumers[k]) == 1 for k in ('Or', 'And', 'Not'))
    if not ok:
        ctx.lost('LADDER-C32b', 'consumers of TokenKind::Or/And/Not not uniquely identified: %s' % {k: sorted(v) for k, v in consumers.items()})
    else:
        fo, fa, fnn = (F.fns[list(consumers[k])[0]] for k in ('Or', 'And', 'Not'))

        def calls(a, b):
            return any(c.local_callee == b.path for c in a.calls())
        good = calls(fo, fa) and calls(fa, fnn) and not calls(fa, fo) and not calls(fnn, fa) and not calls(fnn, fo) and fo is not fa and fa is not fnn
        if good:
            ctx.ok('LADDER-C32b', fo, 'precedence ladder: %s (OR) -> %s (AND) -> %s (NOT)' % (fo.name, fa.name, fnn.name))
        else:
            ctx.bad('LADDER-C32b', fo, 'precedence layering broken: OR consumer %s, AND consumer %s, NOT consumer %s do not call each other in that order' % (fo.name, fa.name, fnn.name),
                    detail='precedence-ladder')
    # ---- table
    ev = ctx.need('TABLE-C32c', 'Expr::evaluate')
    if ev is not None:
        ctx.touch(ev, len(ev.blocks))
        sw = [vs for vs in lib.variant_switches(ev) if vs['enum'] == 'Expr']
        if not sw:
            ctx.lost('TABLE-C32c', 'Expr::evaluate: match on self not found')
        else:
            arms = sw[0]['arms']
            want = {'Or': 'any', 'And': 'all'}
            for v, meth in want.items():
                arm = arms.get(v)
                cs = [c for c in ev.calls() if arm is not None and ev.dominates(arm, c.bb)]
                names = {c.name for c in cs}
                ctx.evaluations += 1
                other = 'all' if meth == 'any' else 'any'
                if meth in names and other not in names:
                    ctx.ok('TABLE-C32c', ev, 'Expr::%s evaluates with Iterator::%s' % (v, meth))
                else:
                    ctx.bad('TABLE-C32c', ev, 'Expr::%s does not evaluate with Iterator::%s (calls %s)' % (v, meth, sorted(names)), detail='evaluate-arm:' + v)
            arm = arms.get('Not')
            neg = False
            rec = False
            for i, b in enumerate(ev.blocks):
                if arm is not None and ev.dominates(arm, i):
                    for s in b['s']:
                        if s['rv']['k'] == 'un' and s['rv']['op'] == 'Not':
                            neg = True
                    t = b['t']
                    if t['k'] == 'call' and (t.get('res') or '').endswith('evaluate'):
                        rec = True
            if neg and rec:
                ctx.ok('TABLE-C32c', ev, 'Expr::Not negates the child\'s evaluation')
            else:
                ctx.bad('TABLE-C32c', ev, 'Expr::Not is not the negation of its child (negation: %s, recursion: %s)' % (neg, rec), detail='evaluate-arm:Not')
            arm = arms.get('Term')
            cs = [c for c in ev.calls() if arm is not None and ev.dominates(arm, c.bb)]
            if any(c.is_('Term::evaluate') for c in cs):
                ctx.ok('TABLE-C32c', ev, 'Expr::Term delegates to Term::evaluate')
            else:
                ctx.bad('TABLE-C32c', ev, 'Expr::Term does not delegate to Term::evaluate', detail='evaluate-arm:Term')
        # closures of any/all recurse into evaluate
        for cl in F.closures_of(ev):
            if not any((c.callee or '').endswith('evaluate') for c in cl.calls()):
                ctx.bad('TABLE-C32c', cl, 'child predicate does not evaluate the child expression', detail='child-predicate')
