"""C13 — vector search returns the exact nearest neighbours (dimension guard + exact-arm shape).

Decided:
  GUARD-C13a  both vector entry points (search_vec, vec_search_with_embedding_acl) reach VecIndex::search only past
              the dimension comparison (query.len() == index dimension, or no dimension known), whose failing edge
              returns VecDimensionMismatch — sibling agreement: the same guard in both.
  SHAPE-C13b  the exact (Uncompressed) arm of VecIndex::search scores *every* document (map over documents.iter()),
              orders by distance with an ascending comparator (a vs b, not reversed) and truncates after sorting;
              an unrecognised ordering mechanism fails closed.
  COVER-C13c  the distance kernel behind the exact search (simd::l2_distance_squared_simd, lane-blocked) visits every
              element exactly once: the block count is len / L, the remainder count len % L, block i reads the L
              indices i*L + 0..L-1 of both operands, and the scalar tail starts at chunks*L - with one and the same
              constant L (the lane width of the vector type). A kernel written with chunks_exact/remainder gets the
              partition from the library and is accepted; any other shape fails closed.
Not decided: float semantics of the distance and of partial_cmp (NaN), equality of results after reopen."""
import re
from . import lib
from .facts import op_place

ENTRIES = ('Memvid::search_vec', 'Memvid::vec_search_with_embedding_acl')


def kernel_partition(ctx, F):
    ctx.rule('COVER-C13c', 'lane-blocked distance kernel partitions the index range: len/L blocks of L, tail from chunks*L, len%L tail elements, one L')
    fn = F.fn('simd::l2_distance_squared_simd')
    if fn is None:
        ctx.lost('COVER-C13c', 'simd::l2_distance_squared_simd not found')
        return
    ctx.touch(fn, len(fn.blocks))
    if not any('f32x' in fn.local_ty(l) for l in range(len(fn.r['locals']))):
        ctx.ok('COVER-C13c', fn, 'scalar kernel (no lane blocking in this configuration)')
        return
    names = {c.name for c in fn.calls()}
    if 'chunks_exact' in names and 'remainder' in names:
        ctx.ok('COVER-C13c', fn, 'blocks and tail come from chunks_exact()/remainder(): the library partitions the slice')
        return
    lanes = {int(m) for l in range(len(fn.r['locals'])) for m in re.findall(r'f32x(\d+)', fn.local_ty(l))}
    div, rem, mul = set(), set(), []
    for bb, i, st in fn.stmts():
        rv = st['rv']
        if rv['k'] != 'bin':
            continue
        k = rv['b'].get('k', {}).get('v') if 'k' in rv['b'] else None
        if rv['op'] == 'Div' and k is not None:
            div.add(k)
        elif rv['op'] == 'Rem' and k is not None:
            rem.add(k)
        elif rv['op'] in ('Mul', 'MulWithOverflow') and k is not None:
            mul.append((k, bb, i, st))
    ctx.evaluations += len(mul) + len(div) + len(rem)
    if len(lanes) != 1 or len(div) != 1 or len(rem) != 1:
        ctx.lost('COVER-C13c', 'kernel shape not recognised: lane widths %s, len/ constants %s, len%% constants %s' % (sorted(lanes), sorted(div), sorted(rem)))
        return
    L = lanes.pop()
    problems = []
    if div != {L}:
        problems.append('block count divides by %s, lanes are %d' % (sorted(div), L))
    if rem != {L}:
        problems.append('remainder is taken modulo %s, lanes are %d' % (sorted(rem), L))
    # the chunk count and remainder locals
    chunks = {st['lhs']['l'] for bb, i, st in fn.stmts() if st['rv']['k'] == 'bin' and st['rv']['op'] == 'Div'}
    block_mul = tail_mul = None
    for k, bb, i, st in mul:
        sl = lib.slice_back(fn, [st['rv']['a']], through_calls=False, at=(bb, i))
        if sl.locals & chunks and not any(c.name == 'next' for c in sl.calls):
            tail_mul = (k, st)
        else:
            block_mul = (k, st)
    if block_mul is None or block_mul[0] != L:
        problems.append('block offset is not i * %d' % L)
    if tail_mul is None:
        problems.append('the scalar tail does not start at chunks * %d (no such product reaches the tail indices)' % L)
    elif tail_mul[0] != L:
        problems.append('the scalar tail starts at chunks * %d, lanes are %d' % (tail_mul[0], L))
    # every lane offset 0..L-1 is read from both operands in the block loop
    offs = set()
    for bb, i, st in fn.stmts():
        rv = st['rv']
        if rv['k'] == 'bin' and rv['op'] in ('Add', 'AddWithOverflow') and 'k' in rv['b'] and isinstance(rv['b']['k'].get('v'), int):
            offs.add(rv['b']['k']['v'])
    if not set(range(1, L)) <= offs:
        problems.append('block loads do not cover the lane offsets 0..%d' % (L - 1))
    if problems:
        ctx.bad('COVER-C13c', fn, 'the lane-blocked kernel does not visit every element exactly once: ' + '; '.join(problems), detail='kernel-partition:' + ';'.join(p.split(' ')[0] + p.split(' ')[1] for p in problems))
    else:
        ctx.ok('COVER-C13c', fn, 'len/%d blocks of %d lanes (offsets 0..%d), tail of len%%%d elements from chunks*%d' % (L, L, L - 1, L, L))


def run(ctx):
    kernel_partition(ctx, ctx.facts())
    ctx.rule('GUARD-C13a', 'VecIndex::search reachable only past the query-dimension comparison; failing edge -> VecDimensionMismatch')
    ctx.rule('SHAPE-C13b', 'exact arm: score all documents, sort ascending by distance, then truncate(limit)')
    F = ctx.facts()
    for key in ENTRIES:
        fn = ctx.need('GUARD-C13a', key)
        if fn is None:
            continue
        ctx.touch(fn, len(fn.blocks))
        vs = fn.calls_to('VecIndex::search')
        if not vs:
            ctx.lost('GUARD-C13a', '%s no longer calls VecIndex::search' % key)
            continue
        qarg = [i for i in range(1, fn.r['argc'] + 1) if fn.local_ty(i) == '&[f32]']
        cut = set()
        dimcmp = None
        for c in lib.comparisons(fn):
            a, b = c.sa(), c.sb()
            for x, y in ((a, b), (b, a)):
                is_q = bool(qarg) and qarg[0] in x.args and ('PtrMetadata' in x.ops or any(cc.name == 'len' for cc in x.calls))
                is_dim = bool(y.calls_matching('Memvid::effective_vec_index_dimension')) or y.has_field('VecIndexManifest', 'dimension') or \
                    any(cc.name in ('entries', 'embedding_dimension') for cc in y.calls)
                if is_q and is_dim:
                    dimcmp = c
                    for tgt, rel in c.edges():
                        if rel == '==':
                            cut.add((c.bb, tgt))
            # `expected_dim > 0` false edge: no dimension known yet
            for x, y in ((a, b), (b, a)):
                if (x.calls_matching('Memvid::effective_vec_index_dimension') or any(cc.name == 'entries' for cc in x.calls)) and 0 in y.const_vals() and not y.fields and not y.args:
                    for tgt, rel in c.edges():
                        if rel in ('<=', '=='):
                            cut.add((c.bb, tgt))
        ctx.evaluations += len(vs) + 1
        if dimcmp is None:
            ctx.bad('GUARD-C13a', fn, 'no comparison of the query length with the index dimension', line=vs[0].line, detail='no-dimension-guard')
            continue
        for v in vs:
            if lib.reachable_without_edges(fn, v.bb, cut):
                ctx.bad('GUARD-C13a', fn, 'VecIndex::search is reachable without passing the dimension comparison', line=v.line, detail='dimension-guard-bypass')
            else:
                ctx.ok('GUARD-C13a', fn, 'VecIndex::search only past query.len() == dimension (or no dimension known); guard at line %s' % dimcmp.line, line=v.line)
        errs = lib.enum_constructions(fn, 'MemvidError', 'VecDimensionMismatch')
        rej = [t for t, rel in dimcmp.edges() if rel == '!=']
        if errs and rej and any(fn.dominates(rej[0], e['bb']) or lib.can_reach(fn, rej[0], e['bb']) for e in errs):
            ctx.ok('GUARD-C13a', fn, 'mismatch edge returns VecDimensionMismatch', line=errs[0]['line'])
        else:
            ctx.bad('GUARD-C13a', fn, 'a dimension mismatch is not rejected with VecDimensionMismatch', line=dimcmp.line, detail='mismatch-not-rejected')
    # ---- b
    fn = ctx.need('SHAPE-C13b', 'VecIndex::search')
    if fn is None:
        return
    ctx.touch(fn, len(fn.blocks))
    arms = [vs for vs in lib.variant_switches(fn) if vs['enum'] == 'VecIndex']
    if not arms or 'Uncompressed' not in arms[0]['arms']:
        ctx.lost('SHAPE-C13b', 'VecIndex::search: match on self / Uncompressed arm not found')
        return
    arm = arms[0]['arms']['Uncompressed']
    inarm = [c for c in fn.calls() if fn.dominates(arm, c.bb)]
    SORTS = ('sort_by', 'sort_unstable_by', 'sort_by_key', 'sort_by_cached_key')
    sort = [c for c in inarm if c.name in SORTS]
    host = fn
    docs_pred = lambda sl_: sl_.has_field('VecIndex::Uncompressed', 'documents')
    if not sort:
        # the body of the exact arm extracted into a private helper that receives `documents`: decide the same clauses inside it
        for hc in inarm:
            h = F.fns.get(hc.local_callee) if hc.local_callee else None
            if h is None or h.is_closure or not any(c.name in SORTS for c in h.calls()):
                continue
            ps = [k + 1 for k, a in enumerate(hc.args) if lib.slice_back(fn, [a], through_calls=True, at=(hc.bb, None)).has_field('VecIndex::Uncompressed', 'documents')]
            if ps:
                host = h
                ctx.touch(h, len(h.blocks))
                inarm = list(h.calls())
                sort = [c for c in inarm if c.name in SORTS]
                docs_pred = lambda sl_, ps=tuple(ps): bool(set(ps) & sl_.args)
                break
    trunc = [c for c in inarm if c.name in ('truncate', 'take')]
    maps = [c for c in inarm if c.name == 'map']
    ctx.evaluations += len(inarm)
    if not sort:
        ctx.lost('SHAPE-C13b', 'ordering mechanism of the exact arm not recognised (no sort_by)')
        return
    # every document is scored: map over an iterator of the arm's `documents`
    docs_ok = False
    for m in maps:
        sl = lib.slice_back(host, m.args[:1], through_calls=True, at=(m.bb, None))
        if docs_pred(sl) and not any(c.name in ('filter', 'take', 'skip', 'step_by', 'take_while') for c in sl.calls):
            docs_ok = True
    if docs_ok:
        ctx.ok('SHAPE-C13b', host, 'every document of the index is scored (map over documents.iter(), no filter/take)', line=maps[0].line)
    else:
        ctx.bad('SHAPE-C13b', host, 'not every document is scored before ranking', detail='partial-scoring')
    if trunc and all(lib.call_success_dominates(host, sort[0], t.bb) for t in trunc):
        ctx.ok('SHAPE-C13b', host, 'truncate(limit) after the sort', line=trunc[0].line)
    elif trunc:
        ctx.bad('SHAPE-C13b', host, 'results are truncated before they are sorted', line=trunc[0].line, detail='truncate-before-sort')
    else:
        ctx.bad('SHAPE-C13b', host, 'results are not limited', detail='no-truncate')
    # comparator orientation
    cl = None
    sl = lib.slice_back(host, sort[0].args[1:2], through_calls=False, at=(sort[0].bb, None))
    for cdef in sl.closures:
        cl = F.fns.get(cdef)
    if cl is None:
        ctx.lost('SHAPE-C13b', 'sort comparator closure not found')
        return
    pc = [c for c in cl.calls() if c.name in ('partial_cmp', 'total_cmp', 'cmp')]
    if not pc:
        ctx.lost('SHAPE-C13b', 'comparator does not call partial_cmp/total_cmp')
        return
    a0 = lib.slice_back(cl, pc[0].args[:1], through_calls=False)
    a1 = lib.slice_back(cl, pc[0].args[1:2], through_calls=False)
    asc = 2 in a0.args and 3 in a1.args and 3 not in a0.args and 2 not in a1.args
    on_dist = a0.has_field('VecSearchHit', 'distance') and a1.has_field('VecSearchHit', 'distance')
    rev = any(c.name == 'reverse' for c in cl.calls())
    if asc and on_dist and not rev:
        ctx.ok('SHAPE-C13b', cl, 'comparator = a.distance.partial_cmp(b.distance) (ascending)', line=pc[0].line)
    else:
        ctx.bad('SHAPE-C13b', cl, 'comparator is not ascending on distance (a-first: %s, on distance: %s, reversed: %s)' % (asc, on_dist, rev), line=pc[0].line, detail='comparator-orientation')
