"""C17 — at most one writer: the exclusive lock holds for the handle's lifetime (lock follows file).

Decided:
  TYPESTATE-C17a  wherever the file at the memory's path is replaced by a rename (success edge of CommitStaging::commit /
                  AtomicWriteFile::commit / fs::rename in a function that owns a Memvid), every Ok exit after it is
                  dominated by a store to Memvid.lock whose value is a FileLock acquired on the *new* inode (derived
                  from FileLock::acquire*/try_acquire/open_and_lock applied to the staging or re-opened handle).
  WMC-C17b        every constructor of a Memvid pairs file and lock from one FileLock::open_and_lock / try_acquire /
                  acquire_with_mode on that file; FileLock::unlock (fs2) is called only from Drop / the mode changes
                  of FileLock itself; Memvid::downgrade_to_shared reaches the lock downgrade only on the
                  !dirty && !tantivy-pending edge; ensure_writable upgrades before clearing read_only.
  TYPESTATE-C17c  FileLock.mode never claims more than the OS lock held: inside FileLock every store of Exclusive or
                  Shared into `mode` is dominated by the success edge of the locking call (lock_with_retry /
                  try_lock_*). upgrade_to_exclusive returns early when mode is already Exclusive and ensure_writable
                  trusts it, so a mode stored before a lock attempt that then fails turns the next write into an
                  unlocked writer.
Not decided: interleavings of two processes."""
from . import lib
from .facts import Place, op_place

RENAMES = ('CommitStaging::commit', 'AtomicWriteFile::commit', 'std::fs::rename', 'fs_err::rename')
ACQUIRE = ('FileLock::acquire_with_mode', 'FileLock::acquire', 'FileLock::try_acquire', 'FileLock::open_and_lock', 'FileLock::open_read_only')


NEW_HANDLE = ('CommitStaging::clone_file', 'OpenOptions::open', 'File::open')
ORIG, STAGED, UNKNOWN = 'lock of the original inode', 'lock of the staged inode', 'unknown lock'


def lock_typestate(ctx, F, fn, renames):
    """Forward may-analysis of which inode Memvid.lock is held on. Events: a store to Memvid.lock, or
    mem::replace(&mut self.lock, x): STAGED when the new value comes from FileLock::acquire* applied to the staging /
    re-opened handle, ORIG when it comes from the value previously taken out of self.lock. At every exit (Ok or Err):
    after the rename succeeded the lock must be STAGED, otherwise ORIG."""
    mb = lib.mut_borrows(fn)
    saved = set()       # locals holding the lock taken out of self.lock
    events = {}         # (bb, order) -> state

    def classify(ops, at):
        sl = lib.slice_back(fn, ops, through_calls=True, at=at, stop_locals=tuple(saved))
        if sl.locals & saved:
            return (ORIG, None)
        acq = [c for c in sl.calls if c.is_(ACQUIRE)]
        if acq:
            s0 = lib.slice_back(fn, acq[0].args[:1], through_calls=True, at=(acq[0].bb, None))
            return (STAGED, acq[0]) if any(c.is_(NEW_HANDLE) for c in s0.calls) else (UNKNOWN, acq[0])
        if sl.locals & saved:
            return (ORIG, None)
        return (UNKNOWN, None)
    for c in fn.calls():
        if c.name == 'replace' and 'mem' in (c.callee or '') and c.args:
            p = op_place(c.args[0])
            tg = lib.mut_targets(fn, p.l) if p is not None and not p.p else []
            if any(t.field_owners() and t.field_owners()[-1] == ('Memvid', 'lock') for t in tg):
                saved |= {c.dest.l}
    # aliases of the saved original (moves into Option, etc.)
    changed = True
    while changed:
        changed = False
        for bb, i, st in fn.stmts():
            if st['rv']['k'] in ('use', 'agg') and st['lhs']['l'] not in saved and st['lhs']['l'] > fn.r['argc']:
                for o in lib.rv_operands(st['rv']):
                    q = op_place(o)
                    if q is not None and q.l in saved and not st['lhs'].get('p'):
                        saved.add(st['lhs']['l'])
                        changed = True
    acqs = []
    for c in fn.calls():
        if c.name == 'replace' and 'mem' in (c.callee or '') and c.args:
            p = op_place(c.args[0])
            tg = lib.mut_targets(fn, p.l) if p is not None and not p.p else []
            if any(t.field_owners() and t.field_owners()[-1] == ('Memvid', 'lock') for t in tg):
                stt, a = classify(c.args[1:2], (c.bb, None))
                events[(c.bb, 10 ** 6)] = (stt, c.line)
                if a is not None:
                    acqs.append(a)
    for st in lib.field_stores(fn, 'Memvid', 'lock'):
        if st['lhs'].field_owners()[-1] != ('Memvid', 'lock'):
            continue
        stt, a = classify(lib.rv_operands(st['rv']), (st['bb'], st['idx']))
        events[(st['bb'], st['idx'])] = (stt, st['line'])
        if a is not None:
            acqs.append(a)
    ctx.evaluations += len(events) + len(fn.blocks)
    if not events:
        for r in renames:
            ctx.bad('TYPESTATE-C17a', fn, 'after %s replaces the file at the memory\'s path, the handle keeps the lock it took on the old (now unlinked) inode: '
                    'a second writer can lock and open the path while this handle is alive' % r.key.split('::')[-1], line=r.line,
                    sink='Memvid.lock', detail='lock-not-reacquired-after-rename')
        return
    # forward propagation of the set of possible states
    nb = len(fn.blocks)
    inn = [set() for _ in range(nb)]
    inn[0] = {ORIG}
    out = [set() for _ in range(nb)]
    by_block = {}
    for (bb, order), ev in events.items():
        by_block.setdefault(bb, []).append((order, ev))
    work = [0]
    while work:
        b = work.pop()
        cur = set(inn[b])
        for order, (stt, ln) in sorted(by_block.get(b, [])):
            cur = {stt}
        if cur != out[b] or b == 0:
            out[b] = cur
            for sx in fn.succs(b):
                if not cur <= inn[sx]:
                    inn[sx] |= cur
                    work.append(sx)
    problems = []
    n_exits = 0
    for r in renames:
        sb, how = fn.success_block(r)
        for ex in fn.ret_assignments():
            n_exits += 1
            renamed = sb is not None and fn.dominates(sb, ex['bb'])
            maybe_renamed = sb is not None and ex['bb'] in fn.reachable(sb)
            states = out[ex['bb']] or inn[ex['bb']]
            want = STAGED if renamed else ORIG
            if renamed and states != {STAGED}:
                problems.append((ex, 'after the rename the handle can still hold the %s' % ', '.join(sorted(states - {STAGED})), 'lock-not-reacquired-after-rename'))
            elif not maybe_renamed and states != {ORIG}:
                problems.append((ex, 'an exit without the rename (operation or rename failed) leaves the handle holding the %s: the memory file itself is unlocked and a second writer can open it'
                                 % ', '.join(sorted(states - {ORIG})), 'lock-not-restored-on-failure'))
    if problems:
        seen = set()
        for ex, msg, det in problems:
            if det in seen:
                continue
            seen.add(det)
            ctx.bad('TYPESTATE-C17a', fn, msg, line=ex['line'], sink='Memvid.lock', detail=det)
    else:
        a = acqs[0] if acqs else None
        ctx.ok('TYPESTATE-C17a', fn, 'Memvid.lock follows the inode at the path on all %d exits (staged lock %s, installed only on paths where the rename succeeded or restored otherwise)' % (
            n_exits, ('acquired at line %s' % a.line) if a is not None else ''), line=a.line if a is not None else None)
    # the mode of the re-acquired lock must exclude writers
    for a in acqs:
        if a.is_('FileLock::acquire_with_mode') and len(a.args) > 1:
            sl = lib.slice_back(fn, a.args[1:2], through_calls=True, at=(a.bb, None))
            modes = {x.split('::')[-1] for x in sl.aggs if x.startswith('LockMode::')}
            for k in sl.consts:
                if 'promoted' in k:
                    modes |= {x.split('::')[-1] for x in lib.promoted_summary(fn, k['promoted'])['aggs'] if x.startswith('LockMode::')}
            if 'None' in modes:
                ctx.bad('TYPESTATE-C17a', fn, 'the lock re-acquired on the staged inode is taken in mode None (no OS lock)', line=a.line, detail='staged-lock-mode-none')
            elif modes or any(c.is_('FileLock::mode') for c in sl.calls):
                ctx.ok('TYPESTATE-C17a', fn, 'staged lock mode %s excludes writers (they need the exclusive lock)' % (', '.join(sorted(modes)) or 'of the current lock'), line=a.line)
            else:
                ctx.lost('TYPESTATE-C17a', '%s: mode of the staged lock not recognised' % fn.key)


LOCKERS = ('FileLock::lock_with_retry', 'FileExt::try_lock_exclusive', 'FileExt::try_lock_shared', 'FileExt::lock_exclusive', 'FileExt::lock_shared')


def _mode_claims(ctx, F):
    ctx.rule('TYPESTATE-C17c', 'inside FileLock, mode = Exclusive/Shared is stored only after the locking call succeeded')
    n = 0
    for f in sorted(F.fns.values(), key=lambda x: x.path):
        if not (f.r.get('impl_self') or '').endswith('::FileLock') or f.is_closure or f.r.get('derive'):
            continue
        lockers = [c for c in f.calls() if c.is_(LOCKERS) or c.name in ('try_lock_exclusive', 'try_lock_shared', 'lock_exclusive', 'lock_shared')]
        for st in lib.field_stores(f, 'FileLock', 'mode'):
            if st['lhs'].field_owners()[-1] != ('FileLock', 'mode'):
                continue
            sl = lib.slice_back(f, lib.rv_operands(st['rv']), through_calls=False, at=(st['bb'], st['idx']))
            modes = {a.split('::')[-1] for a in sl.aggs if a.startswith('LockMode::')}
            for k in sl.consts:
                if 'promoted' in k:
                    modes |= {a.split('::')[-1] for a in lib.promoted_summary(f, k['promoted'])['aggs'] if a.startswith('LockMode::')}
            if not modes & {'Exclusive', 'Shared'} and modes:
                continue
            n += 1
            ctx.evaluations += 1
            ctx.touch(f, 1)
            if any(lib.call_success_dominates(f, c, st['bb']) for c in lockers):
                ctx.ok('TYPESTATE-C17c', f, 'mode = %s stored after the locking call succeeded' % ('/'.join(sorted(modes)) or 'parameter'), line=st['line'])
            else:
                ctx.bad('TYPESTATE-C17c', f, 'FileLock.mode is set to %s before (or without) a successful locking call: if the lock attempt fails the guard still claims the lock, and '
                        'upgrade_to_exclusive / ensure_writable will treat the handle as writable without holding any OS lock' % ('/'.join(sorted(modes)) or 'a lock mode'),
                        line=st['line'], sink='FileLock.mode', detail='mode-claimed-before-lock')
    ctx.floor('TYPESTATE-C17c', n, 1, 'stores of a lock mode inside FileLock')   # 2 on the pinned tree; a shared relock helper legitimately merges them


def run(ctx):
    _mode_claims(ctx, ctx.facts())
    ctx.rule('TYPESTATE-C17a', 'after the memory file is replaced by rename, Memvid.lock is re-assigned to a lock on the new inode before Ok')
    ctx.rule('WMC-C17b', 'constructors pair file+lock; unlock only in Drop/mode changes; downgrade only when clean; upgrade before writable')
    F = ctx.facts()
    n = 0
    for fn in F.fns.values():
        if fn.is_closure or fn.key == 'CommitStaging::commit':
            continue
        rn = [c for c in fn.calls() if c.is_(RENAMES)]
        if not rn:
            continue
        owns = any('memvid::lifecycle::Memvid' in fn.local_ty(i) for i in range(1, fn.r['argc'] + 1))
        if not owns:
            continue
        ctx.touch(fn, len(fn.blocks))
        n += len(rn)
        lock_typestate(ctx, F, fn, rn)
    ctx.floor('TYPESTATE-C17a', n, 1, 'renames over the memory file in Memvid-owning functions')
    # ---- b: constructors
    ctor_callers = [f for f in F.fns.values() if f.calls_to('Memvid::open_locked')]
    ctx.floor('WMC-C17b:ctors', len(ctor_callers), 2, 'callers of open_locked')
    for f in ctor_callers:
        ctx.touch(f, len(f.blocks))
        for c in f.calls_to('Memvid::open_locked'):
            sf = lib.slice_back(f, c.args[0:1], through_calls=True, at=(c.bb, None))
            slk = lib.slice_back(f, c.args[1:2], through_calls=True, at=(c.bb, None))
            acq = [x for x in slk.calls if x.is_(ACQUIRE)]
            ctx.evaluations += 1
            if not acq:
                ctx.bad('WMC-C17b', f, 'open_locked is given a lock that was not acquired through FileLock', line=c.line, detail='ctor-lock-source')
                continue
            same = acq[0] in sf.calls or any(x in sf.calls for x in lib.slice_back(f, acq[0].args[:1], through_calls=True, at=(acq[0].bb, None)).calls if x.name == 'open') \
                or bool(set(lib.slice_back(f, acq[0].args[:1], through_calls=False, at=(acq[0].bb, None)).locals) & sf.locals)
            if same:
                ctx.ok('WMC-C17b', f, 'file and lock come from the same open (%s)' % acq[0].key.split('::')[-1], line=c.line)
            else:
                ctx.bad('WMC-C17b', f, 'the lock handed to open_locked is not taken on the file handed to it', line=c.line, detail='ctor-lock-file-pair')
    for key in ('Memvid::create', 'Memvid::open_read_only_snapshot'):
        f = F.fn(key)
        if f is None:
            continue
        ctx.touch(f, len(f.blocks))
        aggs = [(bb, i, s) for bb, i, s in f.stmts() if s['rv']['k'] == 'agg' and s['rv'].get('adt') == 'Memvid']
        for bb, i, s in aggs:
            ops = dict(zip(s['rv']['fields'], s['rv']['ops']))
            slk = lib.slice_back(f, [ops['lock']], through_calls=True, at=(bb, i))
            ctx.evaluations += 1
            if any(x.is_(ACQUIRE) for x in slk.calls):
                ctx.ok('WMC-C17b', f, 'constructed with a FileLock acquired in the constructor', line=s.get('l'))
            else:
                ctx.bad('WMC-C17b', f, 'Memvid constructed without acquiring a FileLock', line=s.get('l'), detail='ctor-without-lock')
    # unlock callers
    for f in F.fns.values():
        for c in f.calls():
            if c.is_(('FileExt::unlock', '<File as FileExt>::unlock', 'File::unlock')) or (c.name == 'unlock' and 'fs2' in (c.callee or '')):
                ctx.evaluations += 1
                if f.r.get('impl_self', '').endswith('::FileLock') or (f.r.get('impl_self', '').endswith('::FileLock') and f.name == 'drop'):
                    ctx.ok('WMC-C17b', f, 'OS unlock inside FileLock', line=c.line)
                else:
                    ctx.bad('WMC-C17b', f, 'the OS lock is released outside FileLock', line=c.line, detail='raw-unlock')
            if c.is_('FileLock::unlock'):
                ctx.bad('WMC-C17b', f, 'FileLock::unlock is called while the handle is alive', line=c.line, detail='explicit-unlock')
    dg = ctx.need('WMC-C17b', 'Memvid::downgrade_to_shared')
    if dg is not None:
        ctx.touch(dg, len(dg.blocks))
        dc = dg.calls_to('FileLock::downgrade_to_shared')
        cut = set()
        for bs in lib.bool_switches(dg):
            sl = lib.slice_back(dg, [bs['local']], through_calls=True, at=(bs['bb'], None))
            if sl.has_field('Memvid', 'dirty') or sl.calls_matching('Memvid::tantivy_index_pending'):
                cut.add((bs['bb'], bs['t_false']))
        ok = bool(dc) and bool(cut)
        if ok:
            # the downgrade must be reachable only via the "not dirty / not pending" (false) edges
            true_edges = {(bs['bb'], bs['t_true']) for bs in lib.bool_switches(dg)
                          if lib.slice_back(dg, [bs['local']], through_calls=True, at=(bs['bb'], None)).has_field('Memvid', 'dirty') or
                          lib.slice_back(dg, [bs['local']], through_calls=True, at=(bs['bb'], None)).calls_matching('Memvid::tantivy_index_pending')}
            reach_dirty = any(dc[0].bb in dg.reachable(t) for _, t in true_edges)
            if reach_dirty:
                ok = False
        if ok:
            ctx.ok('WMC-C17b', dg, 'the exclusive lock is given up only when nothing is dirty or pending', line=dc[0].line)
        else:
            ctx.bad('WMC-C17b', dg, 'downgrade_to_shared can drop the exclusive lock while changes are pending', detail='downgrade-while-dirty')
    ew = ctx.need('WMC-C17b', 'Memvid::ensure_writable')
    if ew is not None:
        up = ew.calls_to('FileLock::upgrade_to_exclusive')
        sts = [s for s in lib.field_stores(ew, 'Memvid', 'read_only')]
        if up and sts and all(lib.call_success_dominates(ew, up[0], s['bb']) for s in sts):
            ctx.ok('WMC-C17b', ew, 'read_only is cleared only after the upgrade to an exclusive lock succeeded', line=up[0].line)
        else:
            ctx.bad('WMC-C17b', ew, 'a read-only handle becomes writable without a successful exclusive-lock upgrade', detail='writable-without-upgrade')
