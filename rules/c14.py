"""C14 — vector index membership matches active embedded frames.

Decided:
  AGREE-C14a  VecIndex::{entries, embedding_for, remove}: a match arm that ignores its variant's payload (yields
              empty / None / no-op) is a violation whenever a *builder* of that representation is reachable from the
              public Memvid API in the analysed configuration (QuantizedVecIndexBuilder::finish -> Compressed,
              VecIndexBuilder::finish_hnsw / HnswVecIndex::build -> Hnsw): the next rebuild (which copies
              index.entries()) would silently drop every vector, and deletes would not remove any.
  FLOW-C14b   build_vec_artifact copies index.entries() under frame_is_active and appends the new documents;
              rebuild_indexes hands its new_vec_docs to it and installs the returned index.
  FLOW-C14c   update_frame: when no explicit embedding is given the one passed on derives from
              frame_embedding(frame_id) of the updated frame; apply_records records (frame_id, embedding) for the
              frame it pushes.
  MPT-C14d    open_locked loads every persisted in-memory index (lex, Tantivy, vec, clip) *before* it replays the WAL:
              recovery rebuilds the indexes from the in-memory ones (build_vec_artifact copies self.vec_index), so a
              loader that can run after recover_wal means the replay starts from an empty index and persists it.
  GUARD-C14e  the carry-over of an update is decided by the live index, not by the persisted manifest: no test that guards
              update_frame's frame_embedding lookup reads the TOC's index manifests (VecIndexManifest.vector_count and
              friends, directly or through an accessor). Between commit_skip_indexes and finalize_indexes the manifest
              says 0 vectors while the in-memory index holds them all; gating the lookup on it drops the embedding of
              every frame updated in that window.
Not decided: the exact membership over histories (values)."""
from . import lib
from .facts import Place, op_place, rv_places

METHODS = ('VecIndex::entries', 'VecIndex::embedding_for', 'VecIndex::remove')
BUILDERS = {'Compressed': ('QuantizedVecIndexBuilder::finish',), 'Hnsw': ('VecIndexBuilder::finish_hnsw', 'HnswVecIndex::build')}


OWN_CONFIGS = True    # this module selects its feature configurations itself

def run(ctx):
    ctx.rule('AGREE-C14a', 'no reachable VecIndex representation has payload-ignoring arms in entries/embedding_for/remove')
    ctx.rule('FLOW-C14b', 'build_vec_artifact = active(index.entries()) + new docs; rebuild_indexes wires it')
    ctx.rule('FLOW-C14c', 'update_frame carries the old embedding over; apply_records records the embedding under the pushed frame id')
    configs = ['default'] + (['wide'] if ctx.tier == 'thorough' else [])
    for cfg in configs:
        ctx.config = cfg
        _variants(ctx, ctx.facts(cfg))
    ctx.config = 'default'
    F = ctx.facts()
    _artifact(ctx, F)
    _carry(ctx, F)
    _open_order(ctx, F)


def _variants(ctx, F):
    reach = lib.reachable_fns(F, lib.api_roots(F))
    ctx.evaluations += len(reach)
    adt = F.adt('VecIndex')
    if adt is None:
        ctx.lost('AGREE-C14a', 'VecIndex not found')
        return
    variants = [v['name'] for v in adt['variants']]
    reachable_builders = {}
    for v, pats in BUILDERS.items():
        if v not in variants:
            continue
        hit = [f.key for f in reach.values() if any(lib.path_matches(f.key, p) or lib.path_matches(f.path, p) for p in pats)]
        reachable_builders[v] = hit
    # representations constructed directly (VecIndex::<Variant> aggregates) in code reachable from the API
    for v in variants:
        made = sorted({f.key for f in reach.values() if lib.enum_constructions(f, 'VecIndex', v)})
        if made:
            reachable_builders[v] = sorted(set(reachable_builders.get(v, [])) | set(made))
    for m in METHODS:
        fn = ctx.need('AGREE-C14a', m)
        if fn is None:
            continue
        ctx.touch(fn, len(fn.blocks))
        sw = [vs for vs in lib.variant_switches(fn) if vs['enum'] == 'VecIndex']
        if not sw:
            ctx.lost('AGREE-C14a', '%s: match on self not found' % m)
            continue
        sw = sw[0]
        for v in variants:
            ctx.evaluations += 1
            arm = sw['arms'].get(v)
            if arm is None:
                ctx.bad('AGREE-C14a', fn, 'variant %s has no arm' % v, detail='no-arm:' + v)
                continue
            uses = False
            for i, b in enumerate(fn.blocks):
                if not fn.dominates(arm, i):
                    continue
                for s in b['s']:
                    for p in rv_places(s['rv']):
                        if v in p.downcasts():
                            uses = True
                t = b['t']
                if t['k'] == 'call':
                    for a in t['args']:
                        p = op_place(a)
                        if p is not None and v in p.downcasts():
                            uses = True
            if uses:
                ctx.ok('AGREE-C14a', fn, 'arm %s uses its payload' % v)
            elif reachable_builders.get(v) and v == 'Compressed':
                ctx.candidate('AGREE-C14a', fn, 'arm Compressed ignores its payload and %s is reachable in this configuration (parallel_segments + PQ compression); '
                              'not reproduced against the real code, so not a verdict' % ', '.join(reachable_builders[v]), detail='payload-ignored:' + v)
            elif reachable_builders.get(v):
                ctx.bad('AGREE-C14a', fn, 'arm %s ignores its payload (constant result) although %s is reachable from the Memvid API in this configuration: '
                        'vectors held in that representation vanish at the next rebuild / are never removed' % (v, ', '.join(reachable_builders[v])),
                        detail='payload-ignored:' + v, sink=m.split('::')[-1])
            else:
                ctx.ok('AGREE-C14a', fn, 'arm %s ignores its payload, but no builder of that representation is reachable from the API in this configuration' % v)


def _artifact(ctx, F):
    fn = ctx.need('FLOW-C14b', 'Memvid::build_vec_artifact')
    if fn is None:
        return
    ctx.touch(fn, len(fn.blocks))
    adds = [c for c in fn.calls() if c.name == 'add_document']
    ctx.floor('FLOW-C14b', len(adds), 2, 'add_document calls in build_vec_artifact (existing + new)')
    old = new = False
    for a in adds:
        sl = lib.slice_back(fn, a.args[1:], through_calls=True, at=(a.bb, None))
        if any(c.name == 'entries' for c in sl.calls) and sl.has_field('Memvid', 'vec_index'):
            # guarded by frame_is_active
            act = [c for c in fn.calls() if c.is_('Memvid::frame_is_active')]
            good = False
            for bs in lib.bool_switches(fn):
                s2 = lib.slice_back(fn, [bs['local']], through_calls=False, at=(bs['bb'], None))
                if any(c in s2.calls for c in act) and lib.edge_dominates(fn, bs['bb'], bs['t_true'], a.bb):
                    good = True
            if good:
                old = True
                ctx.ok('FLOW-C14b', fn, 'existing vectors are copied from vec_index.entries() under frame_is_active', line=a.line)
            else:
                ctx.bad('FLOW-C14b', fn, 'existing vectors are copied without the activity test', line=a.line, detail='copy-without-active')
        elif 2 in sl.args:
            new = True
            ctx.ok('FLOW-C14b', fn, 'the commit\'s new documents are appended', line=a.line)
    ctx.evaluations += len(adds)
    if not old:
        ctx.bad('FLOW-C14b', fn, 'the vectors already in the index are not carried into the rebuilt index', detail='existing-not-copied')
    if not new:
        ctx.bad('FLOW-C14b', fn, 'the new documents are not added to the rebuilt index', detail='new-not-added')
    # rebuild_indexes keeps the *old* vector manifest when build_vec_artifact answers None and vectors are enabled (it takes
    # None to mean "disabled"): so None may be returned only on the edge where vec_enabled is false - an enabled index that
    # has become empty must still be written, otherwise the manifest of the previous (populated) artifact is persisted again
    none_rets = [ex for ex in fn.ret_assignments() if ex['kind'] in ('ok', 'other') and ex.get('rv') is not None and
                 'Option::None' in lib.slice_back(fn, lib.rv_operands(ex['rv']), through_calls=False, at=(ex['bb'], ex['idx'])).aggs]
    dis_edges = []
    for bs in lib.bool_switches(fn):
        sl = lib.slice_back(fn, [{'c': {'l': bs['local'], 'p': []}}], through_calls=False, at=(bs['bb'], None))
        if sl.has_field('Memvid', 'vec_enabled'):
            dis_edges.append((bs['bb'], bs['t_true'] if 'Not' in sl.ops else bs['t_false']))
    ctx.evaluations += len(none_rets)
    if not none_rets or not dis_edges:
        ctx.lost('FLOW-C14b', 'build_vec_artifact: the `vectors disabled -> None` exit was not found (None returns %d, vec_enabled tests %d)' % (len(none_rets), len(dis_edges)))
    for ex in none_rets:
        if any(lib.edge_dominates(fn, b, t, ex['bb']) for b, t in dis_edges):
            ctx.ok('FLOW-C14b', fn, 'None is returned only where vectors are disabled', line=ex['line'])
        else:
            ctx.bad('FLOW-C14b', fn, 'build_vec_artifact can answer None while vectors are enabled: rebuild_indexes then keeps the previous vector manifest, so after the last embedded frame is '
                    'deleted the old artifact (with the deleted vectors) is what a reopen loads', line=ex['line'], sink='Toc.indexes.vec', detail='none-while-enabled')
    rb = ctx.need('FLOW-C14b', 'Memvid::rebuild_indexes')
    if rb is not None:
        ctx.touch(rb, len(rb.blocks))
        bc = rb.calls_to('Memvid::build_vec_artifact')
        if bc and 2 in lib.slice_back(rb, bc[0].args[1:2], through_calls=False).args:
            sts = [s for s in lib.field_stores(rb, 'Memvid', 'vec_index') if bc[0] in lib.slice_back(rb, lib.rv_operands(s['rv']), through_calls=True, at=(s['bb'], s['idx'])).calls]
            if sts:
                ctx.ok('FLOW-C14b', rb, 'rebuild_indexes(new_vec_docs) -> build_vec_artifact -> self.vec_index', line=bc[0].line)
            else:
                ctx.bad('FLOW-C14b', rb, 'the rebuilt vector index is not installed as self.vec_index', line=bc[0].line, detail='index-not-installed')
        else:
            ctx.bad('FLOW-C14b', rb, 'rebuild_indexes does not pass its new_vec_docs to build_vec_artifact', detail='new-docs-not-passed')


def _carry(ctx, F):
    up = ctx.need('FLOW-C14c', 'Memvid::update_frame')
    if up is not None:
        ctx.touch(up, len(up.blocks))
        pi = up.calls_to('Memvid::put_internal')
        fe = up.calls_to('Memvid::frame_embedding')
        if pi and fe:
            sl = lib.slice_back(up, pi[0].args[3:4], through_calls=True, at=(pi[0].bb, None))
            s2 = lib.slice_back(up, fe[0].args[1:2], through_calls=False)
            ctx.evaluations += 2
            if fe[0] in sl.calls and 2 in s2.args and 5 in sl.args:
                ctx.ok('FLOW-C14c', up, 'embedding passed on = explicit | frame_embedding(frame_id)', line=pi[0].line)
            else:
                ctx.bad('FLOW-C14c', up, 'an update without an explicit embedding does not carry over the old frame\'s embedding', line=pi[0].line, detail='embedding-not-carried')
        else:
            ctx.bad('FLOW-C14c', up, 'update_frame no longer looks up the old embedding', detail='embedding-not-carried')
        ctx.rule('GUARD-C14e', 'update_frame: the tests guarding the frame_embedding lookup do not read the persisted index manifests')
        from .c05 import _deep_fields
        for f0 in fe:
            ctx.evaluations += 1
            stale = None
            for g, rel in lib.guards_holding_at(up, f0.bb):
                for side in (g.sa(), g.sb()):
                    flds = set(side.fields)
                    for c in side.calls:
                        h = F.fns.get(c.local_callee) if c.local_callee else None
                        if h is not None:
                            for body in [h] + F.closures_of(h):
                                for bb, i, st in body.stmts():
                                    for o in lib.rv_operands(st['rv']):
                                        q = op_place(o)
                                        if q is not None:
                                            flds |= set(q.field_owners())
                    hit = sorted('%s.%s' % x for x in flds if x[0] in ('VecIndexManifest', 'IndexManifests', 'LexIndexManifest') or x == ('Toc', 'indexes'))
                    if hit:
                        stale = (g, hit)
            if stale:
                ctx.bad('GUARD-C14e', up, 'the lookup of the old embedding is gated on the persisted manifest (%s, test at line %s): while the manifest lags the in-memory index (after '
                        'commit_skip_indexes, before finalize_indexes) an update drops the frame\'s embedding for good' % (', '.join(stale[1][:2]), stale[0].line), line=f0.line,
                        sink='Memvid::frame_embedding', detail='carry-over-gated-on-manifest')
            else:
                ctx.ok('GUARD-C14e', up, 'the carry-over lookup is not conditioned on the persisted index manifests', line=f0.line)
    ar = ctx.need('FLOW-C14c', 'Memvid::apply_records')
    if ar is not None:
        pushes = [c for c in ar.calls() if c.is_('Vec::push') and lib.slice_back(ar, c.args[:1], through_calls=False).has_field('IngestionDelta', 'inserted_embeddings')]
        ctx.floor('FLOW-C14c', len(pushes), 1, 'push into delta.inserted_embeddings')
        fpush = [c for c in ar.calls() if c.is_('Vec::push') and lib.slice_back(ar, c.args[:1], through_calls=False).has_field('Toc', 'frames')]
        for p in pushes:
            sl = lib.slice_back(ar, p.args[1:2], through_calls=True, at=(p.bb, None), stop_at_calls=('Vec::len',))
            ctx.evaluations += 1
            lens = [c for c in sl.calls if c.name == 'len' and lib.slice_back(ar, c.args, through_calls=False).has_field('Toc', 'frames')]
            if lens and sl.has_field('WalEntryData', 'embedding'):
                ctx.ok('FLOW-C14c', ar, '(frame_id = toc.frames.len(), entry.embedding) recorded for the pushed frame', line=p.line)
            else:
                ctx.bad('FLOW-C14c', ar, 'the embedding is not recorded under the id of the frame being pushed', line=p.line, detail='embedding-id')


LOADERS = ('Memvid::load_vec_index_from_manifest', 'Memvid::load_lex_index_from_manifest', 'Memvid::init_tantivy', 'Memvid::load_clip_index_from_manifest')


def _open_order(ctx, F, rule='MPT-C14d'):
    ctx.rule(rule, 'open_locked: every index loader runs before recover_wal (replay rebuilds from the in-memory indexes)')
    for key in ('Memvid::open_locked',):
        fn = ctx.need(rule, key)
        if fn is None:
            continue
        ctx.touch(fn, len(fn.blocks))
        rw = fn.calls_to('Memvid::recover_wal')
        loads = [c for c in fn.calls() if c.is_(LOADERS)]
        ctx.floor(rule, len(loads), 3, 'index loaders in open_locked')
        if not rw:
            ctx.lost(rule, 'open_locked no longer calls recover_wal')
            continue
        after = fn.reachable(rw[0].bb) - {rw[0].bb}
        for l in loads:
            ctx.evaluations += 1
            if l.bb in after:
                ctx.bad(rule, fn, '%s can run after recover_wal: the WAL replay rebuilds and persists the index from an empty in-memory index (committed vectors are lost)'
                        % l.key.split('::')[-1], line=l.line, detail='loader-after-replay:' + l.key.split('::')[-1])
            else:
                ctx.ok(rule, fn, '%s runs before the WAL replay' % l.key.split('::')[-1], line=l.line)
        # the vector loader must be reachable at all before the replay when vec is enabled
        if not any(l.is_('Memvid::load_vec_index_from_manifest') and rw[0].bb in fn.reachable(l.bb) for l in loads):
            ctx.bad(rule, fn, 'the vector index is not loaded before the WAL replay', detail='vec-not-loaded-before-replay')
