"""C03 — power-loss durability of synced data (sync-before-ack typestate).

Decided with the SUM engine (rules/effects.py), lattice {clean, unsynced}, write => unsynced, sync => clean,
local calls by summary (fixpoint over the reachable call graph), caller-supplied closures => unsynced:
  SYNC-C03a  EmbeddedWal::write_record ends clean on every Ok path, the only deferral being the edge on which the
             `skip_sync` flag is set; skip_sync is stored only by set_skip_sync, which is called only by
             begin_batch/end_batch; end_batch flushes (sync) successfully before it clears the flag.
  SYNC-C03b  with_staging_lock: the state is clean at the CommitStaging::commit (rename) call, and
             CommitStaging::copy_from ends clean.
  SYNC-C03c  every acknowledging function returns Ok only in the clean state (table ACK below).
  ORDER-C03d in the commit functions the header that publishes the new TOC / WAL checkpoint is written only after
             rewrite_toc_footer (which syncs) succeeded: rewrite_toc_footer -> record_checkpoint -> persist_header -> sync_all.
Reviewed exemption (by callee, not by site): EmbeddedWal::write_zero_header (end-of-log sentinel; re-established by
every open; losing it cannot lose an fsynced record because records are validated by their own checksum).
  MPT-C03e  an acknowledged put that had to grow the embedded WAL moved every committed byte: before it returns, the
            growth path has rewritten the TOC with the adjusted offsets, persisted the header and synced (shared with
            C02's growth protocol rule).
  FLOW-C03f  (shared with FLOW-C05h) a WAL opened from a header numbers its next record after Header.wal_sequence: an
             acknowledged put that is numbered at or below the checkpoint is synced to disk and then ignored by every
             replay.
Not decided: torn writes, directory-entry durability inside atomic-write-file, whether the file still opens."""
from . import lib, effects
from .effects import CLEAN, UNSYNCED

ACK = [
    'Memvid::create', 'Memvid::put_internal', 'Memvid::delete_frame', 'Memvid::commit_with_options', 'Memvid::commit_from_records',
    'Memvid::commit_skip_indexes_inner', 'Memvid::finalize_indexes', 'Memvid::recover_wal', 'Memvid::grow_wal_region',
    'Memvid::ensure_wal_capacity', 'Memvid::apply_ticket', 'Memvid::apply_signed_ticket', 'Memvid::vacuum',
    'Memvid::rewrite_toc_footer', 'Memvid::with_staging_lock', 'Memvid::end_batch', 'EmbeddedWal::append_entry',
    'Memvid::append_wal_entry',
]
# exits that acknowledge something: for recover_wal only the branch that applied pending records does (the
# empty-log branch may flush a rebuilt Tantivy snapshot, which acknowledges nothing and is re-derivable)
ACK_SCOPE = {'Memvid::recover_wal': 'Memvid::apply_records'}
SENTINEL = ('EmbeddedWal::write_zero_header',)
SKIP = ('EmbeddedWal', 'skip_sync')
COMMIT_ORDER = ['Memvid::commit_from_records', 'Memvid::commit_skip_indexes_inner']


def run(ctx):
    from . import c02
    ctx.rule('MPT-C03e', 'WAL growth (data shifted in place for an acknowledged put): adjusted TOC rewritten, header persisted and synced before Ok')
    for _k in ('Memvid::grow_wal_region', 'Memvid::ensure_wal_capacity'):
        _g = ctx.need('MPT-C03e', _k)
        if _g is not None:
            ctx.touch(_g, len(_g.blocks))
            c02.growth_protocol(ctx, ctx.facts(), _g, 'MPT-C03e')
    from . import c05
    c05._open_sequence(ctx, ctx.facts(), 'FLOW-C03f')     # an acknowledged put numbered <= the checkpoint is dropped by recovery
    ctx.rule('SYNC-C03a', 'write_record ends clean except on the skip_sync edge; skip_sync protocol (set only via set_skip_sync from begin/end_batch; end_batch flushes first)')
    ctx.rule('SYNC-C03b', 'clean at the staging rename; copy_from ends clean')
    ctx.rule('SYNC-C03c', 'every acknowledging function returns Ok only in the clean state (write => unsynced, sync => clean, calls by summary)')
    ctx.rule('ORDER-C03d', 'commit: rewrite_toc_footer(ok) -> record_checkpoint(ok) -> persist_header(ok) -> sync_all(ok) before Ok')
    F = ctx.facts()
    roots = []
    for k in ACK + ['EmbeddedWal::write_record', 'CommitStaging::copy_from']:
        fn = ctx.need('SYNC-C03c', k)
        if fn is not None:
            roots.append(fn)
    ts = effects.SyncTypestate(F, identity=SENTINEL, defer_field=SKIP)
    fns = ts.solve(roots)
    ctx.extra['typestate'] = dict(functions_summarised=len(fns), fixpoint_rounds=ts.rounds, effect_sites=ts.effect_sites)
    ctx.evaluations += sum(len(f.blocks) for f in fns.values())
    for f in fns.values():
        ctx.fns_seen.add(f.path)
    ctx.floor('SYNC-C03c:effects', ts.effect_sites, 20, 'direct write/sync sites on the memory file in the reachable code')
    # ---- C03c
    for k in ACK:
        fn = F.fn(k)
        if fn is None:
            continue
        out, ent, detail = ts.run(fn, CLEAN)
        if not detail:
            ctx.lost('SYNC-C03c', '%s has no Ok exit' % k)
            continue
        if k in ACK_SCOPE:
            anchors = fn.calls_to(ACK_SCOPE[k])
            if not anchors:
                ctx.lost('SYNC-C03c', '%s no longer calls %s' % (k, ACK_SCOPE[k]))
                continue
            detail = [(ex, st) for ex, st in detail if any(lib.call_success_dominates(fn, a, ex['bb']) for a in anchors)]
            if not detail:
                ctx.lost('SYNC-C03c', '%s: no Ok exit after %s' % (k, ACK_SCOPE[k]))
                continue
        bad = [(ex, st) for ex, st in detail if st != CLEAN]
        if not bad:
            ctx.ok('SYNC-C03c', fn, 'clean at all %d Ok exits (summary clean->%s, unsynced->%s)' % (
                len(detail), *('clean' if x == CLEAN else 'unsynced' for x in ts.summ[fn.path])))
        for ex, st in bad:
            # name the last effectful call that can reach this exit unsynced
            culprit = _culprit(ts, fn, ent, ex['bb'])
            ctx.bad('SYNC-C03c', fn, 'Ok exit at line %s is reachable with a write to the memory file not followed by a sync (last unsynced effect: %s)' % (
                ex['line'], culprit), line=ex['line'], detail='unsynced-ok:' + culprit, sink='Ok')
    # ---- C03a
    wr = F.fn('EmbeddedWal::write_record')
    if wr is not None:
        out, _, detail = ts.run(wr, CLEAN)
        ts2 = effects.SyncTypestate(F, identity=SENTINEL, defer_field=None)
        ts2.solve([wr])
        out2, _, _ = ts2.run(wr, CLEAN)
        ctx.evaluations += 2 * len(wr.blocks)
        if out == CLEAN and out2 == UNSYNCED:
            ctx.ok('SYNC-C03a', wr, 'write_record syncs on every Ok path except the skip_sync edge (the only deferral)')
        elif out == CLEAN and out2 == CLEAN:
            ctx.ok('SYNC-C03a', wr, 'write_record syncs on every Ok path')
        else:
            ctx.bad('SYNC-C03a', wr, 'write_record can return Ok without fsync although skip_sync is not set', detail='write-record-unsynced')
    # skip_sync writers
    writers = set()
    for f in F.fns.values():
        if lib.field_stores(f, *SKIP):
            writers.add(f.key)
        for bb, idx, s in f.stmts():
            rv = s['rv']
            if rv['k'] == 'agg' and rv.get('adt') == 'EmbeddedWal' and 'skip_sync' in rv.get('fields', ()):
                op = rv['ops'][rv['fields'].index('skip_sync')]
                if op.get('k', {}).get('v') is not False:
                    writers.add(f.key + ' (constructor, not false)')
    ctx.evaluations += len(F.fns)
    if writers <= {'EmbeddedWal::set_skip_sync'} and writers:
        ctx.ok('SYNC-C03a', F.fn('EmbeddedWal::set_skip_sync'), 'skip_sync is stored only by set_skip_sync (constructed false)')
    else:
        ctx.bad('SYNC-C03a', None, 'skip_sync is written outside set_skip_sync: %s' % sorted(writers), detail='skip-sync-writer:' + ','.join(sorted(writers)))
    callers = {}
    for f in F.fns.values():
        for c in f.calls_to('EmbeddedWal::set_skip_sync'):
            callers.setdefault(f.key, []).append(c)
    allowed = {'Memvid::begin_batch', 'Memvid::end_batch'}
    for k, cs in sorted(callers.items()):
        if k in allowed:
            ctx.ok('SYNC-C03a', cs[0].fn, 'reviewed caller of set_skip_sync', line=cs[0].line)
        else:
            ctx.bad('SYNC-C03a', cs[0].fn, 'unreviewed caller of set_skip_sync (defers WAL fsync)', line=cs[0].line, detail='skip-sync-caller')
    ctx.floor('SYNC-C03a:callers', len(callers), 2, 'callers of set_skip_sync')
    eb = F.fn('Memvid::end_batch')
    if eb is not None:
        fl = eb.calls_to('EmbeddedWal::flush')
        ss = eb.calls_to('EmbeddedWal::set_skip_sync')
        ctx.evaluations += 2
        if fl and ss and all(lib.call_success_dominates(eb, fl[0], s.bb) for s in ss) and \
                all(s.args[1].get('k', {}).get('v') is False for s in ss):
            ctx.ok('SYNC-C03a', eb, 'end_batch: flush succeeds before skip_sync is cleared', line=fl[0].line)
        else:
            why = 'never restores per-append fsync (set_skip_sync(false) missing)' if not ss else (
                'does not flush' if not fl else 'does not flush successfully before clearing skip_sync')
            ctx.bad('SYNC-C03a', eb, 'end_batch ' + why, detail='end-batch-order')
        fwal = F.fn('EmbeddedWal::flush')
        if fwal is not None and ts.summ.get(fwal.path, (1, 1))[UNSYNCED] == CLEAN:
            ctx.ok('SYNC-C03a', fwal, 'EmbeddedWal::flush is a sync')
        else:
            ctx.bad('SYNC-C03a', fwal, 'EmbeddedWal::flush does not sync', detail='flush-not-sync')
    # ---- C03b
    wsl = F.fn('Memvid::with_staging_lock')
    if wsl is not None:
        out, ent, _ = ts.run(wsl, CLEAN)
        cs = wsl.calls_to('CommitStaging::commit')
        ctx.floor('SYNC-C03b', len(cs), 1, 'CommitStaging::commit call in with_staging_lock')
        for c in cs:
            ctx.evaluations += 1
            if ent[c.bb] == CLEAN:
                ctx.ok('SYNC-C03b', wsl, 'staging file is synced (clean) when it is renamed over the original', line=c.line)
            else:
                ctx.bad('SYNC-C03b', wsl, 'the staging file can be renamed into place with unsynced writes', line=c.line, detail='rename-unsynced')
    cf = F.fn('CommitStaging::copy_from')
    if cf is not None:
        if ts.summ.get(cf.path, (1, 1))[CLEAN] == CLEAN:
            ctx.ok('SYNC-C03b', cf, 'copy_from ends clean (copy then sync_all)')
        else:
            ctx.bad('SYNC-C03b', cf, 'copy_from can return Ok without syncing the copy', detail='copy-unsynced')
    # ---- C03d
    for k in COMMIT_ORDER:
        fn = F.fn(k)
        if fn is None:
            continue
        steps = []
        missing = None
        inner = {}      # helper call -> [(helper fn, inner call)] for steps performed inside a private helper
        for pat in ('Memvid::rewrite_toc_footer', 'EmbeddedWal::record_checkpoint', 'persist_header', 'File::sync_all'):
            cs = fn.calls_to(pat)
            if not cs:
                # the step may sit in a private helper that performs it on every one of its Ok paths (`persist_header_and_sync()`)
                cands = []
                for c in fn.calls():
                    h = F.fns.get(c.local_callee) if c.local_callee else None
                    hc = h.calls_to(pat) if h is not None and not h.is_closure else []
                    if c in steps and id(c) not in inner:
                        continue        # a direct earlier step (rewrite_toc_footer syncs internally: that is not the publishing sync)
                    if hc and all(ex.get('call') in hc or any(lib.call_success_dominates(h, x, ex['bb']) for x in hc) for ex in h.ok_exits()):
                        if not steps or c is steps[-1] or lib.call_success_dominates(fn, steps[-1], c.bb):
                            cands.append((c, h, hc[-1]))
                if cands:
                    c, h, x = cands[-1]
                    cs = [c]
                    inner.setdefault(id(c), []).append((h, x))
            if not cs:
                missing = pat
                break
            steps.append(cs[-1])
        ctx.evaluations += 4
        if missing:
            ctx.bad('ORDER-C03d', fn, 'commit path lacks %s' % missing, detail='missing:' + missing)
            continue
        outer = [st for i, st in enumerate(steps) if i == 0 or st is not steps[i - 1]]
        ok, why = lib.ordered_on_all_ok_paths(fn, outer)
        for lst in inner.values():
            if ok and len(lst) > 1:
                ctx.touch(lst[0][0], len(lst[0][0].blocks))
                ok, why = lib.ordered_on_all_ok_paths(lst[0][0], [x for _, x in lst])
        if ok:
            ctx.ok('ORDER-C03d', fn, 'rewrite_toc_footer -> record_checkpoint -> persist_header -> sync_all on every Ok path', line=steps[0].line)
        else:
            ctx.bad('ORDER-C03d', fn, 'publication order broken: ' + why, detail='publish-order')
        # no other persist_header before the TOC is durable
        first_toc = fn.calls_to('Memvid::rewrite_toc_footer')[0]
        for ph in fn.calls_to('persist_header') + [st for st in steps if id(st) in inner]:
            if not lib.call_success_dominates(fn, first_toc, ph.bb):
                ctx.bad('ORDER-C03d', fn, 'header is persisted before the TOC/footer it points to is written and synced', line=ph.line, detail='header-before-toc')


def _culprit(ts, fn, ent, exit_bb):
    """the effectful call closest to the exit after which the state is unsynced"""
    best = None
    for c in fn.calls():
        st = ent[c.bb]
        if st is None:
            continue
        after = ts.transfer_call(fn, c, st)
        if after == UNSYNCED and (st == CLEAN or ts.effects(fn).get(c.bb) == 'W') and exit_bb in fn.reachable(c.bb):
            # prefer the one from which no later sync dominates... approximate by latest line
            if best is None or (c.line or 0) > (best.line or 0):
                best = c
    return best.key if best else 'entry state'
