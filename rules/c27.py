"""C27 — memory-card queries are temporally consistent (sibling agreement).

Decided:
  AGREE-C27a  get_at_time is get_current with exactly one extra stage: both take their cards from get_cards(entity,
              slot), order them with the *same* comparator (effective_timestamp, descending: cmp(b_time, a_time)) and
              select with the *same* predicate find(!is_retracted); get_at_time additionally filters, before the
              ordering, with `effective_timestamp() <= timestamp` (the parameter). By the semantics of filter/sort/find
              this gives: never a card after t, never a retraction, and equality with get_current when every card
              passes the filter. Compared on normalised HIR trees (alpha-renamed, positions stripped).
  AGREE-C27b  effective_timestamp and is_retracted are the same callees in both; Memvid's public wrappers
              (get_current_memory / get_memory_at_time) delegate to these two functions with their own arguments.
  MPT-C27c    persistence across recovery: rebuild_indexes (which open-time WAL replay reaches) rewrites the card and
              graph tracks from the handle's in-memory state and clears their TOC manifests when that state is empty.
              So in open_locked the loader of every such track (the callee that stores Memvid.<track>) must run
              before recover_wal, never after it - otherwise a replay persists an empty track over the committed one.
              The set of tracks is read off rebuild_indexes (Toc fields it sets to None on a test of their in-memory
              twin on Memvid), not listed by hand.
  MPT-C27d    cards reach the next commit: cards live only in the handle's memory until a commit persists the track, and
              Drop commits only a dirty handle. In put_internal a mutation of Memvid.memories_track that can follow a
              commit() inside the same call (the auto-checkpoint) must itself be followed by `dirty = true` before the
              Ok exit - otherwise the cards of the very put that tripped the checkpoint are dropped at close.
Not decided: persistence round-trip of the card set (values)."""
from . import lib, hirtree as H
from .facts import op_place


def loaders_before_replay(ctx, F):
    ctx.rule('MPT-C27c', 'open_locked loads every track that rebuild_indexes re-persists from memory before recover_wal')
    rb = ctx.need('MPT-C27c', 'Memvid::rebuild_indexes')
    ol = ctx.need('MPT-C27c', 'Memvid::open_locked')
    if rb is None or ol is None:
        return
    ctx.touch(ol, len(ol.blocks))
    rw = ol.calls_to('Memvid::recover_wal')
    if not rw:
        ctx.lost('MPT-C27c', 'open_locked no longer calls recover_wal')
        return
    mem = F.adt('Memvid')
    mem_fields = {f['name'] for v in mem['variants'] for f in v['fields']} if mem else set()
    tracks = set()
    for st in lib.field_stores(rb, 'Toc'):
        fo = st['lhs'].field_owners()
        if fo[-1][0] == 'Toc' and fo[-1][1] in mem_fields and 'Option::None' in lib.slice_back(rb, lib.rv_operands(st['rv']), through_calls=False, at=(st['bb'], st['idx'])).aggs:
            # ... and the manifest is cleared *because the in-memory twin is empty* (a test on Memvid.<track> decides it)
            f = fo[-1][1]
            cond = False
            for bs in lib.bool_switches(rb):
                for edge in (bs['t_true'], bs['t_false']):
                    if lib.edge_dominates(rb, bs['bb'], edge, st['bb']) and \
                            lib.slice_back(rb, [{'c': {'l': bs['local'], 'p': []}}], through_calls=True, at=(bs['bb'], None)).has_field('Memvid', f):
                        cond = True
            if cond:
                tracks.add(f)
    ctx.floor('MPT-C27c', len(tracks), 2, 'tracks rebuild_indexes re-persists from in-memory state (memories_track, logic_mesh)')
    sb, _ = ol.success_block(rw[0])
    after = ol.reachable(sb) if sb is not None else set()
    for t in sorted(tracks):
        loaders = []
        for c in ol.calls():
            lc = c.local_callee
            if lc and lc in F.fns and lc != rw[0].local_callee:
                g = F.fns[lc]
                if any(st['lhs'].field_owners()[-1] == ('Memvid', t) for st in lib.field_stores(g, 'Memvid', t)):
                    loaders.append(c)
        ctx.evaluations += 1
        if not loaders:
            ctx.lost('MPT-C27c', 'open_locked: no loader of Memvid.%s found' % t)
            continue
        late = [c for c in loaders if c.bb in after]
        if late:
            ctx.bad('MPT-C27c', ol, '%s runs after recover_wal: a WAL replay at open calls rebuild_indexes with an empty in-memory %s and persists that (manifest cleared), '
                    'so the committed %s is lost after any crash recovery' % (late[0].key.split('::')[-1], t, t.replace('_', ' ')), line=late[0].line, sink='Toc.' + t, detail='loaded-after-replay:' + t)
        else:
            ctx.ok('MPT-C27c', ol, 'Memvid.%s is loaded (%s) before recover_wal' % (t, loaders[0].key.split('::')[-1]), line=loaders[0].line)


def cards_marked_dirty(ctx, F):
    ctx.rule('MPT-C27d', 'put_internal: a memories_track mutation after the in-call commit is followed by dirty = true before Ok')
    fn = ctx.need('MPT-C27d', 'Memvid::put_internal')
    if fn is None:
        return
    ctx.touch(fn, len(fn.blocks))
    muts = []
    for c in fn.calls():
        for a in c.args[:1]:
            p = op_place(a)
            if p is None or p.p:
                continue
            if any(t.field_owners() and t.field_owners()[-1] == ('Memvid', 'memories_track') for t in lib.mut_targets(fn, p.l)):
                muts.append(c)
    commits = fn.calls_to(('Memvid::commit', 'Memvid::commit_with_options'))
    dirty = {st['bb'] for st in lib.field_stores(fn, 'Memvid', 'dirty') if st['rv']['k'] == 'use' and st['rv']['a'].get('k', {}).get('v') is True}
    exits = {ex['bb'] for ex in fn.ok_exits() if ex['kind'] in ('ok', 'call')}
    ctx.floor('MPT-C27d', len(muts), 1, 'mutations of Memvid.memories_track in put_internal')
    if not commits:
        ctx.ok('MPT-C27d', fn, 'no commit inside put_internal: the dirty flag set with the append covers the cards')
        return
    for m in muts:
        ctx.evaluations += 1
        after_commit = any(m.bb in fn.reachable((fn.success_block(c)[0] if fn.success_block(c)[0] is not None else c.target), avoid=dirty) for c in commits)
        to_ok = bool(fn.reachable(m.target, avoid=dirty) & exits) if m.target is not None else False
        if after_commit and to_ok:
            ctx.bad('MPT-C27d', fn, '%s mutates the memories track after the in-call commit (auto-checkpoint) and Ok is reached without `dirty = true`: the cards of this put exist only in '
                    'memory, Drop does not commit a clean handle, and they are lost at close' % m.key.split('::')[-1], line=m.line, sink='Memvid.memories_track', detail='cards-after-commit-not-dirty')
        else:
            ctx.ok('MPT-C27d', fn, '%s: cards are covered by dirty = true before Ok' % m.key.split('::')[-1], line=m.line)


def run(ctx):
    loaders_before_replay(ctx, ctx.facts())
    cards_marked_dirty(ctx, ctx.facts())
    ctx.rule('AGREE-C27a', 'get_at_time == get_current + one filter stage (effective_timestamp() <= timestamp) before the same sort and find')
    ctx.rule('AGREE-C27b', 'Memvid wrappers delegate to MemoriesTrack::get_current / get_at_time with their own arguments')
    F = ctx.facts()
    cur = ctx.need('AGREE-C27a', 'MemoriesTrack::get_current')
    at = ctx.need('AGREE-C27a', 'MemoriesTrack::get_at_time')
    if cur is None or at is None:
        return
    bc, ba = H.body(cur), H.body(at)
    if bc is None or ba is None:
        ctx.lost('AGREE-C27a', 'HIR trees of get_current/get_at_time missing from the fact file')
        return
    ctx.touch(cur, len(list(H.walk(bc))))
    ctx.touch(at, len(list(H.walk(ba))))
    seq_c = [m['name'] for m in H.mcalls(bc, into_closures=False)]
    seq_a = [m['name'] for m in H.mcalls(ba, into_closures=False)]
    # stage order is evaluation order: innermost receiver first
    def stages(b):
        out = []
        for m in H.mcalls(b, into_closures=False):
            out.append(m['name'])
        return out
    sa = [x for x in stages(ba) if x not in ('filter', 'collect')]
    sc = stages(bc)
    # into_iter appears once more in get_at_time (to feed the filter)
    sa_cmp = sorted(sa)
    sc_cmp = sorted(sc + ['into_iter'])
    if sa_cmp == sc_cmp and stages(ba).count('filter') == 1:
        ctx.ok('AGREE-C27a', at, 'stage sets agree: %s vs %s + filter' % (sorted(set(sc)), sorted(set(sc))))
    else:
        ctx.bad('AGREE-C27a', at, 'get_at_time is not get_current plus one filter stage (stages %s vs %s)' % (stages(ba), stages(bc)), detail='stage-sets')
    for name, what in (('sort_by', 'ordering comparator'), ('find', 'selection predicate')):
        mc, ma = H.mcalls(bc, name, False), H.mcalls(ba, name, False)
        ctx.evaluations += 1
        if len(mc) == 1 and len(ma) == 1 and H.closure_arg(mc[0]) and H.closure_arg(ma[0]) and H.same(H.closure_arg(mc[0]), H.closure_arg(ma[0])):
            ctx.ok('AGREE-C27a', at, 'same %s in both functions' % what, line=ma[0].get('l'))
        else:
            ctx.bad('AGREE-C27a', at, 'the %s of get_at_time differs from get_current\'s' % what, line=(ma[0].get('l') if ma else None), detail='closure-differs:' + name)
    # the comparator is descending on effective_timestamp: cmp(b_time, &a_time)
    mc = H.mcalls(bc, 'sort_by', False)
    if mc:
        cl = H.closure_arg(mc[0])
        params = [p.get('name') for p in cl.get('params', [])]
        binds = {}
        for n in H.walk(cl):
            if n.get('k') == 'slet' and n.get('pat', {}).get('k') == 'p_bind':
                calls = [m for m in H.mcalls(n) if m.get('name') == 'effective_timestamp']
                if calls:
                    v = [x for x in H.walk(calls[0]) if x.get('k') == 'var']
                    binds[n['pat']['name']] = v[0]['name'] if v else None
        cmpc = [m for m in H.mcalls(cl) if m.get('name') in ('cmp', 'partial_cmp')]
        ok = False
        if cmpc and len(params) == 2:
            vs = [x['name'] for x in H.walk(cmpc[0]) if x.get('k') == 'var']
            if len(vs) >= 2 and binds.get(vs[0]) == params[1] and binds.get(vs[1]) == params[0]:
                ok = True
            if len(vs) >= 2 and vs[0] == params[1] and vs[1] == params[0]:
                ok = True
        has_rev = any(m.get('name') == 'reverse' for m in H.mcalls(cl))
        ctx.evaluations += 1
        if ok and not has_rev:
            ctx.ok('AGREE-C27a', cur, 'comparator orders by effective_timestamp descending (cmp(b, a))', line=mc[0].get('l'))
        else:
            ctx.bad('AGREE-C27a', cur, 'comparator is not effective_timestamp descending', line=mc[0].get('l'), detail='comparator-orientation')
    # the find predicate is !is_retracted
    mf = H.mcalls(bc, 'find', False)
    if mf:
        cl = H.closure_arg(mf[0])
        un = [n for n in H.walk(cl) if n.get('k') == 'un' and n.get('op') == '!']
        if un and any(m.get('name') == 'is_retracted' for m in H.mcalls(un[0])):
            ctx.ok('AGREE-C27a', cur, 'selection = first card that is not a retraction', line=mf[0].get('l'))
        else:
            ctx.bad('AGREE-C27a', cur, 'selection predicate is not !is_retracted()', line=mf[0].get('l'), detail='find-predicate')
    # the extra filter: effective_timestamp() <= timestamp, applied before sort_by
    mfil = H.mcalls(ba, 'filter', False)
    ctx.evaluations += 1
    if len(mfil) == 1:
        cl = H.closure_arg(mfil[0])
        bins = [n for n in H.walk(cl) if n.get('k') == 'bin']
        tparam = [p.get('name') for p in at.r['hir'].get('params', [])][-1]
        good = False
        for b in bins:
            l, r = b['c'][0], b['c'][1]
            lcall = [m for m in H.mcalls(l) if m.get('name') == 'effective_timestamp']
            rcall = [m for m in H.mcalls(r) if m.get('name') == 'effective_timestamp']
            lvar = l.get('k') == 'var' and l.get('name') == tparam
            rvar = r.get('k') == 'var' and r.get('name') == tparam
            if (b['op'] == '<=' and lcall and rvar) or (b['op'] == '>=' and lvar and rcall):
                good = True
        src = [m for m in H.mcalls(mfil[0]) if m.get('name') == 'get_cards']
        sort_line = (H.mcalls(ba, 'sort_by', False) or [{}])[0].get('l') or 0
        before = (mfil[0].get('l') or 0) <= sort_line
        if good and src and before:
            ctx.ok('AGREE-C27a', at, 'extra stage: filter(effective_timestamp() <= timestamp) over get_cards(..), before the ordering', line=mfil[0].get('l'))
        else:
            ctx.bad('AGREE-C27a', at, 'the time filter is not `effective_timestamp() <= timestamp` over all cards before the ordering (inclusive: %s, over get_cards: %s, before sort: %s)'
                    % (good, bool(src), before), line=mfil[0].get('l'), detail='time-filter')
    # both read the same source
    for fn, b in ((cur, bc), (at, ba)):
        g = H.mcalls(b, 'get_cards', False)
        vs = [x['name'] for x in H.walk(g[0]) if x.get('k') == 'var'] if g else []
        ps = [p.get('name') for p in fn.r['hir'].get('params', [])]
        if g and vs[:3] == ps[:3]:
            ctx.ok('AGREE-C27a', fn, 'cards come from get_cards(self, entity, slot)')
        else:
            ctx.bad('AGREE-C27a', fn, 'cards do not come from get_cards(self, entity, slot)', detail='card-source')
    # wrappers
    n = 0
    for f in F.fns.values():
        if f.is_closure or not f.r.get('impl_self', '').endswith('::Memvid'):
            continue
        for c in f.calls():
            if c.is_(('MemoriesTrack::get_current', 'MemoriesTrack::get_at_time')):
                n += 1
                sl = lib.slice_back(f, c.args[1:], through_calls=False, at=(c.bb, None))
                want = set(range(2, f.r['argc'] + 1))
                ctx.evaluations += 1
                if want <= sl.args and lib.slice_back(f, c.args[:1], through_calls=False).has_field('Memvid', 'memories_track'):
                    ctx.ok('AGREE-C27b', f, 'delegates to %s(self.memories_track, own arguments)' % c.key.split('::')[-1], line=c.line)
                else:
                    ctx.bad('AGREE-C27b', f, 'wrapper does not pass its own arguments through to %s' % c.key.split('::')[-1], line=c.line, detail='wrapper-args')
    ctx.floor('AGREE-C27b', n, 2, 'Memvid wrappers of the card queries')
