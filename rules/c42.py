"""C42 — vacuum compacts without changing content.

Decided:
  WMC-C42a  inside vacuum (and its closures) the only Frame fields stored are payload_offset and payload_length; there
            is no store to status, id or any metadata field; toc.frames is not restructured (C06).
  FLOW-C42b the bytes written for a frame are the bytes read (read_frame_payload_bytes) for the frame with the same
            id (map keyed by frame.id, looked up by frame.id), and the new offset is the running cursor at that write;
            the write happens only on the Active edge.
  MPT-C42c  vacuum starts from a committed state (commit(ok) dominates everything) and returns Ok only through
            rebuild_indexes(ok) -> sync_all(ok).
  FLOW-C42d vacuum hands the file to rebuild_indexes, which must not truncate below header.footer_offset: the sketch track
            (and other tracks rebuild_indexes does not rewrite) lie between the payload end and the footer (shared with
            C28's FLOW-C28f).
Not decided: byte equality of contents before/after, search/timeline equality (values)."""
from . import lib
from .facts import Place, op_place

ALLOWED = {'payload_offset', 'payload_length'}


def run(ctx):
    from . import c28
    c28._truncate(ctx, ctx.facts(), rule='FLOW-C42d')
    # rebuild_indexes (called by vacuum) writes the index segments at payload_region_end() = cached_payload_end, whose open-time
    # seed must cover every frame's payload: shared with the C24 check (COVER-C24e)
    from . import c24
    c24.seed_coverage(ctx, ctx.facts())
    ctx.rule('WMC-C42a', 'vacuum stores only Frame.payload_offset / payload_length')
    ctx.rule('FLOW-C42b', 'payload written for a frame = payload read for the same frame id; offset = cursor; only for Active frames')
    ctx.rule('MPT-C42c', 'commit(ok) first; Ok only via rebuild_indexes(ok) -> sync_all(ok)')
    F = ctx.facts()
    fn = ctx.need('WMC-C42a', 'Memvid::vacuum')
    if fn is None:
        return
    bodies = [fn] + F.closures_of(fn)
    stored = set()
    for b in bodies:
        ctx.touch(b, len(b.blocks))
        for st in lib.field_stores(b, 'Frame'):
            f = [x for o, x in st['lhs'].field_owners() if o == 'Frame'][0]
            stored.add(f)
            ctx.evaluations += 1
            if f not in ALLOWED:
                ctx.bad('WMC-C42a', b, 'vacuum stores Frame.%s (only payload_offset/payload_length may change)' % f, line=st['line'], detail='frame-field-store:' + f)
        # whole-frame replacement through &mut
        for c in b.calls():
            if c.name in ('replace', 'swap', 'take') and 'mem' in (c.callee or ''):
                sl = lib.slice_back(b, c.args[:1], through_calls=False)
                if sl.has_field('Toc', 'frames'):
                    ctx.bad('WMC-C42a', b, 'vacuum replaces a Frame wholesale', line=c.line, detail='frame-replaced')
    if ALLOWED <= stored:
        ctx.ok('WMC-C42a', fn, 'stores exactly Frame.{payload_offset, payload_length}')
    else:
        ctx.lost('WMC-C42a', 'vacuum no longer relocates payloads (stores %s)' % sorted(stored))
    # ---- b
    writes = [c for c in fn.calls() if c.is_(('Write::write_all', '<File as Write>::write_all'))]
    reads = fn.calls_to('Memvid::read_frame_payload_bytes')
    if not writes or not reads:
        ctx.lost('FLOW-C42b', 'vacuum: payload read/write anchors not found')
    for w in writes:
        ctx.evaluations += 1
        sl = lib.slice_back(fn, w.args[1:2], through_calls=True, at=(w.bb, None))
        getc = [c for c in sl.calls if c.name == 'get' and 'HashMap' in (c.callee or '')]
        ins = [c for c in fn.calls() if c.name == 'insert' and 'HashMap' in (c.callee or '')]
        ok = bool(getc) and bool(ins)
        if ok:
            k_get = lib.slice_back(fn, getc[0].args[1:2], through_calls=False, at=(getc[0].bb, None))
            k_ins = lib.slice_back(fn, ins[0].args[1:2], through_calls=False, at=(ins[0].bb, None))
            v_ins = lib.slice_back(fn, ins[0].args[2:3], through_calls=True, at=(ins[0].bb, None))
            ok = k_get.has_field('Frame', 'id') and k_ins.has_field('Frame', 'id') and any(c in v_ins.calls for c in reads)
        if ok:
            # all reads happen before the first in-place write (payloads are buffered first)
            interleaved = [r for r in reads if r.bb in fn.reachable(w.bb) and w.bb in fn.reachable(r.bb)]
            if interleaved:
                ok = False
        if ok:
            ctx.ok('FLOW-C42b', fn, 'bytes written = bytes read for the frame with the same id; every payload is read before the first one is rewritten', line=w.line)
        elif any(r.bb in fn.reachable(w.bb) and w.bb in fn.reachable(r.bb) for r in reads):
            ctx.bad('FLOW-C42b', fn, 'vacuum reads payloads in the same loop that rewrites them in place: payload offsets are not monotone in the frame id (a payload-reusing update points a later '
                    'frame at an earlier location), so a payload can be overwritten before it is read', line=w.line, detail='read-after-inplace-write')
        else:
            ctx.bad('FLOW-C42b', fn, 'the payload written for a frame is not the payload read for that frame id', line=w.line, detail='payload-identity')
        act = lib.holds_variant_at(fn, w.bb, 'Frame', 'status', 'FrameStatus', 'Active')
        if not act and getc and all(lib.holds_variant_at(fn, g.bb, 'Frame', 'status', 'FrameStatus', 'Active') for g in getc):
            # `let retained = match status { Active => map.get(id), _ => None }; let Some(bytes) = retained else {..}`: the bytes written
            # can only be the ones looked up on the Active arm (data dependence instead of control dominance)
            act = True
        if act:
            ctx.ok('FLOW-C42b', fn, 'payload rewritten only on the status == Active edge', line=w.line)
        else:
            ctx.bad('FLOW-C42b', fn, 'payload rewrite is not guarded by status == Active', line=w.line, detail='rewrite-inactive')
    for st in lib.field_stores(fn, 'Frame', 'payload_offset'):
        k = st['rv'].get('a', {}).get('k') if st['rv']['k'] == 'use' else None
        if k is not None and k.get('v') == 0:
            continue
        sl = lib.slice_back(fn, lib.rv_operands(st['rv']), through_calls=False, at=(st['bb'], st['idx']))
        ctx.evaluations += 1
        if not (sl.has_field('Header', 'wal_offset') or ({'Add', 'AddWithOverflow'} & sl.ops)):
            ctx.bad('FLOW-C42b', fn, 'new payload_offset does not come from the write cursor', line=st['line'], detail='offset-source')
            continue
        # the offset is the cursor *before* it is advanced past this payload: on the way from the write to this store
        # the cursor local must not have been advanced
        cur = {op_place(o).l for o in lib.rv_operands(st['rv']) if op_place(o) is not None and not op_place(o).p}
        cur |= set().union(*[lib.root_of(fn, l) for l in cur]) if cur else set()
        d = lib.defs(fn)

        def is_add(rv):
            if rv['k'] == 'bin':
                return rv['op'] in ('Add', 'AddWithOverflow')
            if rv['k'] == 'use':
                q = op_place(rv['a'])
                if q is not None and q.p and q.fields() in (('0',), (0,)):
                    return any(x['kind'] == 'stmt' and x['rv']['k'] == 'bin' and x['rv']['op'] in ('Add', 'AddWithOverflow') for x in d.get(q.l, []))
            return False
        adv = [(bb, i) for bb, i, s2 in fn.stmts() if s2['lhs']['l'] in cur and not s2['lhs'].get('p') and len(d.get(s2['lhs']['l'], [])) >= 2 and is_add(s2['rv']) and
               any(w.bb in fn.reachable(bb) and bb in fn.reachable(w.bb) for w in writes)]
        early = False
        for w in writes:
            sbw, _ = fn.success_block(w)
            if sbw is None or st['bb'] not in fn.reachable(sbw):
                continue
            for abb, ai in adv:
                # is the advance on every path from the write to the store (or before it in the same block)?
                if abb == st['bb']:
                    early = early or ai < st['idx']
                elif st['bb'] not in fn.reachable(sbw, avoid={abb}) and abb in fn.reachable(sbw):
                    early = True
        if early:
            ctx.bad('FLOW-C42b', fn, 'payload_offset is taken from the cursor after it was advanced past the payload: the frame points at the end of its bytes', line=st['line'], detail='offset-after-advance')
        else:
            ctx.ok('FLOW-C42b', fn, 'new payload_offset = running cursor at the write (starts at wal_offset + wal_size, advanced afterwards)', line=st['line'])
    # ---- c
    cm = fn.calls_to('Memvid::commit')
    rb = fn.calls_to('Memvid::rebuild_indexes')
    sy = fn.calls_to('File::sync_all')
    if not (cm and rb and sy):
        ctx.bad('MPT-C42c', fn, 'vacuum lacks commit / rebuild_indexes / sync_all', detail='missing-step')
        return
    first_w = writes[0] if writes else rb[0]
    if lib.call_success_dominates(fn, cm[0], first_w.bb):
        ctx.ok('MPT-C42c', fn, 'commit succeeds before any payload is moved', line=cm[0].line)
    else:
        ctx.bad('MPT-C42c', fn, 'payloads are moved before pending records were committed', line=cm[0].line, detail='vacuum-before-commit')
    ok, why = lib.ordered_on_all_ok_paths(fn, [rb[-1], sy[-1]])
    if ok:
        ctx.ok('MPT-C42c', fn, 'Ok only through rebuild_indexes -> sync_all', line=rb[-1].line)
    else:
        ctx.bad('MPT-C42c', fn, 'vacuum can return Ok without rebuilding indexes and syncing: ' + why, detail='vacuum-tail')
