"""C02 — process-crash atomicity (commit staging discipline).

Decided:
  WMC-C02a  commit_from_records (the function that materialises WAL records into the data region and checkpoints for
            `commit`) is called only from a closure handed to with_staging_lock; commit, commit_with_options,
            enable_lex, vacuum and the auto-checkpoints reach it only through that edge.
  MPT-C02b  with_staging_lock: the rename (CommitStaging::commit) is dominated by the Ok arm of op(self) and by the sync
            of the staging handle; the Err arm of op reaches CommitStaging::discard and restores the saved file, WAL,
            header, TOC, data_end, generation and dirty flag; the saved original handle is not written between the swap
            and the match on op's result.
  WMC-C02c  reference table: for every public Memvid entry point, the set of functions that write the *live* file in
            place (outside a staging closure, excluding writes to the staging object) is frozen as confirmed on the
            pinned tree. A new entry point that mutates the committed file in place, or a new in-place writer under an
            existing entry point, is reported. The table does NOT assert that the listed in-place paths are
            crash-atomic: that part of C02 (state after every syscall prefix) is not claimed.
  COVER-C02d when the embedded WAL grows, every committed byte behind it moves by `delta`
            (shift_data_for_wal_growth) and the TOC is rewritten in place: every file offset stored in the TOC must be
            moved with it. The set of offset fields is read off the type graph of Toc (u64 fields named *offset,
            reached through Option/Vec/struct fields); adjust_offsets_after_wal_growth must add delta to each
            (owner type, field). An offset field it misses makes the rewritten TOC point `delta` bytes too low, so the
            next open (process crash before the next commit) reads garbage or fails. Both growth paths
            (grow_wal_region, ensure_wal_capacity) call the adjuster after the shift and before rewrite_toc_footer.
Not decided: recoverability after a crash at each file-system mutation (crash points)."""
import re
from . import lib, effects
from .facts import Place, op_place

STAGED = 'Memvid::commit_from_records'
RESTORED = ('file', 'wal', 'header', 'toc', 'data_end', 'generation', 'dirty')

W_WAL = 'EmbeddedWal::seek_and_write'
W_HDR = 'HeaderCodec::write'
W_TOC = 'Memvid::rewrite_toc_footer'
W_SHIFT = 'Memvid::shift_data_for_wal_growth'
W_APPLY = 'Memvid::apply_records'
W_REB = 'Memvid::rebuild_indexes'
W_LEX = 'Memvid::update_embedded_lex_snapshot'
PUT = {W_WAL, W_HDR, W_TOC, W_SHIFT}
OPENREC = {W_WAL, 'HeaderCodec::read', W_HDR, W_APPLY, W_REB, W_TOC, W_SHIFT, W_LEX, 'Memvid::persist_memories_track', 'Memvid::persist_clip_index',
           'Memvid::persist_logic_mesh', 'Memvid::persist_sketch_track', 'Memvid::append_lex_segment', 'Memvid::append_vec_segment', 'Memvid::append_time_segment',
           'Memvid::append_tantivy_segment', 'Memvid::publish_tantivy_delta', 'io::time_index::append_track'}
DOCTOR = OPENREC | {'DoctorExecutor::reset_wal', 'DoctorExecutor::aggressive_header_repair', 'memvid::doctor::try_recover_from_wal_corruption', 'Memvid::vacuum'}
INPLACE = {
    '<Memvid as Drop>::drop': ({W_WAL}, 'drop commits through staging; only the post-rename WAL sentinel is written in place'),
    'Memvid::commit': ({W_WAL}, 'post-rename EmbeddedWal::open sentinel'),
    'Memvid::commit_with_options': ({W_WAL}, 'post-rename EmbeddedWal::open sentinel'),
    'Memvid::apply_ticket': ({W_HDR, W_TOC}, 'ticket: in-place TOC/footer + header rewrite'),
    'Memvid::apply_signed_ticket': ({W_HDR, W_TOC}, 'ticket: in-place TOC/footer + header rewrite'),
    'Memvid::bind_memory': ({W_HDR, W_TOC}, 'binding stored through apply_ticket'),
    'Memvid::search': ({W_HDR, W_TOC}, 'lazy init_tantivy -> align_footer_with_catalog (see C18 candidate)'),
    'Memvid::ask': ({W_HDR, W_TOC}, 'via search'),
    'Memvid::audit': ({W_HDR, W_TOC}, 'via ask'),
    'Memvid::begin_batch': (PUT, 'WAL pre-sizing (documented not crash-safe)'),
    'Memvid::commit_skip_indexes': ({W_WAL, W_HDR, W_APPLY, W_TOC}, 'documented: skips the staging lock, not crash-safe'),
    'Memvid::finalize_indexes': (OPENREC, 'in-place index rebuild after bulk ingestion'),
    'Memvid::create': ({W_WAL, W_HDR, 'Memvid::create', W_TOC}, 'initial layout of a new file'),
    'Memvid::delete_frame': (PUT, 'WAL append, WAL growth, sentinel'),
    'Memvid::put_bytes': (PUT, 'WAL append, WAL growth, sentinel'),
    'Memvid::put_bytes_with_options': (PUT, 'WAL append, WAL growth, sentinel'),
    'Memvid::put_with_chunk_embeddings': (PUT, 'WAL append, WAL growth, sentinel'),
    'Memvid::put_with_embedding': (PUT, 'WAL append, WAL growth, sentinel'),
    'Memvid::put_with_embedding_and_options': (PUT, 'WAL append, WAL growth, sentinel'),
    'Memvid::update_frame': (PUT, 'WAL append, WAL growth, sentinel'),
    'Memvid::enable_lex': ({W_WAL, W_HDR, W_TOC}, 'commit through staging + lazy Tantivy init'),
    'Memvid::vacuum': (OPENREC | {'Memvid::vacuum'}, 'in-place payload compaction + index rebuild'),
    'Memvid::open': (OPENREC, 'open-time recovery (WAL replay, TOC recovery, header repair)'),
    'Memvid::open_read_only': (OPENREC, 'allow_repair opt-in delegates to open'),
    'Memvid::open_read_only_with_options': (OPENREC, 'allow_repair opt-in delegates to open'),
    'Memvid::verify': (OPENREC, 'opens read-only (see C18)'),
    'Memvid::doctor': (DOCTOR, 'repair tool'),
    'Memvid::doctor_apply': (DOCTOR, 'repair tool'),
    'Memvid::commit_parallel': ({W_WAL}, 'feature parallel_segments: commit through staging; post-rename WAL sentinel'),
    'Memvid::put_parallel': (PUT, 'feature parallel_segments: WAL append, WAL growth, sentinel'),
    'Memvid::put_parallel_inputs': (PUT, 'feature parallel_segments: WAL append, WAL growth, sentinel'),
    'Memvid::doctor_plan': ({W_WAL, 'HeaderCodec::read'}, 'probe opens the WAL; legacy header bytes'),
}


# u64 fields named *offset in the Toc type graph that are not positions in the memory file
NOT_FILE_OFFSETS = {
    ('Frame', 'chunk_offset'): 'position inside the parent document text',
}


# manifest collections whose offsets the adjuster skips in the default configuration; not reproduced (they are only filled by
# feature-gated writers), so reported as candidates
CANDIDATE_ANCHORS = {
    ('SegmentCatalog', 'index_segments'): 'filled only by the parallel_segments builder; no adjustment exists in any configuration (a file written with that feature and grown afterwards would keep stale offsets); not reproduced',
    ('SegmentCatalog', 'temporal_segments'): 'adjusted only when the temporal_track feature is compiled in; a default build preserves the entries of a file written with the feature without moving them; not reproduced',
}


def toc_offset_fields(F, root='types::manifest::Toc'):
    """(owner adt name, field) of every u64 `*offset` field reachable through the type graph of Toc, the set of types
    visited, and - per offset field - the *anchors*: the Option/Vec-typed field on the way that names the manifest
    instance holding it (('SegmentCatalog','tantivy_segments') for the Tantivy segment descriptors' bytes_offset)."""
    out, seen = set(), set()
    anchors = {}

    def walk(p, path):
        if p not in F.adts or len(path) > 8:
            return
        seen.add(p)
        a = F.adts[p]
        for v in a['variants']:
            for fld in v['fields']:
                ty = fld['ty']
                here = path + [(a['name'], fld['name'], ty)]
                if ty == 'u64' and fld['name'].endswith('offset'):
                    out.add((a['name'], fld['name']))
                    anc = [(o, f) for o, f, t in here[:-1] if 'Option<' in t or 'Vec<' in t]
                    anchors.setdefault((a['name'], fld['name']), set()).add(anc[-1] if anc else (here[0][0], here[0][1]))
                for q in re.findall(r'[A-Za-z_][A-Za-z0-9_:]*', ty):
                    if q in F.adts and q != p and not any(q.endswith('::' + o) for o, f, t in path):
                        walk(q, here)
    walk(root, [])
    toc_offset_fields.anchors = anchors
    return out, seen


def adjusted_fields(F, fn, delta_arg=2):
    """(owner, field) stores in fn (and its closures) whose new value is old value (+) the delta parameter; as a side result
    adjusted_fields.anchors = the Toc fields (manifest instances) whose elements those stores go through"""
    out = set()
    anchors = set()
    for b in [fn] + F.closures_of(fn):
        for st in lib.field_stores(b):
            fo = st['lhs'].field_owners()
            if not fo:
                continue
            sl = lib.slice_back(b, lib.rv_operands(st['rv']), through_calls=True, at=(st['bb'], None))
            if (delta_arg in sl.args or b is not fn) and ({'Add', 'AddWithOverflow'} & sl.ops or any(c.name in ('saturating_add', 'checked_add', 'wrapping_add') for c in sl.calls)) and fo[-1] in {x for x in sl.fields}:
                out.add(fo[-1])
                anchors |= set(fo)
                base = lib.slice_back(b, [{'c': {'l': st['lhs'].l, 'p': []}}], through_calls=True, at=(st['bb'], st['idx']))
                anchors |= {(o, f) for o, f in base.fields if o}
    adjusted_fields.anchors = anchors
    return out


def growth_host(F, g):
    """the function holding the growth steps of g: g itself, or the private helper the steps were extracted into (the call to the
    helper must lie on g's way out: every Ok exit of g past the call is the helper's success)"""
    if g.calls_to('Memvid::shift_data_for_wal_growth'):
        return g
    for c in g.calls():
        h = F.fns.get(c.local_callee) if c.local_callee else None
        if h is not None and not h.is_closure and h.calls_to('Memvid::shift_data_for_wal_growth'):
            return h
    return g


def growth_protocol(ctx, F, g, rule):
    """a WAL-growth path must, on every Ok path and in this order: shift the data, adjust the TOC offsets, rewrite the
    TOC + footer, persist the header, sync"""
    g = growth_host(F, g)
    steps = [('shift_data_for_wal_growth', g.calls_to('Memvid::shift_data_for_wal_growth')),
             ('adjust_offsets_after_wal_growth', g.calls_to('Memvid::adjust_offsets_after_wal_growth')),
             ('rewrite_toc_footer', g.calls_to('Memvid::rewrite_toc_footer')),
             ('persist_header', g.calls_to('persist_header')),
             ('sync_all', g.calls_to('File::sync_all'))]
    ctx.evaluations += len(steps)
    missing = [n for n, cs in steps if not cs]
    if missing:
        ctx.bad(rule, g, 'the growth path moves the data region but never calls %s: the file keeps a TOC / header whose offsets are %s bytes too low, and an open before the next commit '
                'reads the wrong bytes' % (', '.join(missing), 'delta'), detail='growth-step-missing:' + ','.join(missing))
        return
    exits = [ex for ex in g.ok_exits() if lib.call_success_dominates(g, steps[0][1][0], ex['bb'])]
    order_ok = all(g.dominates(a[1][0].bb, b[1][0].bb) and a[1][0].bb != b[1][0].bb for a, b in zip(steps, steps[1:]))
    reach_ok = all(lib.call_success_dominates(g, cs[-1] if n == 'sync_all' else cs[0], ex['bb']) for n, cs in steps[2:] for ex in exits)
    if order_ok and reach_ok and exits:
        ctx.ok(rule, g, 'shift -> adjust offsets -> rewrite TOC -> persist header -> sync on every Ok path', line=steps[1][1][0].line)
    else:
        ctx.bad(rule, g, 'the growth steps are not ordered shift -> adjust offsets -> rewrite TOC -> persist header -> sync on every Ok path', detail='growth-order')


def direct_live_writes(fn):
    out = []
    for c in fn.calls():
        fe = effects.file_effect(fn, c)
        if fe and fe[0] == 'W' and fe[1] in ('M', 'P'):
            recv = c.args[1] if c.name == 'copy' else c.args[0]
            sl = lib.slice_back(fn, [recv], through_calls=True, at=(c.bb, None))
            if ('CommitStaging', 'atomic') in sl.fields:
                continue
            out.append(c)
    return out


def reach_outside_staging(F, root):
    seen = {}
    st = [root]
    while st:
        f = st.pop()
        if f.path in seen:
            continue
        seen[f.path] = f
        skip = set()
        for c in f.calls():
            if c.is_('Memvid::with_staging_lock'):
                skip |= lib.slice_back(f, c.args[1:2], through_calls=False, at=(c.bb, None)).closures
        for c in f.calls():
            lc = c.local_callee
            if lc and lc in F.fns and lc not in seen:
                st.append(F.fns[lc])
        for cl in F.closures_of(f):
            if cl.path in skip or any(cl.path.startswith(s + '::') for s in skip):
                continue
            if cl.path not in seen:
                st.append(cl)
    return seen


def handle_positions_moved(ctx, F, rule, only=None):
    """the handle's own cached positions into the data region (u64 fields *_end / *offset of Memvid) move with the data in both
    growth paths: stored as themselves plus something (delta)"""
    mem = F.adt('Memvid')
    mem_pos = sorted(f['name'] for v in (mem['variants'] if mem else []) for f in v['fields'] if f['ty'] == 'u64' and (f['name'].endswith('_end') or f['name'].endswith('offset')))
    ctx.floor(rule + ':handle', len(mem_pos), 2, 'file-position fields of the handle (data_end, cached_payload_end)')
    for key in ('Memvid::grow_wal_region', 'Memvid::ensure_wal_capacity'):
        g = ctx.need(rule, key)
        if g is None:
            continue
        g = growth_host(F, g)
        ctx.touch(g, len(g.blocks))
        for fld in mem_pos:
            if only is not None and fld not in only:
                continue
            moved = False
            for st in lib.field_stores(g, 'Memvid', fld):
                if st['lhs'].field_owners()[-1] != ('Memvid', fld):
                    continue
                sl = lib.slice_back(g, lib.rv_operands(st['rv']), through_calls=True, at=(st['bb'], st['idx']))
                if sl.has_field('Memvid', fld) and ({'Add', 'AddWithOverflow'} & sl.ops or any(c.name in ('saturating_add', 'checked_add', 'wrapping_add') for c in sl.calls)):
                    moved = True
            ctx.evaluations += 1
            if moved:
                ctx.ok(rule, g, 'Memvid.%s is moved by delta' % fld)
            else:
                ctx.bad(rule, g, 'Memvid.%s is a position in the data region cached on the handle, but this growth path does not move it by delta: the next commit that inserts nothing '
                        'rebuilds the indexes (and places later payloads) at the stale position, and the capacity guard reads a usage that is too low' % fld, sink='Memvid.' + fld, detail='handle-position-not-shifted:' + fld)


def run(ctx):
    ctx.rule('WMC-C02a', 'commit_from_records is called only from a closure passed to with_staging_lock')
    ctx.rule('MPT-C02b', 'with_staging_lock: rename only after op Ok + sync; Err arm discards the staging file and restores the saved state')
    ctx.rule('WMC-C02c', 'frozen table: public entry point -> functions that write the live file in place (outside staging)')
    F = ctx.facts()
    # ---- a
    callers = [(f, c) for f in F.fns.values() for c in f.calls() if c.is_(STAGED)]
    ctx.evaluations += len(F.fns)
    ctx.floor('WMC-C02a', len(callers), 1, 'call sites of commit_from_records')
    staged_closures = set()
    for f in F.fns.values():
        for c in f.calls_to('Memvid::with_staging_lock'):
            staged_closures |= lib.slice_back(f, c.args[1:2], through_calls=False, at=(c.bb, None)).closures
    for f, c in callers:
        if f.is_closure and f.path in staged_closures:
            ctx.ok('WMC-C02a', f, 'commit_from_records runs inside a with_staging_lock closure', line=c.line)
        else:
            ctx.bad('WMC-C02a', f, 'commit_from_records is called outside the staging closure: the commit would rewrite the live file in place', line=c.line, detail='unstaged-commit')
    # ---- b
    w = ctx.need('MPT-C02b', 'Memvid::with_staging_lock')
    if w is not None:
        ctx.touch(w, len(w.blocks))
        ops = [c for c in w.calls() if c.name in ('call_once', 'call_mut', 'call') and not c.t.get('res_local')]
        ren = w.calls_to('CommitStaging::commit')
        dis = w.calls_to('CommitStaging::discard')
        syn = w.calls_to('File::sync_all')
        if len(ops) != 1 or not ren:
            ctx.lost('MPT-C02b', 'with_staging_lock anchors: op call %d, commit %d, discard %d' % (len(ops), len(ren), len(dis)))
        else:
            op = ops[0]
            ctx.evaluations += 4
            for r in ren:
                if lib.call_success_dominates(w, op, r.bb):
                    ctx.ok('MPT-C02b', w, 'rename only on the Ok arm of op(self)', line=r.line)
                else:
                    ctx.bad('MPT-C02b', w, 'the staged file can be renamed into place although op(self) failed or has not run', line=r.line, detail='rename-not-after-op-ok')
            sb, _ = w.success_block(op)
            for r in ren:
                if not lib.call_success_dominates(w, op, r.bb):
                    continue
                if any(lib.call_success_dominates(w, s, r.bb) and sb is not None and w.dominates(sb, s.bb) for s in syn):
                    ctx.ok('MPT-C02b', w, 'staging handle synced between op Ok and the rename', line=r.line)
                else:
                    ctx.bad('MPT-C02b', w, 'no sync of the staging handle between op Ok and the rename', line=r.line, detail='rename-without-sync')
            # Err arm: discard + restore
            err_blocks = [b for b in w.reachable(op.target) if sb is not None and not w.dominates(sb, b) and b not in w.reachable(sb)]
            if any(d.bb in err_blocks for d in dis):
                ctx.ok('MPT-C02b', w, 'the Err arm of op discards the staging file', line=dis[0].line if dis else None)
            else:
                ctx.bad('MPT-C02b', w, 'the Err arm of op does not discard the staging file', detail='err-without-discard')
            restored = set()
            for st in lib.field_stores(w, 'Memvid'):
                if st['bb'] in err_blocks:
                    restored |= {f for o, f in st['lhs'].field_owners() if o == 'Memvid'}
            # the restore block extracted into a private method called on the Err arm: its stores count
            for c in w.calls():
                h = F.fns.get(c.local_callee) if c.local_callee else None
                if h is not None and c.bb in err_blocks and not h.is_closure and (h.r.get('impl_self') or '').endswith('::Memvid'):
                    ctx.touch(h, len(h.blocks))
                    for st in lib.field_stores(h, 'Memvid'):
                        restored |= {f for o, f in st['lhs'].field_owners() if o == 'Memvid'}
            missing = [f for f in RESTORED if f not in restored]
            if not missing:
                ctx.ok('MPT-C02b', w, 'Err arm restores %s' % ', '.join(RESTORED))
            else:
                ctx.bad('MPT-C02b', w, 'the Err arm does not restore %s: a failed commit leaves the handle on the abandoned staging state' % ', '.join(missing), detail='err-restore:' + ','.join(missing))
            # the prepare + copy precede the swap
            cp = w.calls_to('CommitStaging::copy_from')
            rp = [c for c in w.calls() if c.name == 'replace' and 'mem' in (c.callee or '')]
            if cp and rp and all(lib.call_success_dominates(w, cp[0], r.bb) for r in rp):
                ctx.ok('MPT-C02b', w, 'the live file is copied into the staging file before the handles are swapped', line=cp[0].line)
            else:
                ctx.bad('MPT-C02b', w, 'handles are swapped before the staging copy succeeded', detail='swap-before-copy')
    # ---- d
    ctx.rule('COVER-C02d', 'every file-offset field in the Toc type graph is moved by adjust_offsets_after_wal_growth; both growth paths adjust after the shift and before the TOC rewrite')
    adj = ctx.need('COVER-C02d', 'Memvid::adjust_offsets_after_wal_growth')
    if adj is not None:
        ctx.touch(adj, len(adj.blocks))
        want, tys = toc_offset_fields(F)
        got = adjusted_fields(F, adj)
        ctx.evaluations += len(tys)
        ctx.floor('COVER-C02d', len(want), 8, 'file-offset fields in the Toc type graph')
        for owner, fld in sorted(want):
            if (owner, fld) in NOT_FILE_OFFSETS:
                ctx.ok('COVER-C02d', adj, '%s.%s is not a file position (%s)' % (owner, fld, NOT_FILE_OFFSETS[(owner, fld)]))
            elif (owner, fld) in got:
                missing_anchor = sorted(a for a in toc_offset_fields.anchors.get((owner, fld), ()) if a not in adjusted_fields.anchors)
                for a in [a for a in missing_anchor if a in CANDIDATE_ANCHORS]:
                    ctx.candidate('COVER-C02d', adj, '%s.%s held in %s.%s is not moved on WAL growth: %s' % (owner, fld, a[0], a[1], CANDIDATE_ANCHORS[a]), detail='offset-not-shifted-for:%s.%s' % a)
                missing_anchor = [a for a in missing_anchor if a not in CANDIDATE_ANCHORS]
                if missing_anchor:
                    ctx.bad('COVER-C02d', adj, '%s.%s is moved for some manifests but not for the ones held in %s: after a WAL growth those still point delta bytes before their data' % (
                        owner, fld, ', '.join('%s.%s' % a for a in missing_anchor)), sink='%s.%s' % (owner, fld), detail='offset-not-shifted-for:' + ','.join('%s.%s' % a for a in missing_anchor))
                else:
                    ctx.ok('COVER-C02d', adj, '%s.%s is moved by delta (%s)' % (owner, fld, ', '.join(sorted('%s.%s' % a for a in toc_offset_fields.anchors.get((owner, fld), ())))))
            else:
                ctx.bad('COVER-C02d', adj, '%s.%s is a file offset stored in the TOC but adjust_offsets_after_wal_growth does not move it: after a WAL growth the rewritten TOC '
                        'points %s bytes before the data, and an open before the next commit reads the wrong bytes' % (owner, fld, 'delta'), sink='%s.%s' % (owner, fld), detail='offset-not-shifted:%s.%s' % (owner, fld))
        handle_positions_moved(ctx, F, 'COVER-C02d')
        for key in ('Memvid::grow_wal_region', 'Memvid::ensure_wal_capacity'):
            g = ctx.need('COVER-C02d', key)
            if g is not None:
                growth_protocol(ctx, F, g, 'COVER-C02d')
    # ---- c
    n = 0
    entries = {e.key: e for e in lib.api_roots(F)}
    d = F.fn('<Memvid as Drop>::drop')
    if d is not None:
        entries[d.key] = d
    callers_by_key = {}
    for f in F.fns.values():
        owner = f
        while owner.is_closure and owner.r.get('parent') in F.fns:
            owner = F.fns[owner.r['parent']]
        for c in f.calls():
            t = F.fns.get(c.local_callee) if c.local_callee else None
            if t is not None and t.path != owner.path:
                callers_by_key.setdefault(t.key, set()).add(owner.key)
    found = {}
    for k, e in sorted(entries.items()):
        r = reach_outside_staging(F, e)
        ctx.evaluations += len(r)
        ws = sorted({f.key for f in r.values() if direct_live_writes(f)})
        if ws:
            found[k] = set(ws)
    ctx.floor('WMC-C02c', len(found), 20, 'public entry points with in-place writes')
    for k, ws in sorted(found.items()):
        fn = entries[k]
        if k not in INPLACE:
            ctx.bad('WMC-C02c', fn, 'new public entry point that writes the live file in place (outside the commit staging): %s' % ', '.join(sorted(ws)), detail='new-inplace-entry', sink=','.join(sorted(ws)))
            continue
        allowed, why = INPLACE[k]
        extra = ws - allowed
        # a block of a reviewed writer extracted into a private helper: a writer all of whose callers are reviewed writers of this
        # entry (or helpers excused the same way) adds no write the function-level review did not already cover
        changed = True
        while changed and extra:
            changed = False
            for x in sorted(extra):
                cs = callers_by_key.get(x, set())
                if cs and all(c in allowed or (c in ws and c not in extra) for c in cs):
                    extra.discard(x)
                    changed = True
        if extra:
            ctx.bad('WMC-C02c', fn, 'entry point gained in-place writer(s) %s outside the commit staging (reviewed set: %s)' % (', '.join(sorted(extra)), why),
                    detail='new-inplace-writer:' + ','.join(sorted(extra)), sink=','.join(sorted(extra)))
        else:
            ctx.ok('WMC-C02c', fn, 'in-place writers within the reviewed set (%s)' % why)
