"""Check context: rule-instance bookkeeping, known findings, evidence, verdict."""
import json, os, sys, time
from . import extract, facts as factsmod

VERIF = extract.VERIF


class AnchorLost(Exception):
    pass


class Ctx:
    def __init__(self, prop, tier, seed=0):
        self.prop = prop
        self.tier = tier
        self.seed = seed
        self.t0 = time.time()
        self.instances = []   # dict(rule, fn, at, verdict, reason, key, sample)
        self.evaluations = 0  # program points inspected
        self.fns_seen = set()
        self.calls_seen = 0
        self.floors = {}
        self.notes = []
        self._facts = {}
        self.facts_info = {}
        self.rules_doc = {}
        self.assumptions = []
        self.extra = {}
        self.config = 'default'

    # ----- facts
    def facts(self, config=None):
        config = config or self.config
        if config not in self._facts:
            path, info = extract.ensure_facts(config)
            self._facts[config] = factsmod.Facts(path)
            self.facts_info[config] = info
        return self._facts[config]

    # ----- bookkeeping
    def touch(self, fn, points=1):
        """record that `fn` was analysed and `points` program points were inspected"""
        if fn is not None:
            self.fns_seen.add(fn.path if hasattr(fn, 'path') else str(fn))
        self.evaluations += points

    def rule(self, rid, doc):
        self.rules_doc[rid] = doc

    def _add(self, verdict, rule, fn, reason, line=None, detail=None, sink=None, sample=None):
        fpath = fn.path if hasattr(fn, 'path') else (fn or '')
        at = fn.at(line) if hasattr(fn, 'at') else ''
        key = dict(rule=rule, fn=fpath, sink=sink or '', detail=detail or '')
        inst = dict(rule=rule, fn=fpath, at=at, verdict=verdict, reason=reason, key=key)
        if self.config != 'default':
            inst['config'] = self.config
        if sample is not None:
            inst['sample'] = sample
        self.instances.append(inst)
        if hasattr(fn, 'path'):
            self.fns_seen.add(fn.path)
        return inst

    def ok(self, rule, fn, reason, line=None, sample=None):
        return self._add('PASS', rule, fn, reason, line, sample=sample)

    def bad(self, rule, fn, reason, line=None, detail=None, sink=None, sample=None):
        """a violation instance; `detail`/`sink` form the line-free key used by known_findings"""
        return self._add('VIOLATION', rule, fn, reason, line, detail=detail, sink=sink, sample=sample)

    def lost(self, rule, what):
        """fail closed: an anchor or a hand-confirmed instance count disappeared"""
        return self._add('VIOLATION', rule, None, 'anchor-lost: ' + what, detail='anchor-lost: ' + what)

    def candidate(self, rule, fn, reason, line=None, detail=None):
        """a rule instance that fires but has not been reproduced against the real code: reported, never a verdict"""
        return self._add('CANDIDATE', rule, fn, reason, line, detail=detail)

    def absent(self, rule, what):
        """the anchor is compiled out in this configuration (not a pass, not a failure)"""
        return self._add('ABSENT', rule, None, what)

    def need(self, rule, key, config=None):
        """function by key or anchor-lost"""
        try:
            fn = self.facts(config).fn(key)
        except KeyError as e:
            self.lost(rule, str(e))
            return None
        if fn is None:
            self.lost(rule, 'function %s not found' % key)
        return fn

    def floor(self, rule, found, floor, what):
        self.floors[rule] = [found, floor]
        if found < floor:
            self.lost(rule, '%s: found %d, confirmed floor %d' % (what, found, floor))
            return False
        return True


def load_known():
    p = os.path.join(VERIF, 'known_findings.jsonl')
    out = []
    if os.path.exists(p):
        for line in open(p):
            line = line.strip()
            if line and not line.startswith('#') and not line.startswith('fixed:'):
                out.append(json.loads(line))
    return out


def finish(ctx, level_text=''):
    """Print the report, write evidence, return exit code."""
    known = [k for k in load_known() if k.get('property') == ctx.prop and k.get('status') == 'open']
    n_viol = 0
    used = set()
    for inst in ctx.instances:
        if inst['verdict'] == 'VIOLATION':
            for i, k in enumerate(known):
                kk = k['key']
                if all(inst['key'].get(f, '') == kk.get(f, '') for f in ('rule', 'fn', 'sink', 'detail')) \
                        and kk.get('config', inst.get('config', 'default')) == inst.get('config', 'default'):
                    inst['verdict'] = 'KNOWN-FINDING'
                    inst['known'] = k.get('what', '')
                    used.add(i)
                    break
            else:
                n_viol += 1
    ev_path = os.path.join(VERIF, 'evidence', '%s.json' % ctx.prop)
    for inst in ctx.instances:
        v = inst['verdict']
        cfg = (' config=%s' % inst['config']) if inst.get('config') else ''
        if v == 'KNOWN-FINDING':
            print('KNOWN-FINDING: property=%s rule=%s fn=%s%s detail=%s :: %s' % (
                ctx.prop, inst['rule'], inst['fn'], cfg, inst['key']['detail'], inst.get('known') or inst['reason']))
        else:
            print('%s property=%s rule=%s fn=%s at=%s%s :: %s' % (
                'FAIL' if v == 'VIOLATION' else v, ctx.prop, inst['rule'], inst['fn'], inst['at'], cfg, inst['reason']))
    for i, k in enumerate(known):
        if i not in used and k['key'].get('config', 'default') in ctx._facts:
            print('NOTE property=%s listed finding no longer reported: %s' % (ctx.prop, json.dumps(k['key'])))
    obligations = [i for i in ctx.instances if i['verdict'] not in ('ABSENT', 'CANDIDATE')]
    discharged = [i for i in obligations if i['verdict'] == 'PASS']
    distinct = {(i['rule'], i['fn'], i['key']['detail'], i.get('config', ''), i['reason']) for i in obligations
                if not i['reason'].startswith('anchor-lost')}
    samples = []
    seen_rules = set()
    for i in ctx.instances:  # one sample per rule first, then fill
        if i['rule'] not in seen_rules:
            seen_rules.add(i['rule'])
            samples.append({k: i[k] for k in ('rule', 'fn', 'at', 'verdict', 'reason') if k in i} | ({'sample': i['sample']} if 'sample' in i else {}))
    for i in ctx.instances:
        if len(samples) >= 40:
            break
        if i['verdict'] != 'PASS':
            s = {k: i[k] for k in ('rule', 'fn', 'at', 'verdict', 'reason') if k in i}
            if s not in samples:
                samples.append(s)
    cov = dict(
        explanation=('Static analysis of /repo\'s current sources (type-checked MIR/HIR extracted by the mvfacts '
                     'rustc driver). Rules applied: ' + '; '.join('%s = %s' % kv for kv in sorted(ctx.rules_doc.items()))),
        obligations=len(obligations),
        discharged=len(discharged),
        evaluations=max(ctx.evaluations, len(obligations)),
        distinct_nontrivial=len(distinct),
        rule=('one case = one rule instance (rule id, function, anchor); non-trivial = its anchor was found in the '
              'analysed code (anchor-lost instances are not counted); evaluations = MIR blocks / call sites / '
              'statements / tree nodes inspected'),
        samples=samples,
        functions_analysed=sorted(ctx.fns_seen),
        n_functions_analysed=len(ctx.fns_seen),
        facts=ctx.facts_info,
        floors=ctx.floors,
        known_findings=[i['key'] for i in ctx.instances if i['verdict'] == 'KNOWN-FINDING'],
        untriaged_candidates=[dict(rule=i['rule'], fn=i['fn'], config=i.get('config', 'default'), why=i['reason']) for i in ctx.instances if i['verdict'] == 'CANDIDATE'],
        absent=[dict(rule=i['rule'], config=i.get('config', 'default'), why=i['reason']) for i in ctx.instances if i['verdict'] == 'ABSENT'],
        checker_cmd='./check %s --tier %s' % (ctx.prop, ctx.tier),
        trusted_base=['rustc nightly front end / MIR construction / instance resolution',
                      'mvfacts MIR->JSON projection', 'effect table for external crates (rules/effects.py)'],
        exhaustive=False,
    )
    cov.update(ctx.extra)
    ev = dict(property_id=ctx.prop, tier=ctx.tier, seed=ctx.seed, level='other', coverage=cov,
              assumptions=ctx.assumptions + ['every CFG path is treated as feasible', 'external crates behave as their effect-table entry says'],
              wall_s=round(time.time() - ctx.t0, 3), violations=n_viol)
    os.makedirs(os.path.dirname(ev_path), exist_ok=True)
    tmp = ev_path + '.tmp'
    with open(tmp, 'w') as f:
        json.dump(ev, f, indent=1)
    os.replace(tmp, ev_path)
    print('SUMMARY property=%s tier=%s instances=%d pass=%d known=%d violations=%d functions=%d points=%d wall=%.1fs' % (
        ctx.prop, ctx.tier, len(obligations), len(discharged),
        sum(1 for i in ctx.instances if i['verdict'] == 'KNOWN-FINDING'), n_viol, len(ctx.fns_seen), ctx.evaluations,
        time.time() - ctx.t0))
    if n_viol:
        print('VIOLATION property=%s replay=%s' % (ctx.prop, ev_path))
        return 1
    return 0
