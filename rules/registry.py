"""Registry of claimed properties -> MANIFEST.json entries (tools/manifest.py renders it)."""

NOT_APPLICABLE = {
    "C21": "Doctor's guarantees (heals, preserves content, second run Clean) quantify over damaged/crash-left files and the values recovery computes from them; no structural clause is both necessary and specific to doctor - its one code-shape defect (assert on pending WAL records) is reported under C22.",
    "C33": "NFKC/whitespace/grapheme invariants are facts about string values produced by Unicode tables; no path-shape clause implies them.",
    "C34": "Partition/coverage of chunk ranges depends on arithmetic over char counts and boundary search; the only shape fact (next start = previous end) would fire on behaviour-preserving loop refactors.",
    "C35": "Snippet ranges are computed by saturating arithmetic and boundary walks over arbitrary byte offsets; in-bounds/ordered/non-overlapping is a value-range claim (symbolic family).",
    "C36": "Idempotence of regex masking is a property of the regex languages, not of the code's shape.",
    "C37": "Cut-off bounds and threshold semantics quantify over float score lists; needs interval/symbolic reasoning on loop indices.",
    "C38": "Equality of two floating-point summations up to rounding is numerical.",
    "C41": "Quantifies over thread schedules; Rust's type system already forces the shared handle through one Mutex, and lost-frame / exactly-once behaviour under interleavings is not a code-shape fact.",
}

# id -> dict(technique, text (what assurance), note (assumed / not decided), design_ref)
CLAIMED = {
    "C25": dict(
        technique="MIR dominance (guard edges, success edges) + backward data-dependence slices + who-may-write table + callers-leave-no-trace reachability",
        text="Partial, strong: on every CFG path of apply_ticket/apply_signed_ticket each state mutation is dominated by the strict sequence guard, "
             "and (signed) by signature success over exactly the ticket's own fields, memory-id equality and binding presence; Ok only after "
             "rewrite_toc_footer -> persist_header -> sync_all; writers of TicketRef.seq_no are a reviewed table. All-paths fact about the code, not a sample of tickets. Callers of the ticket entry points store no persisted state before the (fallible) ticket call.",
        note="Not decided: Ed25519/serde_json themselves (external crates trusted), value-level history behaviour. Every CFG path treated as feasible.",
        design_ref="DESIGN.md §4 C25"),
    "C12": dict(
        technique="signature-based entry-point discovery + MIR dominance of exits/producers by the ACL call + edge-cut reachability inside the ACL filter",
        text="Partial, strong: every public retrieval entry point that takes an ACL mode/context is found by signature; on every path each hit-carrying Ok exit "
             "and each producer of derived output (context, citations, fragments, response aggregates) is dominated by apply_acl_to_search_hits called with the "
             "entry's own context and mode, response.context/total_hits are recomputed under Enforce, nothing is added afterwards; inside the filter a hit is "
             "kept only via decision.allowed or Audit, Enforce requires a validated tenant, allow() is dominated by parse success, tenant equality and (Public | match).",
        note="Not decided: value-level set matching of principals/roles/groups and string normalisation. Callee summaries for 'grows the hit list' are bounded to depth 2.",
        design_ref="DESIGN.md §4 C12"),
    "C05": dict(
        technique="MIR guard-edge dominance + interprocedural caller-chain check for constant-0 ring positions; must-pass-through; field-set agreement + strict guard relation for the sentinel slot",
        text="Partial: the ring invariants the WAL code relies on are decided on all paths - a ring position becomes 0 only where pending_bytes == 0 is established "
             "(in the function or at every caller), an append writes only after both capacity comparisons and is always followed by the sentinel, a checkpoint stores "
             "exactly the reviewed fields from write_head/sequence, scan reports a record only after checksum equality and bounds, records_after filters strictly by sequence. The zero sentinel is written only where pending_bytes < region_size (a full ring has no free slot). On the open path every value placed in EmbeddedWal.sequence derives from Header.wal_sequence or the handle's own counters, so numbering continues after the checkpoint. The pending byte count on the open path is the sum of total_size over scanned records selected by sequence. The sentinel is never written at offset 0 while records are pending (head at 0 with records pending = the last record ended exactly on the region boundary).",
        note="Not decided: the exhaustive state-space claim over operation sequences and sizes (value reasoning). The rule found a genuine defect on the pinned tree (sentinel wrap), repaired by fix commit f7468a8. A second genuine defect (sentinel over the first record when a pending record ends exactly on the region boundary) was found by GUARD-C05j and repaired by fix commit a391e88.",
        design_ref="DESIGN.md §4 C05"),
    "C01": dict(
        technique="MIR must-pass-through (success-edge dominance of Ok exits) + who-may-call tables over the call graph + sign-abstraction direction analysis of in-place block-move loops",
        text="Partial (protocol skeleton): on every path an acknowledged put/update/delete is dominated by a successful WAL append; the log window "
             "(record_checkpoint) moves only after apply_records succeeded on the WAL's own pending records, at the reviewed call sites only; open returns "
             "Ok only after recover_wal replayed records_after(header.wal_sequence); drop commits on the dirty edge and every acknowledged append sets dirty; the in-place block move that shifts committed bytes when the WAL grows walks away from its destination (memmove direction rule). WAL append sites are recognised through thin wrappers. The pending byte count of a reopened WAL derives from the scanned records newer than the checkpoint (an under-count would let the next append overwrite acknowledged records).",
        note="Not decided: equality with a reference model over histories (runtime values), content fidelity across in-place WAL growth.",
        design_ref="DESIGN.md §4 C01"),
    "C03": dict(
        technique="interprocedural sync typestate (write=>unsynced, fsync=>clean; bottom-up summaries to a fixpoint over 650+ functions) + ordering dominance + ordered growth-protocol rule (shift, adjust, rewrite TOC, persist header, sync)",
        text="Partial (sync-before-ack): every acknowledging function (put, delete, commit variants, tickets, vacuum, WAL growth, create, open-time replay) "
             "returns Ok only in the clean state on all paths; the staging file is clean at the rename; write_record's only deferral is the skip_sync edge whose "
             "protocol (set only by begin/end_batch, flush before clearing) is checked; the header is published only after the TOC/footer was written and synced. A WAL growth on behalf of an acknowledged put rewrites the TOC with the adjusted offsets, persists the header and syncs before it returns. A WAL opened from a header numbers its next record after Header.wal_sequence (a put numbered at or below the checkpoint is synced and then ignored by every replay).",
        note="Not decided: torn writes, directory durability inside atomic-write-file (trusted), whether the file opens after loss. Reviewed exemption: the WAL end sentinel. "
             "recover_wal's empty-log branch (re-derivable Tantivy flush) is out of scope by rule.",
        design_ref="DESIGN.md §4 C03"),
    "C04": dict(
        technique="MIR must-pass-through on the replay branch of recover_wal + guard-edge (inequality) dominance in open_locked + interprocedural single-publication-point window rule + error-exit/control-dependence rule for replay appliers",
        text="Partial (idempotence link): the branch of recover_wal that applied pending records returns Ok only through apply_records -> record_checkpoint -> "
             "persist_header(self.header) -> sync_all, so the advanced wal_sequence is durable before the open returns and a second open cannot replay the same "
             "records; open_locked rewrites the header on the TOC-recovery arm only under the differs-from-stored test, with the recovered values; no header persist is reachable between apply_records and record_checkpoint "
             "(single publication point); the delete/supersede appliers have no error exit that depends on the frame's status (replay is idempotent). In rebuild_indexes every in-place index write is followed on every Ok path by rebuild_indexes' own rewrite_toc_footer (open-time recovery relies on it to leave a footer behind the index bytes).",
        note="Not decided: crashes *during* recovery in general (crash points), nested recovery; equality of the recovered state with an uninterrupted recovery. Known finding (open): "
             "rebuild_indexes persists the header (old wal_sequence) inside the replay window, so a crash between the two header writes duplicates the replayed frames.",
        design_ref="DESIGN.md §4 C04"),
    "C06": dict(
        technique="crate-wide who-may-mutate scan of Toc.frames (resolved callees through &mut borrows) + data-dependence of Frame.id + must-pass-through for the pending counter + wrapper-aware site discovery (a local function that appends on every Ok path is the append for its callers)",
        text="Partial: Toc.frames is structurally mutated at exactly one site (push in apply_records; every other &mut use is element access; never replaced; Frame.id never "
             "stored; Frame constructed only at reviewed sites), the pushed id is toc.frames.len() re-read in the same loop iteration, every successful insert append in "
             "put_internal increments pending_frame_inserts before the next append/Ok, the counter is reset only after apply_records, next_frame_id reads len + counter only. A tombstone append never advances the counter (the counter counts inserts); append sites are recognised through thin wrappers. Every function that materialises the pending inserts (apply_records) resets pending_frame_inserts on every Ok path.",
        note="Not decided: equality of next_frame_id() with the id later assigned across auto-checkpoints and reopen (value reasoning over histories).",
        design_ref="DESIGN.md §4 C06"),
    "C08": dict(
        technique="MIR must-pass-through with edge cuts (apply_records), sibling agreement of the two mark_* functions, index-field coverage table, crate-wide feeder scan, PutOptions->WAL data-flow agreement + gate-condition field coverage + per-chain feed guards",
        text="Partial: delete/supersede both store a non-Active status and reach remove_frame_from_indexes on every Ok path, which purges every in-memory index the "
             "search paths read; apply_records cannot push a superseding frame, nor consume a tombstone, without marking the old frame; every function that walks "
             "toc.frames and feeds an index tests FrameStatus::Active; the PutOptions data fields persisted by put_internal are compared with those update_frame inherits. The condition gating rebuild_indexes after apply_records depends on IngestionDelta.mutated_frames; every iterator chain over toc.frames that feeds an index has an Active test of its own. frame_by_uri's first lookup over toc.frames selects on Frame.status (the status-blind lookup is only a fallback).",
        note="Not decided: what search/timeline return (values). Known finding (open): update_frame does not inherit role/source_path/parent_id.",
        design_ref="DESIGN.md §4 C08"),
    "C11": dict(
        technique="flow- and field-sensitive def-use analysis of the candidate-filter variable in Memvid::search (found by type/use) + edge-cut reachability in get_replay_frame_ids + dead-parameter check in the three engines + edge-cut reachability of the replay step in Memvid::search",
        text="Partial, strong: after the replay stage the candidate filter can only narrow (every redefinition in the Some(existing) arm derives from existing), the replay "
             "ids reach the filter in both arms and all three engine paths receive and use that filter; get_replay_frame_ids pushes frame.id only past "
             "(cut-off None | frame.id <= cut-off) and (None | frame.timestamp <= cut-off), never through a binary search on a non-id key. The engines are reachable without get_replay_frame_ids only through the edge establishing as_of_ts is None. The per-frame cut-off filter is recognised in loop form and in iterator-chain form (filter(is_none_or(|c| frame.x <= c))); the narrowing of the candidate filter in search is recognised inline and through a private narrowing helper. The Tantivy query planner tests the frame-filter parameter on every path to an Ok exit (the filter clause does not hang off the uri/scope chain).",
        note="Not decided: what the engines return beyond honouring the filter. The rule found a genuine defect (sketch-only fallback dropped the replay filter), repaired by fix commit 321ffd9.",
        design_ref="DESIGN.md §4 C11"),
    "C10": dict(
        technique="MIR edge-cut reachability (acceptance only on the evaluate-true edge), guard dominance (top_k), data-dependence agreement of slice bounds and range + unit rule (character offsets vs byte offsets)",
        text="Partial: on each of the three engine paths a candidate is accepted only on the true edge of ParsedQuery::evaluate over an EvaluationContext built for it, request.uri / "
             "request.scope reach the producer's filter or a comparison on the Tantivy and lex paths, a SearchHit is pushed only while hits.len() is below top_k with rank from hits.len(), "
             "and hit.text is sliced with the same two bounds, in order, that form hit.range. No character offset (TextChunkRange) flows into a byte offset (ChunkInfo.start/end, SearchHit.range/chunk_range).",
        note="Not decided: that the text satisfies the query semantics, that the frame is active (index membership is C08), byte equality of text with the stored content. "
             "Untriaged candidate (not armed): search_with_filters_only ignores request.uri/scope and frame status, but is only reachable when the Tantivy engine errors.",
        design_ref="DESIGN.md §4 C10"),
    "C16": dict(
        technique="explicit-flow non-interference (flow- and field-sensitive backward slices) from request.cursor to total_hits and to the candidate producer + flow-shape rule for the candidate budget",
        text="Partial (cursor non-interference): on each engine path request.cursor must not flow into SearchResponse.total_hits nor into the arguments of the candidate producer; "
             "the page offset is parse_cursor(request.cursor, the reported total). Decided for explicit flows on all paths. The page size reaches the sketch candidate budget only through max(_, const), never through min.",
        note="Not decided: equality of the concatenated pages with the one-shot result; implicit (control) flows such as the `produced < offset` skipping. "
             "Known findings (open): on the Tantivy path the fetch limit depends on the cursor, so total_hits and the ranked list differ per page.",
        design_ref="DESIGN.md §4 C16"),
    "C09": dict(
        technique="type-graph coverage of lexical offset anchors by the WAL-growth adjuster; explicit-flow taint from the lossy sketch candidate set to the engines' hard filter + guard-edge dominance for the no_sketch escape hatch + fallback presence + per-arm table of propagated error sources in the per-candidate resolution step",
        text="Partial: decides that no lossy (thresholded, truncated) candidate set becomes the hard filter of the exact engines on the default path, that request.no_sketch really "
             "disables the stage, and that the Tantivy path keeps its three lex fallbacks with the same filter; the errors for which try_tantivy_search silently drops a candidate (propagated by resolve_chunk_context, "
             "per role arm) are the reviewed set - in particular a failing parent-manifest lookup does not drop a chunk frame. The file offsets of every lexical manifest collection in the TOC are moved when the embedded WAL grows (needed for recall after reopen).",
        note="Not decided: recall itself (values). Known finding (open): the sketch set is a hard filter on the default path (design decision of the search path).",
        design_ref="DESIGN.md §4 C09"),
    "C26": dict(
        technique="unit check by explicit data flow: WAL-sequence sources (results of append_wal_entry) must not reach frame-id sinks discovered from parameter/field names",
        text="Partial, strong: in every function that appends to the WAL no value derived from the append's result (a WAL sequence number) reaches an argument whose callee "
             "parameter is named *frame_id*, an id field of Frame/MemoryCard/TimeIndexEntry/SearchHit, or the enrichment queue; positively, put_internal's frame-id sinks derive from next_frame_id() "
             "captured before the append.",
        note="Not decided: that the card's value occurs in the frame text. The rule found a genuine defect at four sinks (parent_seq as FrameId), repaired by fix commit 21b3024.",
        design_ref="DESIGN.md §4 C26"),
    "C40": dict(
        technique="explicit data flow of IngestionDelta.inserted_embeddings in every apply_records caller; string-literal protocol agreement between WAL and its growth arm; batch protocol dominance + ordered step-sequence agreement of the WAL-growth siblings",
        text="Partial: every caller of apply_records hands the applied embeddings to the vector-index builder after the apply; the set of no-space rejection strings "
             "EmbeddedWal::append_entry can produce equals the set Memvid::append_wal_entry's growth arm matches; begin_batch/end_batch install, flush and reset in order. The two WAL-growth siblings run the same ordered steps and shift the data while header.wal_size still holds the old size.",
        note="Not decided: equality of results between bulk and plain ingestion (values). The rule found a genuine defect (skip-index commit dropped embeddings), repaired by fix commit e30c60f.",
        design_ref="DESIGN.md §4 C40"),
    "C24": dict(
        technique="guard-edge dominance of every WAL append by the capacity comparison + coupling check (fields read by the guard vs fields advanced on the acknowledged path, through callee bodies) + field-read coverage of the usage seed + same-call agreement between the admitted and the stored payload",
        text="Partial: every WAL append in put_internal is dominated by projected <= capacity_limit() with the failing edge returning CapacityExceeded, projected includes the "
             "incoming payload, capacity_limit is ticket-or-tier, cached_payload_end is monotone; and the usage counter the guard reads must be advanced by the put path itself. The open-time seed of the usage counter ranges over every frame that owns payload bytes (no Frame field other than payload_offset/payload_length is read). Every prepared buffer whose length the capacity guard admits is the buffer stored in the WAL entry. Both WAL-growth paths move the usage counter (cached_payload_end) by delta. The frame scan of the open-time seed leaves its loop only on iterator exhaustion.",
        note="Not decided: the numeric bound over histories. Known finding (open): the guard's counter is only advanced at commit, so un-committed puts are not counted. "
             "Untriaged candidate (not armed): enable_vec()/manifest.dimension are stored before the capacity check.",
        design_ref="DESIGN.md §4 C24"),
    "C42": dict(
        technique="field-store whitelist inside vacuum (+closures), data-flow identity of read/written payload by frame id, must-pass-through + read-before-rewrite and offset-before-advance ordering",
        text="Partial: inside vacuum only Frame.payload_offset/payload_length are stored; the bytes written for a frame are those read for the frame with the same id, "
             "only on the Active edge, at the running cursor; commit succeeds before any payload moves and Ok is reached only through rebuild_indexes -> sync_all. The new offset is the cursor before it is advanced past the payload, and every payload is read before the first one is rewritten in place. rebuild_indexes (to which vacuum hands the file) never truncates below header.footer_offset. The open-time seed of the payload-region end, where rebuild_indexes places the index segments after vacuum, scans every frame (no early loop exit; rule shared with C24).",
        note="Not decided: byte equality of content, equality of search/timeline results, crash-atomicity of the in-place rewrite.",
        design_ref="DESIGN.md §4 C42"),
    "C13": dict(
        technique="edge-cut reachability of VecIndex::search past the dimension comparison (sibling entry points) + shape of the exact arm (score-all, ascending comparator, truncate after sort) + constant agreement in the lane-blocked distance kernel (blocks, lane offsets, tail start, remainder share one lane width)",
        text="Partial: both vector entry points reach VecIndex::search only past query.len() == index dimension (mismatch -> VecDimensionMismatch); the exact arm scores every "
             "document, sorts ascending on distance and truncates afterwards; the SIMD distance kernel partitions the index range (len/L blocks of L lanes, tail from chunks*L, len%L tail elements, one L). Fails closed if the ordering mechanism is replaced by one the rule does not recognise. The exact arm is recognised inline or through a private helper that receives the documents.",
        note="Not decided: floating-point semantics (NaN ordering), approximate representations, identity of results after reopen.",
        design_ref="DESIGN.md §4 C13"),
    "C14": dict(
        technique="enum-arm payload-use analysis vs call-graph reachability of each representation's builder (per configuration) + data-flow wiring of build_vec_artifact / update_frame / apply_records",
        text="Partial: a VecIndex representation whose entries/embedding_for/remove arms ignore the payload must have no builder reachable from the Memvid API in the analysed "
             "configuration; build_vec_artifact = active(existing entries) + new docs and its result is installed; updates carry the old embedding; apply_records records the embedding under the pushed id. Reachable representations are derived from the VecIndex::<Variant> constructions reachable from the API. build_vec_artifact answers None only where vectors are disabled (rebuild_indexes keeps the old manifest on None). The tests guarding update_frame's carry-over lookup do not read the persisted index manifests (which lag the in-memory index between commit_skip_indexes and finalize_indexes).",
        note="Not decided: membership over histories (values). Thorough tier also analyses the `wide` feature configuration, where the Hnsw representation is reachable (known finding, config=wide).",
        design_ref="DESIGN.md §4 C14"),
    "C07": dict(
        technique="variant-table agreement of the canonical codec pair, edge-cut must-pass-through for the length test, sort-key agreement, provenance data-flow of chunk manifests, seek-before-read pairing on File handles (shared cursor discipline) + fallback-only guard for the extracted-text plan",
        text="Partial (codec pairing and provenance): every CanonicalEncoding produced is decoded by its inverse callee, stored-payload reads return only past the canonical_length "
             "equality test, a chunked document's canonical payload is the concatenation of its children ordered by (chunk_index, id), and a chunk manifest that replaces the "
             "stored payload on read must derive from the payload bytes themselves; every std Read call on a File is dominated by a seek on the handle in the same function "
             "(cloned handles share one cursor). The chunk plan cut from extracted text is computed only where the payload's own plan is None. In the chunk planner the value compared with a *_CHARS threshold is a character count, not a byte length.",
        note="Not decided: byte equality of reads with puts (values), text normalisation. Known finding (open): chunk manifests planned from extracted (lossy) text make the "
             "canonical payload of a large non-UTF-8 document differ from the stored bytes.",
        design_ref="DESIGN.md §4 C07"),
    "C15": dict(
        technique="sortedness typestate (forward dataflow) of the timeline entry vector + closure comparator analysis + writer/reader order-key agreement + per-chain Active guard for time-index producers",
        text="Partial: the entry vector of build_timeline is in the sorted state wherever it is reversed, binary-searched or consumed; since/until are inclusive per-entry "
             "comparisons applied before reverse and take(limit); append_track sorts by (timestamp, frame_id) and read_track validates that very order. Every toc.frames chain producing time-index entries tests Active in that chain.",
        note="Not decided: completeness (every active document frame exactly once). The rule found a genuine defect (unsorted vector consumed), repaired by fix commit f554041.",
        design_ref="DESIGN.md §4 C15"),
    "C20": dict(
        technique="stored-checksum use analysis: comparison of Frame.checksum with blake3(payload) must gate the serving path and verify(deep); edge-cut must-pass-through in read_toc and the track loaders + digest-coverage rule for the WAL record header + edge-cut reachability for the re-verification of a recovered TOC",
        text="Partial (checksum use): read_frame_payload_bytes returns Ok only past blake3(buf) == frame.checksum, verify(deep) reads every active payload through that comparison, "
             "raw readers that bypass it are reported; read_toc returns Ok only through footer decode, toc_len equality, hash_matches, verify_toc_prefix and Toc::decode; track loaders "
             "deserialise only past their checksum comparison. The evidence lists stored index-manifest checksums that no code compares (information only). The WAL record digest must depend on every header field its reader acts on (sequence). A TOC whose first checksum verification failed is served by open_locked only after a later verify_checksum succeeded. A checksum mismatch of a persisted track cannot reach an Ok exit of its loader (no silent empty track).",
        note="Not decided: detection of every single-byte corruption. Fix commit 34d4061 added the payload comparison; known finding (open): blob_reader streams Plain payloads unchecked. Known finding (open): the WAL record digest covers the payload only, so a flipped sequence byte of a checkpointed record makes open replay it.",
        design_ref="DESIGN.md §4 C20"),
    "C30": dict(
        technique="writer/reader layout agreement recovered from MIR with a constant evaluator (field -> offset/width/endianness maps; ordered item lists for streamed layouts) + edge-cut must-pass-through in Toc::decode + writer/reader order-contract agreement for the time index + exact-equality rule for length checks in the decoders",
        text="Partial (layout agreement): header and footer field maps recovered from encode equal those recovered from decode, cover every field, are disjoint and inside the fixed "
             "size, with the same validated fields; the time-index item list written equals the list read and hashed; Toc::decode returns Ok only on the bytes_read == len edge in all three format arms. The time-index writer sorts by (timestamp, frame_id) and the reader validates exactly that order. No decoder relates a count and a byte length through integer division. Every identity test of the header/footer decoders (bytes against MAGIC, VERSION, SPEC_*, FOOTER_SIZE) rejects on its own: its mismatch edge cannot reach the decoded value.",
        note="Not decided: round-trip equality for arbitrary values; bincode/serde themselves (external).",
        design_ref="DESIGN.md §4 C30"),
    "C17": dict(
        technique="forward typestate (which inode Memvid.lock is held on) over every exit, Ok or Err, of functions that rename over the memory path + constructor pairing / who-may-unlock tables + guard-edge checks on lock mode changes + mode-claim typestate inside FileLock",
        text="Partial: wherever the file at the memory's path is replaced by rename, every exit after the rename holds a FileLock acquired on the staged/re-opened inode (in a mode that excludes writers) and every exit "
             "without the rename still holds (or has restored) the original lock; every constructor pairs file and lock from one acquisition; the OS unlock happens only inside FileLock; the exclusive lock is given up only when "
             "nothing is dirty or pending; read_only is cleared only after a successful upgrade. Inside FileLock a lock mode is stored only after the locking call succeeded.",
        note="Not decided: interleavings of two processes, flock semantics of the platform (fs2 trusted). The rule found a genuine defect (lock left on the pre-rename inode), repaired by fix commits 0f828e2 and e6dc2cd (the second keeps readers admitted: shared mode).",
        design_ref="DESIGN.md §4 C17"),
    "C18": dict(
        technique="interprocedural effect analysis: reachability of memory-file writes from 146 public entry points without passing a writability guard (guard-establishing callees summarised to a fixpoint over ~1480 functions) + call-graph exclusion for the snapshot path + drop-commit flag reachability from read paths",
        text="Partial (effect discipline): from every public Memvid self-method and read-only constructor no write to the memory file is reachable before the success edge of a "
             "writability guard; the read-only snapshot open cannot reach WAL replay, takes its TOC from the tail snapshot, opens the WAL read-only and is constructed read_only; "
             "every writing EmbeddedWal method passes assert_writable. Drop commits only on handle state that no read-only constructor or read API can set. Callers of locate_footer_window add the window start to every FooterSlice offset they keep as a file position.",
        note="Not decided: byte equality of the file before/after (runtime). Fix commit for the header rewrite on read-only open is recorded in known_findings. Untriaged candidates "
             "(reported, not verdicts): footer realignment reachable from search/open_read_only via init_tantivy; begin_batch writes without a guard.",
        design_ref="DESIGN.md §4 C18"),
    "C32": dict(
        technique="call-graph cycle analysis with guarded-edge removal (depth guard = counter-vs-constant comparison + InvalidQuery + increment), precedence-ladder call layering, enum-arm table for Expr::evaluate + loop-carried self-wrapping detection for the expression tree depth",
        text="Partial: every recursion cycle among the functions reachable from parse_query is cut by a depth guard, the OR/AND/NOT consumers call each other in precedence order, "
             "and Expr::evaluate maps Or/And/Not/Term to any/all/negation/delegation. No loop wraps an Expr into a recursive variant around its own previous value without the depth guard (the flattening idiom of And/Or is recognised). No unwrap/expect on a query-derived Result/Option and no panic-family macro is reachable from parse_query.",
        note="Not decided: substring/phrase/field matching semantics (values), compiler-inserted bounds/overflow checks in the tokenizer. The rule found a genuine defect (unbounded recursion), repaired by fix commit 8cd7524.",
        design_ref="DESIGN.md §4 C32"),
    "C22": dict(
        technique="two Engler-style checkers over the 900+ functions reachable from the untrusted-input entry points: explicit-assertion reachability (macro provenance) and range check of file-derived allocation sizes + guarded-subtraction checker for file-derived subtrahends + clamp check for loop-carried windows subtracted from a buffer length",
        text="Partial: no explicit assertion macro is reachable from open/verify/doctor/read entry points except reviewed sites; every allocation sized by a file-derived integer is "
             "bounded by a constant, the file length, a clamp or a validator on its path. Every unsigned subtraction whose subtrahend is read from the file is dominated by a b <= a edge for the same a, clamped with min(), or the minuend was formed by adding that value. `len - w` with a loop-carried window w requires every definition of w to be clamped with min() or a w <= len edge. An integer decoded from the file is multiplied only through checked/saturating arithmetic or under a dominating upper bound.",
        note="Not decided: panic-freedom of indexing/arithmetic sites, termination. The rule found a genuine defect (doctor debug_assert on pending WAL records), repaired by fix commit 706186b. "
             "Untriaged candidate: debug_assert_eq on vector lengths in simd (debug builds only).",
        design_ref="DESIGN.md §4 C22"),
    "C27": dict(
        technique="sibling agreement on normalised HIR trees (alpha-renamed closures) + stage-set comparison + wrapper argument flow + loader-before-replay ordering in open_locked + dirty-after-commit reachability in put_internal",
        text="Partial (sibling agreement): get_at_time equals get_current plus exactly one stage - filter(effective_timestamp() <= timestamp) over all cards before the ordering; both "
             "use the same descending effective_timestamp comparator and the same !is_retracted selection; the Memvid wrappers pass their own arguments through. Every track that rebuild_indexes re-persists from memory is loaded before the open-time WAL replay; a card mutation that can follow the in-call auto-checkpoint commit is followed by dirty = true.",
        note="Not decided: persistence round-trip of cards and logic mesh (values). Structural comparison fails closed if the two functions are rewritten with a mechanism the rule does not recognise. The two persistence rules found genuine defects (cards and logic mesh wiped by crash recovery; cards of the put that trips the auto-checkpoint lost at close), repaired by fix commits a5dcaff and 3ff7316.",
        design_ref="DESIGN.md §4 C27"),
    "C31": dict(
        technique="MIR dominance / edge-cut reachability in find_last_valid_footer + data-dependence of the hashed slice, returned slice and offsets + monotone-scan shape + data-dependence of hash_matches' single exit value (full-width digest equality)",
        text="Partial: a FooterSlice is returned only past decode(Some) of bytes[pos..pos+FOOTER_SIZE], the toc_len bounds edges and the hash_matches true edge over exactly "
             "bytes[pos - toc_len .. pos], which is also the slice returned; the scan uses memrchr over bytes[..search_end] and every path back to it sets search_end = pos. CommitFooter::hash_matches has one exit value: a full-width equality between BLAKE3 of its whole slice argument and the whole toc_hash field. The decoder the scan relies on reads every footer field at the writer's offset and width (rule shared with C30).",
        note="Not decided: the loop-invariant argument that the first accepted candidate ends at the highest offset, beyond these shape facts.",
        design_ref="DESIGN.md §4 C31"),
    "C39": dict(
        technique="expression-family agreement of Bloom bit positions (shift constants), shared tokenizer/hash reachability, writer/reader field-coverage analysis of the sketch track + loop-exit analysis of the filter insertion loop + lossless-pipeline adaptor scan",
        text="Partial: probe bit positions are a subset of written positions with the same addressing; index and query sides share tokenize_for_sketch and hash_token; every "
             "SketchEntry field the track reader reconstructs must come from written bytes (a field synthesised from the loop index requires a dense writer); header widths agree. The insertion loop of build_term_filter exits only on iterator exhaustion and every iteration sets its bit positions. The token pipeline from tokenize_for_sketch to build_term_filter contains no token-dropping adaptor.",
        note="Not decided: filter false-positive behaviour, simhash values. Known finding (open): frame_id is not serialised and is rebuilt from the entry position.",
        design_ref="DESIGN.md §4 C39"),
    "C02": dict(
        technique="who-may-call + closure-provenance of the staging operation, MIR dominance in with_staging_lock (rename after op Ok and sync; Err arm discards and restores), and a frozen reference table of in-place writer sets per public entry point computed on the call graph with staging closures cut, and type-graph coverage of file-offset fields by the WAL-growth offset adjuster",
        text="Partial (staging discipline): commit_from_records runs only inside a closure passed to with_staging_lock; the rename of the staged copy is dominated by op's Ok arm and a sync "
             "of the staging handle, the Err arm discards the staging file and restores file/wal/header/toc/data_end/generation/dirty; no public entry point gains a function that writes "
             "the live file in place beyond the reviewed per-entry set; every u64 *offset field reachable in the type graph of Toc is moved by adjust_offsets_after_wal_growth for every manifest collection that holds it (per Option/Vec anchor, e.g. SegmentCatalog.tantivy_segments), "
             "which both growth paths call after the data shift and before the TOC rewrite.",
        note="Not decided: the state after a crash at each file-system mutation (crash points are runtime). The reviewed in-place paths (WAL append, WAL growth shift, tickets, "
             "commit_skip_indexes, vacuum, open-time recovery, doctor) are listed, not proved crash-atomic. The coverage rule found a genuine defect (five manifests not shifted on WAL growth), "
             "repaired by fix commit d68ec9b. Candidates (not reproduced, feature-only collections index_segments / temporal_segments are not shifted in a default build). Known finding (open, feature replay): save_replay_sessions overwrites the committed TOC/footer in place.",
        design_ref="DESIGN.md §4 C02"),
    "C19": dict(
        technique="interprocedural path-provenance analysis of every file-system creation sink reachable from the public API (backward slices through local callees), RAII pairing of the staging object, dominance of ensure_single_file before the first open + edge-cut reachability inside ensure_single_file (only the None arm of Path::parent may bypass the probes)",
        text="Partial: every file/dir creation reachable from the Memvid API takes the memory path itself, a system-temp path or the atomic staging object; paths derived from the memory "
             "path by with_extension/set_extension/with_file_name/join/push/format! are sidecars and are reported; constructors and doctor call ensure_single_file (eight forbidden names) "
             "before the first open. ensure_single_file reaches Ok only through the probes or when path.parent() itself is None. No creation on the caller's own path is reachable from the open entry points (only create brings the file into existence).",
        note="Not decided: what external crates create internally (atomic-write-file's temporary sibling, Tantivy's work directory under the system temp dir). thorough tier analyses the wide "
             "feature configuration, where replay/parallel_segments sidecars are findings.",
        design_ref="DESIGN.md §4 C19"),
    "C23": dict(
        technique="taint analysis on type-checked MIR: nondeterminism sources (clock, RNG, UUID, Tantivy segment snapshot) to persisted aggregates and file writes, with the explicit-input override idiom as the only sanitizer; type-graph scan of the persisted roots for serde-serialised RandomState collections (derive list / serde(skip) read from the struct source, since macro expansion removes helper attributes from the HIR) + iteration-order rule (no file write / position store inside a loop over a RandomState iterator) + hash-order rule for the functions feeding persisted put metadata",
        text="Partial: with an explicit timestamp, no clock/RNG/UUID value reaches WalEntryData/Frame fields or bytes written to the memory file on the put path; the clock feeds the "
             "timestamp only as the default of options.timestamp; no serde-serialised type reachable from the persisted roots holds a HashMap/HashSet field that is not skipped. No loop driven by HashMap/HashSet iteration writes the file or assigns file positions. No function feeding the WAL entry of a put lets HashMap/HashSet iteration order decide its result.",
        note="Not decided: byte identity (runtime). Known finding (open): Tantivy segment names (random UUIDs) and snapshot bytes are embedded in the file, so two identical histories differ "
             "in bytes. The type rule found a genuine defect (memories-track maps serialised in HashMap order), repaired by fix commit 00289e5.",
        design_ref="DESIGN.md §4 C23"),
    "C28": dict(
        technique="edge-cut reachability on the tantivy_dirty test in rebuild_indexes, data-dependence agreement between the bytes persisted and the bytes decoded into the installed in-memory index, sibling agreement of commit-side and reopen-side decoders + sibling agreement of range-end comparisons + loader-before-replay ordering + truncation-length flow",
        text="Partial: the incremental Tantivy arm is reachable only when no provisional instant-index entries exist; the in-memory lex/vec indexes a commit installs are decoded from the "
             "very artifact bytes it persists and whose length/checksum it records; the reopen path decodes with the same decoder at the manifest's offset/length; put_internal's instant "
             "index marks tantivy_dirty. Every comparison of a range end (offset + length) with footer_offset / the file length uses end > limit to reject (sibling agreement, closures resolved through their call sites). open_locked loads every index before the WAL replay; rebuild_indexes never truncates below header.footer_offset. The file offsets of every vector manifest collection in the TOC are moved when the embedded WAL grows (a handle that loads the index from disk finds it).",
        note="Not decided: equality of query answers before and after reopen (values); Tantivy's own persistence.",
        design_ref="DESIGN.md §4 C28"),
    "C29": dict(
        technique="sibling agreement between unlock_file_oneshot and unlock_file_stream (size/magic validation before Ok), writer/reader agreement of nonce derivation and chunk framing, dominance of decrypt success before plaintext write, header field coverage; configuration `encryption`",
        text="Partial: both unlock siblings reach Ok only past a comparison of the produced size with header.original_size; lock and unlock derive chunk nonces (same nonce-prefix bytes, counter placement and endianness, helper-aware) and frame chunks identically; "
             "plaintext is written only after the chunk authenticated; output goes through write_atomic; every header field written is read or validated. The size comparison precedes the publication of the output (inside the closure write_atomic commits on, or before the write_atomic call).",
        note="Not decided: AES-GCM/Argon2, byte equality of unlock(lock(f)). The sibling rule found a genuine defect (streaming unlock accepted a capsule truncated at a chunk boundary), "
             "repaired by fix commit d0b37d1. Untriaged candidate: streaming sibling does not validate the MV2 magic.",
        design_ref="DESIGN.md §4 C29"),
}
