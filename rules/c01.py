"""C01 — acknowledged operations are never lost (protocol skeleton).

Decided (the four links every acknowledged operation traverses, on all CFG paths):
  MPT-C01a  ack => logged: every Ok exit of put_internal / delete_frame is dominated by the success edge of an
            append_wal_entry call (reviewed exception: the dedup early return, keyed by the PutOptions.dedup edge);
            append_wal_entry returns Ok only on the Ok arm of EmbeddedWal::append_entry; every public put*/update
            wrapper returns Ok only through put_internal (or another wrapper).
  MPT-C01b  logged => applied before the log window moves: every call of EmbeddedWal::record_checkpoint is dominated by
            the success edge of apply_records in the same function, on the records obtained from the WAL.
  WMC-C01c  callers of record_checkpoint / apply_records are the reviewed table.
  MPT-C01d  open => replay: open_locked returns Ok only after recover_wal succeeded; recover_wal reads
            records_after(header.wal_sequence) and applies exactly those.
  MPT-C01e  drop => commit: <Memvid as Drop>::drop calls commit on the dirty edge; put_internal / delete_frame store
            `dirty = true` after the append on every Ok path; commit* clears dirty only after the checkpoint.
  FLOW-C01f in-place block moves of the memory file (shift_data_for_wal_growth moves every committed byte when the WAL
            grows) walk away from their destination: a right shift (dst = src + unsigned) visits blocks tail-first,
            a left shift head-first (memmove rule; sign abstraction over the loop's linear position forms - a forward
            walk of a right shift overwrites blocks it has not read yet as soon as the region exceeds the shift).
  FLOW-C01g  (shared with FLOW-C05i) the pending byte count of a reopened WAL is the sum over the scanned records newer
             than the checkpoint; an under-count lets the next append overwrite acknowledged, uncommitted puts.
Not decided: equality with a reference model over histories (runtime values)."""
from . import lib, monotone, effects
from .facts import Place, op_place

CHECKPOINT_CALLERS = {
    'Memvid::commit_from_records': 'commit path (inside the staging closure)',
    'Memvid::commit_skip_indexes_inner': 'bulk path without index rebuild',
    'Memvid::recover_wal': 'open-time replay',
    'Memvid::commit_parallel_inner': 'parallel_segments commit',
}
PUT_WRAPPER_HINT = ('put_', 'update_frame', 'put')


def exits_dominated(ctx, rule, fn, calls, what, exempt=None, detail='ok-without-' ):
    """every Ok exit of fn is dominated by the success edge of one of `calls` (or is that call's own result)"""
    n = 0
    for ex in fn.ok_exits():
        ctx.evaluations += 1
        n += 1
        if ex['kind'] == 'call' and ex['call'] in calls:
            ctx.ok(rule, fn, 'Ok exit is the result of %s' % ex['call'].key, line=ex['line'])
            continue
        hit = [c for c in calls if lib.call_success_dominates(fn, c, ex['bb'])]
        if hit:
            ctx.ok(rule, fn, 'Ok exit dominated by success of %s (line %s)' % (hit[0].key, hit[0].line), line=ex['line'])
            continue
        if exempt is not None:
            why = exempt(fn, ex)
            if why:
                ctx.ok(rule, fn, 'reviewed exemption: ' + why, line=ex['line'])
                continue
        ctx.bad(rule, fn, 'an Ok exit is reachable without a successful %s' % what, line=ex['line'], detail=detail + what)
    return n


def dedup_exempt(fn, ex):
    for bs in lib.bool_switches(fn):
        sl = lib.slice_back(fn, [bs['local']], through_calls=False)
        if sl.has_field('PutOptions', 'dedup') and lib.edge_dominates(fn, bs['bb'], bs['t_true'], ex['bb']):
            return 'dedup hit under options.dedup acknowledges no new frame (returns the existing frame id)'
    return None


def run(ctx):
    from . import c05
    c05._open_pending(ctx, ctx.facts(), 'FLOW-C01g')     # a reopened WAL that under-counts its pending bytes overwrites acknowledged records
    ctx.rule('MPT-C01a', 'every Ok exit of put_internal/delete_frame/put wrappers is dominated by a successful WAL append')
    ctx.rule('MPT-C01b', 'record_checkpoint is dominated by apply_records success on the WAL\'s own records')
    ctx.rule('WMC-C01c', 'callers of record_checkpoint/apply_records are the reviewed table')
    ctx.rule('MPT-C01d', 'open_locked: Ok only after recover_wal; recover_wal replays records_after(header.wal_sequence)')
    ctx.rule('FLOW-C01f', 'in-place file block moves walk away from the destination (right shift tail-first, left shift head-first)')
    ctx.rule('MPT-C01e', 'Drop commits when dirty; dirty=true after every acknowledged append; dirty cleared only after checkpoint')
    F = ctx.facts()
    # ---------------- C01a
    put = ctx.need('MPT-C01a', 'Memvid::put_internal')
    dele = ctx.need('MPT-C01a', 'Memvid::delete_frame')
    awe = ctx.need('MPT-C01a', 'Memvid::append_wal_entry')
    n_app = 0
    for fn, exempt in ((put, dedup_exempt), (dele, None)):
        if fn is None:
            continue
        ctx.touch(fn, len(fn.blocks))
        apps = lib.op_calls(F, fn, ('Memvid::append_wal_entry',))
        n_app += len(apps)
        if not apps:
            ctx.lost('MPT-C01a', '%s no longer calls append_wal_entry' % fn.key)
            continue
        exits_dominated(ctx, 'MPT-C01a', fn, apps, 'append_wal_entry', exempt)
    ctx.floor('MPT-C01a', n_app, 2, 'append_wal_entry call sites (parent, chunk, tombstone)')
    if awe is not None:
        ctx.touch(awe, len(awe.blocks))
        ae = awe.calls_to('EmbeddedWal::append_entry')
        if len(ae) != 1:
            ctx.lost('MPT-C01a', 'append_wal_entry must call EmbeddedWal::append_entry exactly once')
        else:
            exits_dominated(ctx, 'MPT-C01a', awe, ae, 'EmbeddedWal::append_entry')
            for ex in awe.ok_exits():
                if ex['kind'] == 'ok':
                    sl = lib.slice_back(awe, ex['rv']['ops'], through_calls=False)
                    if ae[0] not in sl.calls:
                        ctx.bad('MPT-C01a', awe, 'returned sequence does not come from append_entry', line=ex['line'], detail='seq-not-from-append')
    # wrappers
    wrappers = {}
    if put is not None:
        frontier = [put.path]
        seen = set()
        while frontier:
            p = frontier.pop()
            for f in F.fns.values():
                if f.path in seen or f.is_closure:
                    continue
                if any(c.local_callee == p for c in f.calls()) and f.r.get('impl_self', '').endswith('::Memvid'):
                    if f.name.startswith('put') or f.name == 'update_frame':
                        seen.add(f.path)
                        wrappers[f.path] = f
                        frontier.append(f.path)
    ctx.floor('MPT-C01a:wrappers', len(wrappers), 6, 'put*/update_frame wrappers reaching put_internal')
    for f in sorted(wrappers.values(), key=lambda x: x.key):
        ctx.touch(f, len(f.blocks))
        inner = [c for c in f.calls() if c.local_callee and (c.local_callee == put.path or c.local_callee in wrappers)]
        exits_dominated(ctx, 'MPT-C01a', f, inner, 'put_internal')
    # ---------------- C01b / C01c
    rc_callers = {}
    ar_callers = {}
    for f in F.fns.values():
        for c in f.calls():
            if c.is_('EmbeddedWal::record_checkpoint'):
                rc_callers.setdefault(f.key if not f.is_closure else f.path, []).append(c)
            if c.is_('Memvid::apply_records'):
                ar_callers.setdefault(f.key if not f.is_closure else f.path, []).append(c)
    ctx.evaluations += len(F.fns)
    ctx.floor('WMC-C01c', len(rc_callers), 3, 'callers of record_checkpoint')
    for k, cs in sorted(rc_callers.items()):
        fn = cs[0].fn
        ctx.touch(fn, len(fn.blocks))
        if k in CHECKPOINT_CALLERS:
            ctx.ok('WMC-C01c', fn, 'reviewed checkpoint site: ' + CHECKPOINT_CALLERS[k], line=cs[0].line)
        else:
            ctx.bad('WMC-C01c', fn, 'unreviewed caller of EmbeddedWal::record_checkpoint (moves the log window)', line=cs[0].line, detail='checkpoint-caller')
        ars = fn.calls_to('Memvid::apply_records')
        for c in cs:
            ctx.evaluations += 1
            if not ars:
                ctx.bad('MPT-C01b', fn, 'record_checkpoint without apply_records in the same function: pending records would be dropped', line=c.line, detail='checkpoint-without-apply')
                continue
            if any(lib.call_success_dominates(fn, a, c.bb) for a in ars):
                ctx.ok('MPT-C01b', fn, 'record_checkpoint dominated by apply_records success', line=c.line)
            else:
                ctx.bad('MPT-C01b', fn, 'record_checkpoint is not dominated by the success of apply_records', line=c.line, detail='checkpoint-before-apply')
            # the checkpoint must act on self.wal and self.header
            s = lib.slice_back(fn, c.args, through_calls=False)
            if not (s.has_field('Memvid', 'wal') and s.has_field('Memvid', 'header')):
                ctx.bad('MPT-C01b', fn, 'record_checkpoint is not applied to self.wal / self.header', line=c.line, detail='checkpoint-args')
    for k, cs in sorted(ar_callers.items()):
        fn = cs[0].fn
        if k not in CHECKPOINT_CALLERS:
            ctx.bad('WMC-C01c', fn, 'unreviewed caller of apply_records', line=cs[0].line, detail='apply-caller')
    # the records applied are the WAL's pending records
    for key, src in (('Memvid::commit_with_options', 'EmbeddedWal::pending_records'), ('Memvid::commit_skip_indexes', 'EmbeddedWal::pending_records'),
                     ('Memvid::recover_wal', 'EmbeddedWal::records_after')):
        fn = ctx.need('MPT-C01b', key)
        if fn is None:
            continue
        ctx.touch(fn, len(fn.blocks))
        srcs = fn.calls_to(src)
        if len(srcs) != 1:
            ctx.lost('MPT-C01b', '%s must read the log once via %s' % (key, src))
            continue
        users = [c for c in fn.calls() if c.local_callee and c.is_(('Memvid::apply_records', 'Memvid::commit_skip_indexes_inner', 'Memvid::with_staging_lock'))]
        good = False
        for u in users:
            sl = lib.slice_back(fn, u.args, through_calls=True)
            if srcs[0] in sl.calls:
                good = True
        ctx.evaluations += 1
        if good:
            ctx.ok('MPT-C01b', fn, 'the records handed to the apply/commit step come from %s' % src, line=srcs[0].line)
        else:
            ctx.bad('MPT-C01b', fn, 'records from %s do not reach the apply step' % src, line=srcs[0].line, detail='records-not-applied')
    # ---------------- C01d
    ol = ctx.need('MPT-C01d', 'Memvid::open_locked')
    if ol is not None:
        ctx.touch(ol, len(ol.blocks))
        rw = ol.calls_to('Memvid::recover_wal')
        if not rw:
            ctx.bad('MPT-C01d', ol, 'open_locked does not call recover_wal', detail='open-without-replay')
        else:
            exits_dominated(ctx, 'MPT-C01d', ol, rw, 'recover_wal')
    rwf = ctx.need('MPT-C01d', 'Memvid::recover_wal')
    if rwf is not None:
        ra = rwf.calls_to('EmbeddedWal::records_after')
        if ra:
            s = lib.slice_back(rwf, ra[0].args[1:2], through_calls=False)
            ctx.evaluations += 1
            if s.has_field('Header', 'wal_sequence'):
                ctx.ok('MPT-C01d', rwf, 'replay starts after header.wal_sequence', line=ra[0].line)
            else:
                ctx.bad('MPT-C01d', rwf, 'replay does not start from header.wal_sequence', line=ra[0].line, detail='replay-start')
    # public open paths reach open_locked
    for key in ('Memvid::open',):
        fn = ctx.need('MPT-C01d', key)
        if fn is not None and ol is not None:
            ctx.touch(fn, len(fn.blocks))
            cs = [c for c in fn.calls() if c.local_callee == ol.path]
            if cs:
                exits_dominated(ctx, 'MPT-C01d', fn, cs, 'open_locked')
            else:
                ctx.bad('MPT-C01d', fn, 'open does not go through open_locked', detail='open-path')
    # ---------------- C01e
    dr = F.fn('<Memvid as Drop>::drop')
    if dr is None:
        ctx.lost('MPT-C01e', '<Memvid as Drop>::drop not found')
    else:
        ctx.touch(dr, len(dr.blocks))
        cm = [c for c in dr.calls() if c.is_(('Memvid::commit', 'Memvid::commit_with_options'))]
        ok = False
        for bs in lib.bool_switches(dr):
            sl = lib.slice_back(dr, [bs['local']], through_calls=False)
            if sl.has_field('Memvid', 'dirty'):
                for c in cm:
                    if lib.edge_dominates(dr, bs['bb'], bs['t_true'], c.bb):
                        ok = True
                # and the not-dirty edge must be the only way around the commit
                for c in cm:
                    if not lib.reachable_without_edges(dr, c.bb, set()) :
                        ok = False
        ctx.evaluations += 1
        if ok and cm:
            # every return is reachable only via commit or the !dirty edge
            ctx.ok('MPT-C01e', dr, 'drop calls commit on the dirty edge', line=cm[0].line)
        else:
            ctx.bad('MPT-C01e', dr, 'drop does not commit a dirty handle', detail='drop-without-commit')
    for fn in (put, dele):
        if fn is None:
            continue
        apps = lib.op_calls(F, fn, ('Memvid::append_wal_entry',))
        sts = [s for s in lib.field_stores(fn, 'Memvid', 'dirty')
               if s['rv']['k'] == 'use' and s['rv']['a'].get('k', {}).get('v') is True]
        for ex in fn.ok_exits():
            ctx.evaluations += 1
            if not any(lib.call_success_dominates(fn, a, ex['bb']) for a in apps):
                continue   # exempt exits were handled by C01a
            if any(fn.dominates(s['bb'], ex['bb']) and any(lib.call_success_dominates(fn, a, s['bb']) for a in apps) for s in sts):
                ctx.ok('MPT-C01e', fn, 'dirty = true after the append on this Ok path', line=ex['line'])
            else:
                ctx.bad('MPT-C01e', fn, 'an acknowledged operation does not mark the handle dirty (drop would not commit it)', line=ex['line'], detail='ack-without-dirty')
    for key in ('Memvid::commit_from_records', 'Memvid::commit_skip_indexes_inner', 'Memvid::recover_wal'):
        fn = F.fn(key)
        if fn is None:
            continue
        rcs = fn.calls_to('EmbeddedWal::record_checkpoint')
        for s in lib.field_stores(fn, 'Memvid', 'dirty'):
            if s['rv']['k'] == 'use' and s['rv']['a'].get('k', {}).get('v') is False:
                ctx.evaluations += 1
                if any(lib.call_success_dominates(fn, r, s['bb']) for r in rcs):
                    ctx.ok('MPT-C01e', fn, 'dirty cleared only after the checkpoint succeeded', line=s['line'])
                else:
                    ctx.bad('MPT-C01e', fn, 'dirty is cleared before the checkpoint succeeded', line=s['line'], detail='dirty-cleared-early')
    # ---------------- C01f
    n_moves = 0
    for fn in F.fns.values():
        if fn.r.get('derive'):
            continue
        if not any(c.name in ('read_exact', 'read') for c in fn.calls()) or not any(c.name in ('write_all', 'write') for c in fn.calls()):
            continue
        for m in monotone.move_direction(fn, effects.is_memory_handle):
            ctx.evaluations += 1
            n_moves += 1
            ctx.touch(fn, len(fn.blocks))
            if m['ok'] is None:
                if fn.key == 'Memvid::shift_data_for_wal_growth':
                    ctx.lost('FLOW-C01f', 'shift_data_for_wal_growth: direction of the in-place move not recognised (%s)' % m['why'])
                else:
                    ctx.candidate('FLOW-C01f', fn, 'in-place read/write loop on the memory file whose direction is not recognised (%s)' % m['why'], line=m['read'].line,
                                  detail='move-direction-unknown')
            elif m['ok']:
                ctx.ok('FLOW-C01f', fn, 'in-place %s shift walks %s (away from the destination)' % (m['shift'], m['walk']), line=m['read'].line)
            else:
                ctx.bad('FLOW-C01f', fn, 'in-place %s shift walks %s: once the moved region is longer than the shift, blocks are overwritten before they are read '
                        '(committed bytes behind the WAL are clobbered)' % (m['shift'], m['walk']), line=m['write'].line, detail='overlapping-move-direction')
    ctx.floor('FLOW-C01f', n_moves, 1, 'in-place block-move loops on the memory file (WAL growth shift)')
