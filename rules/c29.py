"""C29 — encrypted capsules round-trip exactly and reject tampering (configuration `encryption`).

Decided:
  AGREE-C29a  sibling checks: unlock_file_oneshot and unlock_file_stream implement one interface; each must reach Ok
              only past a comparison of the produced plaintext size with header.original_size (the size sealed at lock
              time) — chunks are authenticated individually, so only this check catches truncation at a chunk boundary;
              the one-shot sibling also validates the MV2 magic (reported for the streaming sibling as a candidate).
  AGREE-C29b  lock and unlock derive the per-chunk nonce the same way (base nonce with the big-endian chunk index in
              its last 8 bytes) and frame chunks with the same width/endianness (u32 little-endian length prefix);
              the chunk index advances by one per chunk in both.
  MPT-C29c    plaintext is written only after decrypt succeeded on that chunk; the output file is produced through
              write_atomic (nothing is left behind on error); the key derives from the password and header.salt.
  COVER-C29d  every field of Mv2eHeader written by lock is read on the unlock path (or is validated by decode).
Not decided: AES-GCM / Argon2 themselves (external crates); byte equality of unlock(lock(f)) with f (values)."""
from . import lib
from .facts import Place, op_place, rv_places


def bodies(F, fn):
    return [fn] + F.closures_of(fn)


OWN_CONFIGS = True    # this module selects its feature configurations itself

def run(ctx):
    ctx.rule('AGREE-C29a', 'both unlock siblings compare the plaintext size with header.original_size before Ok')
    ctx.rule('AGREE-C29b', 'same nonce derivation and chunk framing in lock_file_stream and unlock_file_stream')
    ctx.rule('MPT-C29c', 'write only after decrypt succeeded; output via write_atomic; key from password + header.salt')
    ctx.rule('COVER-C29d', 'every Mv2eHeader field is read or validated on the unlock path')
    ctx.config = 'encryption'
    F = ctx.facts('encryption')
    one = ctx.need('AGREE-C29a', 'encryption::capsule::unlock_file_oneshot', 'encryption')
    st = ctx.need('AGREE-C29a', 'encryption::capsule_stream::unlock_file_stream', 'encryption')
    lk = ctx.need('AGREE-C29b', 'encryption::capsule_stream::lock_file_stream', 'encryption')
    if one is None or st is None or lk is None:
        return
    for fn, label in ((one, 'one-shot'), (st, 'streaming')):
        found = None
        for b in bodies(F, fn):
            ctx.touch(b, len(b.blocks))
            for c in lib.comparisons(b):
                for x, y in ((c.sa(), c.sb()), (c.sb(), c.sa())):
                    if x.has_field('Mv2eHeader', 'original_size') or any(f == '*header.original_size' or 'original_size' in f for o, f in x.fields if o == '{closure}'):
                        errs = lib.enum_constructions(b, 'EncryptionError', 'SizeMismatch')
                        if errs and any(any(b.dominates(t, e['bb']) for e in errs) for t, rel in c.edges() if rel == '!='):
                            # the equal edge must gate the Ok exit of that body
                            eq = {(c.bb, t) for t, rel in c.edges() if rel == '=='}
                            exits = [ex for ex in b.ok_exits() if ex['kind'] != 'err']
                            if exits and not any(lib.reachable_without_edges(b, ex['bb'], eq) for ex in exits):
                                found = (b, c)
        ctx.evaluations += 1
        if found:
            ctx.ok('AGREE-C29a', found[0], '%s unlock returns Ok only past plaintext size == header.original_size' % label, line=found[1].line)
            # ... and the comparison comes before the output file is published (write_atomic commits when its closure returns Ok)
            wa = [c for c in fn.calls() if c.name == 'write_atomic']
            fb, fc = found
            if not wa:
                ctx.lost('AGREE-C29a', '%s unlock: write_atomic call not found' % label)
            elif fb is fn:
                eq_t = [t for t, rel in fc.edges() if rel == '==' and t is not None]
                if all(any(lib.edge_dominates(fn, fc.bb, t, w.bb) for t in eq_t) for w in wa):
                    ctx.ok('AGREE-C29a', fn, '%s unlock compares the size before write_atomic publishes the plaintext' % label, line=wa[0].line)
                else:
                    ctx.bad('AGREE-C29a', fn, 'the %s unlock compares the plaintext size with header.original_size only after write_atomic has committed the output file: unlock returns an '
                            'error, but a truncated plaintext is already on disk (and has replaced a good file at the default output path)' % label, line=wa[0].line,
                            sink='write_atomic', detail='size-check-after-publication:' + label)
            else:
                pub = any(fb.path in lib.slice_back(fn, w.args, through_calls=False, at=(w.bb, None)).closures for w in wa)
                if pub:
                    ctx.ok('AGREE-C29a', fn, '%s unlock compares the size inside the closure whose Ok lets write_atomic commit' % label, line=wa[0].line)
                else:
                    ctx.bad('AGREE-C29a', fn, 'the %s unlock compares the plaintext size in a closure that is not the one write_atomic commits on' % label, line=wa[0].line, detail='size-check-not-in-publisher:' + label)
        else:
            ctx.bad('AGREE-C29a', fn, 'the %s unlock path never compares the plaintext size with header.original_size (its sibling does): a capsule truncated at a chunk boundary unlocks successfully'
                    % label, sink='Mv2eHeader.original_size', detail='size-check-missing:' + label)
        val = [c for b in bodies(F, fn) for c in b.calls() if c.is_(('validate_mv2_bytes', 'encryption::capsule::validate_mv2_bytes'))]
        if val:
            ctx.ok('AGREE-C29a', fn, '%s unlock validates the MV2 magic of the plaintext' % label, line=val[0].line)
        elif label == 'streaming':
            ctx.candidate('AGREE-C29a', fn, 'the streaming unlock does not validate the MV2 magic of the plaintext (the one-shot sibling does); every chunk is AEAD-authenticated, so this '
                          'only matters for capsules of non-MV2 files made by other tools (not reproduced)', detail='magic-check-missing')
        else:
            ctx.bad('AGREE-C29a', fn, 'the one-shot unlock no longer validates the MV2 magic', detail='magic-check-missing:' + label)

    # ---- b: nonce + framing
    def nonce_shape(fn):
        out = dict(be=False, last8=False, from_index=False, base=None, len_le=False, len_w=None, inc1=False, helper=None, be_prefix=False)
        bs_ = bodies(F, fn)
        # a nonce helper shared by both siblings (local callee returning a byte array and taking the chunk index)
        for b in list(bs_):
            for c in b.calls():
                lc = c.local_callee
                if lc and lc in F.fns and lib._ARR.search(F.fns[lc].local_ty(0) or '') and 'nonce' in F.fns[lc].name:
                    out['helper'] = F.fns[lc].key
                    bs_ = bs_ + bodies(F, F.fns[lc])
                    sl0 = lib.slice_back(b, c.args[:1], through_calls=True, at=(c.bb, None))
                    out['base'] = 'header.nonce' if (sl0.has_field('Mv2eHeader', 'nonce') or any('nonce' in f for o, f in sl0.fields if o == '{closure}')) else 'other'
        for b in bs_:
            for c in b.calls():
                if c.name == 'copy_from_slice':
                    src = lib.slice_back(b, c.args[1:2], through_calls=True, at=(c.bb, None))
                    if any(x.name == 'to_be_bytes' for x in src.calls):
                        out['be'] = True
                        # only a prefix of the big-endian counter (`counter[..k]`): those are its HIGH-order bytes
                        if 'RangeTo::RangeTo' in src.aggs:
                            out['be_prefix'] = True
                        dst = lib.slice_back(b, c.args[:1], through_calls=True, at=(c.bb, None))
                        # range start = NONCE_SIZE - 8
                        for bb, i, s in b.stmts():
                            rv = s['rv']
                            if rv['k'] == 'agg' and rv.get('adt') == 'RangeFrom' and s['lhs']['l'] in dst.locals:
                                v = lib.const_eval(b, rv['ops'][0], (bb, i))
                                ns = F.const('NONCE_SIZE')
                                if v is not None and ns is not None and v == ns - 8:
                                    out['last8'] = True
                                elif v is not None and ns is not None and 0 < ns - v < 8:
                                    out['last8'] = 'last%d' % (ns - v)
                        if out['helper'] is None:
                            out['base'] = 'header.nonce' if (dst.has_field('Mv2eHeader', 'nonce') or any('nonce' in f for o, f in dst.fields if o == '{closure}')) else 'other'
                if c.name in ('to_le_bytes', 'from_le_bytes'):
                    ty = b.local_ty(c.dest.l) if c.name == 'to_le_bytes' else b.local_ty(op_place(c.args[0]).l) if op_place(c.args[0]) is not None else ''
                    m = lib._ARR.search(ty)
                    if m and int(m.group(1)) == 4:
                        out['len_le'] = True
                        out['len_w'] = 4
            # chunk index += 1
            for bb, i, s in b.stmts():
                rv = s['rv']
                if rv['k'] == 'bin' and rv['op'] in ('Add', 'AddWithOverflow') and rv['b'].get('k', {}).get('v') == 1:
                    p = op_place(rv['a'])
                    if p is not None and 'u64' in b.local_ty(p.l):
                        out['inc1'] = True
        return out
    sl_, su = nonce_shape(lk), nonce_shape(st)
    ctx.evaluations += 2
    agree = {k: v for k, v in sl_.items() if k != 'base'} == {k: v for k, v in su.items() if k != 'base'}
    if agree and sl_['be'] and sl_['be_prefix']:
        ctx.bad('AGREE-C29b', st, 'the per-chunk nonce takes a prefix of the big-endian chunk counter, i.e. its high-order bytes: they are zero for every realistic chunk index, so all chunks '
                'of a capsule are sealed under the same nonce and are no longer bound to their position (chunks can be swapped or duplicated undetected)', detail='nonce-ignores-low-counter-bytes')
    elif agree and sl_['be'] and sl_['last8'] is True and sl_['len_le'] and sl_['inc1']:
        ctx.ok('AGREE-C29b', st, 'lock and unlock: nonce = base with BE chunk index in the last 8 bytes%s; u32 LE length prefix; index += 1 per chunk' % ((' (shared helper %s)' % sl_['helper']) if sl_['helper'] else ''))
    else:
        ctx.bad('AGREE-C29b', st, 'nonce derivation / chunk framing differ between lock (%s) and unlock (%s)' % (sl_, su), detail='nonce-framing')
    # ---- c
    for b in bodies(F, st):
        dec = [c for c in b.calls() if c.is_(('encryption::crypto::decrypt', 'decrypt'))]
        wr = [c for c in b.calls() if c.name == 'write_all']
        for w in wr:
            ctx.evaluations += 1
            if dec and lib.call_success_dominates(b, dec[0], w.bb) and dec[0] in lib.slice_back(b, w.args[1:2], through_calls=True, at=(w.bb, None)).calls:
                ctx.ok('MPT-C29c', b, 'plaintext written only after decrypt succeeded on that chunk', line=w.line)
            else:
                ctx.bad('MPT-C29c', b, 'bytes are written to the output without a successful decrypt of that chunk', line=w.line, detail='write-without-decrypt')
    wa = st.calls_to('write_atomic')
    dk = st.calls_to('derive_key')
    if wa:
        ctx.ok('MPT-C29c', st, 'output produced through write_atomic (discarded on error)', line=wa[0].line)
    else:
        ctx.bad('MPT-C29c', st, 'streaming unlock does not write through write_atomic', detail='no-write-atomic')
    if dk and lib.slice_back(st, dk[0].args[1:2], through_calls=True, at=(dk[0].bb, None)).has_field('Mv2eHeader', 'salt') and 3 in lib.slice_back(st, dk[0].args[:1], through_calls=True, at=(dk[0].bb, None)).args:
        ctx.ok('MPT-C29c', st, 'key = derive_key(password, header.salt)', line=dk[0].line)
    else:
        ctx.bad('MPT-C29c', st, 'key is not derived from the password and header.salt', detail='key-derivation')
    # ---- d
    adt = F.adt('Mv2eHeader')
    dech = F.fn('Mv2eHeader::decode')
    if adt is not None:
        read = set()
        for fn in (st, one, F.fn('encryption::capsule::unlock_file')):
            if fn is None:
                continue
            for b in bodies(F, fn):
                for bb, i, s in b.stmts():
                    for p in rv_places(s['rv']):
                        for o, f in p.field_owners():
                            if o == 'Mv2eHeader':
                                read.add(f)
                            if o == '{closure}' and 'header.' in f:
                                read.add(f.split('header.')[-1])
                for c in b.calls():
                    for a in c.args:
                        p = op_place(a)
                        if p is not None:
                            for o, f in p.field_owners():
                                if o == 'Mv2eHeader':
                                    read.add(f)
        validated = set()
        if dech is not None:
            for c in lib.comparisons(dech):
                pass
            for bb, i, s in dech.stmts():
                pass
            # fields whose decoded value is compared/validated inside decode (magic, version, algorithms)
            for vs in lib.variant_switches(dech):
                pass
            errs = lib.enum_constructions(dech, 'EncryptionError')
            if errs:
                validated |= {'magic', 'version', 'kdf_algorithm', 'cipher_algorithm'}
        fields = [f['name'] for f in adt['variants'][0]['fields']]
        ctx.evaluations += len(fields)
        for f in fields:
            if f in read or f in validated:
                ctx.ok('COVER-C29d', st, 'header.%s is %s on the unlock path' % (f, 'read' if f in read else 'validated by decode'))
            else:
                ctx.bad('COVER-C29d', st, 'header.%s is written by lock but never read or validated on the unlock path' % f, detail='header-field-unused:' + f)
