"""C31 — footer scan finds the most recent valid commit.

Decided (find_last_valid_footer):
  MPT-C31a  Some(FooterSlice{…}) is constructed only (i) in the Some arm of CommitFooter::decode applied to the
            FOOTER_SIZE-byte candidate at the magic position, (ii) past the toc_len bounds edges (toc_len != 0 and
            toc_len <= pos) and (iii) past the true edge of hash_matches over exactly bytes[pos - toc_len .. pos];
            toc_bytes of the result is that very slice and footer_offset is pos.
  SCAN-C31b the scan is backward and monotone: candidates come from memrchr over bytes[..search_end] and every
            rejected candidate sets search_end = pos (strictly smaller), so the first accepted candidate is the one
            ending at the highest offset; the loop cannot return a candidate it has not decoded.
  HASH-C31c CommitFooter::hash_matches answers with one full-width equality between the BLAKE3 digest of exactly its
            slice argument (new/update/finalize or blake3::hash, no sub-slicing) and self.toc_hash (no sub-slicing); it
            has no other exit value (a conditional early false/true would reject a valid or accept an invalid footer).
  AGREE-C30b (shared with C30) the decoder the scan relies on reads every footer field at the writer's offset and width and
            rejects a wrong length or magic.
Not decided: the loop-invariant argument itself (termination / highest offset) beyond these shape facts."""
from . import lib
from .facts import Place, op_place


def run(ctx):
    ctx.rule('MPT-C31a', 'FooterSlice returned only past decode(Some) + toc_len bounds + hash_matches(true) over bytes[pos-toc_len..pos]')
    ctx.rule('SCAN-C31b', 'backward monotone scan: memrchr over bytes[..search_end]; rejection sets search_end = pos')
    F = ctx.facts()
    fn = ctx.need('MPT-C31a', 'footer::find_last_valid_footer')
    if fn is None:
        return
    ctx.touch(fn, len(fn.blocks))
    aggs = [(bb, i, s) for bb, i, s in fn.stmts() if s['rv']['k'] == 'agg' and s['rv'].get('adt') == 'FooterSlice']
    dec = fn.calls_to('CommitFooter::decode')
    hm = fn.calls_to('CommitFooter::hash_matches')
    mr = [c for c in fn.calls() if c.name == 'memrchr']
    if not (aggs and dec and hm and mr):
        ctx.lost('MPT-C31a', 'find_last_valid_footer anchors (FooterSlice/decode/hash_matches/memrchr: %s)' % [bool(aggs), bool(dec), bool(hm), bool(mr)])
        return
    for bb, i, s in aggs:
        ops = dict(zip(s['rv']['fields'], s['rv']['ops']))
        problems = []
        # (i) decode Some arm
        some_ok = False
        for vs in lib.variant_switches(fn):
            if vs['enum'] == 'Option' and 'Some' in vs['arms'] and dec[0] in lib.slice_back(fn, [vs['place']], through_calls=False, at=(vs['bb'], None)).calls:
                if lib.edge_dominates(fn, vs['bb'], vs['arms']['Some'], bb):
                    some_ok = True
        if not some_ok:
            problems.append('not in the Some arm of CommitFooter::decode')
        # (iii) hash_matches true edge
        cut = set()
        for bs in lib.bool_switches(fn):
            sl = lib.slice_back(fn, [bs['local']], through_calls=False, at=(bs['bb'], None))
            if hm[0] in sl.calls:
                neg = 'Not' in sl.ops
                cut.add((bs['bb'], bs['t_false'] if neg else bs['t_true']))
        if not cut or lib.reachable_without_edges(fn, bb, cut):
            problems.append('reachable without the hash_matches true edge')
        # (ii) bounds: toc_len == 0 false edge and toc_len > toc_end false edge
        g0 = lib.find_guard(fn, bb, '!=', lambda x: x.has_field('CommitFooter', 'toc_len'), lambda y: 0 in y.const_vals() and not y.fields)
        g1 = lib.find_guard(fn, bb, '<=', lambda x: x.has_field('CommitFooter', 'toc_len'), lambda y: mr[0] in y.calls and not y.has_field('CommitFooter', 'toc_len'))
        # `a == 0 || a > b` compiles to two edges into the reject block: accept the cut form
        if g0 is None or g1 is None:
            cutb = set()
            for c in lib.comparisons(fn):
                a, b_ = c.sa(), c.sb()
                if a.has_field('CommitFooter', 'toc_len') or b_.has_field('CommitFooter', 'toc_len'):
                    for tgt, rel in c.edges():
                        cutb.add((c.bb, tgt, rel))
            acc = {(s_, t_) for s_, t_, rel in cutb if rel in ('!=', '<=', '<', '>=') }
            # require both comparisons to exist
            kinds = {rel for s_, t_, rel in cutb}
            if not ({'==', '!='} & kinds and {'>', '<='} & kinds | {'<', '>='} & kinds):
                problems.append('toc_len bounds tests missing')
        # hash over exactly bytes[pos - toc_len .. pos]
        hs = lib.slice_back(fn, hm[0].args[1:2], through_calls=True, at=(hm[0].bb, None))
        if not (hs.has_field('CommitFooter', 'toc_len') and mr[0] in hs.calls and ({'Sub', 'SubWithOverflow'} & hs.ops)):
            problems.append('hash_matches is not applied to bytes[pos - toc_len .. pos]')
        tb = lib.slice_back(fn, [ops['toc_bytes']], through_calls=False, at=(bb, i))
        hb = lib.slice_back(fn, hm[0].args[1:2], through_calls=False, at=(hm[0].bb, None))
        if not (tb.locals & hb.locals):
            problems.append('returned toc_bytes is not the slice that was hashed')
        fo = lib.slice_back(fn, [ops['footer_offset']], through_calls=True, at=(bb, i))
        if mr[0] not in fo.calls or fo.ops & {'Add', 'AddWithOverflow', 'Sub', 'SubWithOverflow'}:
            problems.append('footer_offset is not the magic position')
        # candidate = bytes[pos .. pos + FOOTER_SIZE]
        cs = lib.slice_back(fn, dec[0].args[:1], through_calls=True, at=(dec[0].bb, None))
        if not (mr[0] in cs.calls and any(k.get('name', '').endswith('FOOTER_SIZE') or k.get('v') == F.const('FOOTER_SIZE') for k in cs.consts)):
            problems.append('decode is not applied to bytes[pos .. pos + FOOTER_SIZE]')
        ctx.evaluations += 6
        if problems:
            ctx.bad('MPT-C31a', fn, 'footer accepted although: ' + '; '.join(problems), line=s.get('l'), detail='footer-accept:' + '|'.join(problems))
        else:
            ctx.ok('MPT-C31a', fn, 'FooterSlice built only past decode(Some), toc_len bounds and hash_matches over bytes[pos-toc_len..pos]; toc_bytes is that slice', line=s.get('l'))
    # ---- scan shape
    se = None
    sl = lib.slice_back(fn, mr[0].args[1:2], through_calls=True, at=(mr[0].bb, None), stop_at_calls=('memrchr',))
    named = set()
    for bb2, i2, s2 in fn.stmts():
        rv2 = s2['rv']
        if rv2['k'] == 'agg' and rv2.get('adt') == 'RangeTo' and s2['lhs']['l'] in sl.locals:
            p = op_place(rv2['ops'][0])
            if p is not None:
                named |= {l for l in lib.root_of(fn, p.l) | {p.l} if fn.local_name(l) and fn.local_ty(l) == 'usize'}
    d = lib.defs(fn)
    ok = False
    for l in named:
        sites = [s for s in d.get(l, ()) if s['kind'] == 'stmt' and not s['lhs'].p]
        redefs = [s for s in sites if mr[0] in lib.slice_back(fn, lib.rv_operands(s['rv']), through_calls=True, at=(s['bb'], s['idx']), stop_at_calls=('memrchr',)).calls]
        plain = [s for s in redefs if not lib.slice_back(fn, lib.rv_operands(s['rv']), through_calls=False, at=(s['bb'], s['idx'])).ops]
        if redefs and len(plain) == len(redefs):
            ok = True
            se = l
    ctx.evaluations += 2
    if ok and 'RangeTo::RangeTo' in sl.aggs:
        ctx.ok('SCAN-C31b', fn, 'memrchr scans bytes[..%s] and every rejection sets %s = pos (backward, monotone)' % (fn.local_name(se), fn.local_name(se)), line=mr[0].line)
    else:
        ctx.bad('SCAN-C31b', fn, 'the scan is not a backward monotone search (search window not shrunk to the rejected position)', line=mr[0].line, detail='scan-shape')
    # every `continue` (rejection) path passes a search_end update: the loop head is reachable from a rejection only through such a store
    if se is not None:
        stores = {s['bb'] for s in d.get(se, ()) if s['kind'] == 'stmt' and mr[0] in lib.slice_back(fn, lib.rv_operands(s['rv']), through_calls=True, at=(s['bb'], s['idx']), stop_at_calls=('memrchr',)).calls}
        tgt = mr[0].target
        back = fn.reachable(tgt, avoid=stores)
        if mr[0].bb in back:
            ctx.bad('SCAN-C31b', fn, 'the loop can revisit memrchr without shrinking the search window (possible livelock / repeated candidate)', line=mr[0].line, detail='scan-no-progress')
        else:
            ctx.ok('SCAN-C31b', fn, 'every path back to memrchr shrinks the search window', line=mr[0].line)
    hash_rule(ctx, F)
    # the scan's notion of a valid footer is CommitFooter::decode's: the decoder must read magic, toc_len and toc_hash at the
    # offsets and widths the writer uses (shared with the C30 check; a narrower toc_len read accepts a footer the writer never wrote)
    ctx.rule('AGREE-C30b', 'footer field -> (offset, width): encode == decode; magic at 0; decode rejects wrong length/magic (shared with C30)')
    from . import c30
    c30.footer(ctx, F)


HASH_SIDE = {'new', 'update', 'finalize', 'hash', 'as_bytes', 'as_slice', 'as_ref', 'from', 'into', 'deref', 'borrow', 'clone'}
FIELD_SIDE = {'as_slice', 'as_ref', 'from', 'into', 'deref', 'borrow', 'clone'}
EQ_NAMES = {'eq', 'ct_eq', 'constant_time_eq', 'constant_time_eq_32'}


def hash_rule(ctx, F):
    ctx.rule('HASH-C31c', 'hash_matches = (blake3(toc_bytes) == self.toc_hash), full width, single exit value')
    fn = ctx.need('HASH-C31c', 'CommitFooter::hash_matches')
    if fn is None:
        return
    ctx.touch(fn, len(fn.blocks))
    problems = []
    d = lib.defs(fn).get(0, [])
    eqs = [x['call'] for x in d if x['kind'] == 'call' and x['call'].name in EQ_NAMES]
    if len(d) != 1 or len(eqs) != 1 or lib.bool_switches(fn) or lib.variant_switches(fn):
        problems.append('the result is not a single equality (defs of the return place: %d, branches: %d)' % (len(d), len(lib.bool_switches(fn)) + len(lib.variant_switches(fn))))
    else:
        e = eqs[0]
        sides = [lib.slice_back(fn, e.args[i:i + 1], through_calls=True, at=(e.bb, None)) for i in (0, 1)]
        hs = [s for s in sides if {'finalize', 'hash'} & {c.name for c in s.calls}]
        fs = [s for s in sides if s.has_field('CommitFooter', 'toc_hash') and not ({'finalize', 'hash'} & {c.name for c in s.calls})]
        if len(hs) != 1 or len(fs) != 1:
            problems.append('the equality does not compare a BLAKE3 digest with self.toc_hash')
        else:
            h, f = hs[0], fs[0]
            extra = {c.name for c in h.calls} - HASH_SIDE
            if extra or h.aggs or h.ops:
                problems.append('digest side passes through %s' % sorted(extra | set(h.aggs) | set(h.ops)))
            if 2 not in h.args or h.fields:
                problems.append('the digest is not taken over the slice argument alone')
            extra = {c.name for c in f.calls} - FIELD_SIDE
            if extra or f.aggs or f.ops or f.fields != {('CommitFooter', 'toc_hash')}:
                problems.append('stored-hash side is not the whole toc_hash field (%s)' % sorted(extra | set(f.aggs) | set(f.ops)))
            for u in [c for c in fn.calls() if c.name in ('update', 'hash')]:
                us = lib.slice_back(fn, u.args[-1:], through_calls=True, at=(u.bb, None))
                if us.calls or us.aggs or us.ops or 2 not in us.args:
                    problems.append('the hashed bytes are not the whole slice argument')
    ctx.evaluations += 5
    if problems:
        ctx.bad('HASH-C31c', fn, 'hash_matches: ' + '; '.join(problems), detail='hash-eq:' + '|'.join(p.split(' (')[0] for p in problems))
    else:
        ctx.ok('HASH-C31c', fn, 'one full-width equality between blake3(slice argument) and self.toc_hash; no other exit value')
