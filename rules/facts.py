"""Fact base: loads the JSON-lines emitted by the mvfacts driver and offers
CFG / dominance / success-edge / place utilities over the mini-MIR.
Stdlib only."""
import gc, json, os, pickle, re, sys
from collections import defaultdict

TRY_BRANCH = 'std::ops::Try::branch'
FROM_RESIDUAL = 'std::ops::FromResidual::from_residual'


class Place:
    __slots__ = ('l', 'p')

    def __init__(self, j):
        self.l = j['l']
        self.p = j.get('p', ())

    def fields(self):
        """field names along the projection (derefs/downcasts/indices dropped)"""
        return tuple(e['f'] for e in self.p if isinstance(e, dict) and 'f' in e)

    def field_owners(self):
        return tuple((e.get('o'), e['f']) for e in self.p if isinstance(e, dict) and 'f' in e)

    def downcasts(self):
        return tuple(e['d'] for e in self.p if isinstance(e, dict) and 'd' in e)

    def is_local(self):
        return not self.p

    def has_deref(self):
        return '*' in self.p

    def __repr__(self):
        s = '_%d' % self.l
        for e in self.p:
            if e == '*':
                s = '(*%s)' % s
            elif isinstance(e, dict):
                if 'f' in e:
                    s += '.' + e['f']
                elif 'd' in e:
                    s = '(%s as %s)' % (s, e['d'])
                elif 'ix' in e:
                    s += '[_%d]' % e['ix']
                elif 'cix' in e:
                    s += '[%d]' % e['cix']
            else:
                s += str(e)
        return s


def op_place(op):
    """Place read by an operand, or None for constants."""
    if 'c' in op:
        return Place(op['c'])
    if 'm' in op:
        return Place(op['m'])
    return None


def op_const(op):
    return op.get('k')


def rv_operands(rv):
    """All operands (dict form) read by an rvalue, plus places borrowed/inspected."""
    k = rv['k']
    out = []
    if k in ('use', 'repeat', 'cast', 'un'):
        out.append(rv['a'])
    elif k == 'bin':
        out += [rv['a'], rv['b']]
    elif k == 'agg':
        out += rv['ops']
    elif k in ('ref', 'rawptr', 'discr'):
        out.append({'c': rv['p']})
    return out


def rv_places(rv):
    return [p for p in (op_place(o) for o in rv_operands(rv)) if p is not None]


class Call:
    """A call terminator."""
    __slots__ = ('fn', 'bb', 't')

    def __init__(self, fn, bb, t):
        self.fn, self.bb, self.t = fn, bb, t

    @property
    def callee(self):
        """best name for the callee: resolved instance if known, else the declared item"""
        return self.t.get('res') or self.t.get('decl') or ('<indirect:%s>' % self.t.get('indirect'))

    @property
    def decl(self):
        return self.t.get('decl')

    @property
    def key(self):
        """stable module-free key of the callee (`Type::method`, `<Type as Trait>::m`, `Trait::m`)"""
        return self.t.get('res_key') or self.t.get('decl_key') or self.callee

    def names(self):
        t = self.t
        return [n for n in (t.get('res'), t.get('decl'), t.get('res_key'), t.get('decl_key')) if n]

    def is_(self, pat):
        """callee matches pattern(s) by full path, path suffix or stable key"""
        if isinstance(pat, (list, tuple, set, frozenset)):
            return any(self.is_(p) for p in pat)
        return any(path_matches(n, pat) for n in self.names())

    def self_ty(self):
        """first generic argument of the resolved/declared callee (Self for trait methods)"""
        ss = self.t.get('res_substs') or self.t.get('substs') or []
        return ss[0] if ss else None

    @property
    def name(self):
        return self.t.get('decl_name')

    @property
    def args(self):
        return self.t['args']

    @property
    def dest(self):
        return Place(self.t['dest'])

    @property
    def target(self):
        return self.t.get('t')

    @property
    def line(self):
        return self.t.get('l')

    @property
    def local_callee(self):
        if self.t.get('res') and self.t.get('res_local'):
            return self.t['res']
        if not self.t.get('res') and self.t.get('decl_local'):
            return self.t['decl']
        return None

    def is_q(self):
        return 'desugar:QuestionMark' in self.t.get('mac', ())

    def __repr__(self):
        return '%s bb%d: %s' % (self.fn.key, self.bb, self.callee)


class Fn:
    def __init__(self, rec):
        self.r = rec
        self.path = rec['path']
        self.key = rec['key']
        self.name = rec['name']
        self.blocks = rec['blocks']
        self.locals = rec['locals']
        self.file = rec['file']
        self.line = rec['line']
        self._succ = None
        self._pred = None
        self._dom = None
        self._pdom = None
        self._calls = None

    # ---------- identity
    def __repr__(self):
        return 'Fn(%s)' % self.path

    def at(self, line=None):
        return '%s:%s' % (self.file, line if line is not None else self.line)

    @property
    def is_closure(self):
        return self.r['def_kind'] == 'Closure'

    @property
    def root(self):
        return self.r.get('root')

    def local_ty(self, l):
        return self.locals[l]['ty']

    def local_name(self, l):
        return self.locals[l].get('n')

    def returns_result(self):
        return self.local_ty(0).startswith('std::result::Result<')

    # ---------- CFG (normal edges only; unwind edges and cleanup blocks are ignored)
    def succs(self, b):
        if self._succ is None:
            self._build_cfg()
        return self._succ[b]

    def preds(self, b):
        if self._pred is None:
            self._build_cfg()
        return self._pred[b]

    def _build_cfg(self):
        n = len(self.blocks)
        succ = [[] for _ in range(n)]
        pred = [[] for _ in range(n)]
        for i, b in enumerate(self.blocks):
            if b.get('cleanup'):
                continue
            t = b['t']
            k = t['k']
            out = []
            if k in ('goto', 'drop', 'assert'):
                out.append(t['t'])
            elif k == 'call':
                if 't' in t:
                    out.append(t['t'])
            elif k == 'switch':
                for _, tb in t['ts']:
                    out.append(tb)
                out.append(t['o'])
            seen = set()
            for s in out:
                if s in seen:
                    continue
                seen.add(s)
                succ[i].append(s)
                pred[s].append(i)
        self._succ, self._pred = succ, pred

    def reachable(self, start=0, avoid=()):
        avoid = set(avoid)
        seen = set()
        st = [start]
        while st:
            b = st.pop()
            if b in seen or b in avoid:
                continue
            seen.add(b)
            st.extend(self.succs(b))
        return seen

    def live_blocks(self):
        """blocks reachable from entry whose terminator is not `unreachable`"""
        return self.reachable(0)

    # ---------- dominators (iterative, Cooper-Harvey-Kennedy)
    def dom(self):
        if self._dom is None:
            self._dom = _dominators(len(self.blocks), 0, self.succs, self.preds)
        return self._dom

    def dominates(self, a, b):
        """block a dominates block b (reflexive)"""
        idom = self.dom()
        if b not in idom:
            return False  # unreachable
        while True:
            if a == b:
                return True
            nb = idom.get(b)
            if nb is None or nb == b:
                return False
            b = nb

    def return_blocks(self):
        return [i for i in self.live_blocks() if self.blocks[i]['t']['k'] == 'return']

    # ---------- calls
    def calls(self):
        if self._calls is None:
            live = self.live_blocks()
            self._calls = [Call(self, i, b['t']) for i, b in enumerate(self.blocks)
                           if b['t']['k'] in ('call', 'tailcall') and i in live]
        return self._calls

    def call_at(self, bb):
        for c in self.calls():
            if c.bb == bb:
                return c
        return None

    def calls_to(self, pred):
        """pred: str (suffix/equality match on resolved or declared path) or callable(Call)"""
        m = callee_matcher(pred)
        return [c for c in self.calls() if m(c)]

    def stmts(self):
        """yield (bb, idx, stmt) over live blocks"""
        live = self.live_blocks()
        for i, b in enumerate(self.blocks):
            if i in live:
                for j, s in enumerate(b['s']):
                    yield i, j, s

    # ---------- result flow
    def success_block(self, call):
        """Block entered exactly when `call` returned Ok/Some-Continue, following the value
        through moves, `map_err`-like adapters and `?`. Returns (block, how) or (None, why)."""
        cur = call.dest
        if cur.p:
            return (None, 'dest-not-local')
        cur = cur.l
        b = call.target
        if b is None:
            return (None, 'diverges')
        ty = self.local_ty(cur)
        if not (ty.startswith('std::result::Result<') or ty.startswith('std::option::Option<')):
            return (b, 'infallible')
        hops = 0
        while hops < 12:
            hops += 1
            blk = self.blocks[b]
            # statements: follow plain moves, or a discriminant read
            discr_local = None
            for s in blk['s']:
                rv = s['rv']
                if rv['k'] == 'use':
                    p = op_place(rv['a'])
                    if p is not None and p.l == cur and not p.p and not Place(s['lhs']).p:
                        cur = s['lhs']['l']
                elif rv['k'] == 'discr' and rv['p']['l'] == cur and not rv['p'].get('p'):
                    discr_local = s['lhs']['l']
                    discr_enum = rv.get('enum')
            t = blk['t']
            if t['k'] == 'switch' and discr_local is not None:
                d = op_place(t['d'])
                if d is not None and d.l == discr_local:
                    okv = {'Result': 0, 'ControlFlow': 0, 'Option': 1}.get(discr_enum)
                    if okv is None:
                        return (None, 'switch-on-' + str(discr_enum))
                    for v, tb in t['ts']:
                        if v == okv:
                            return (tb, 'match')
                    return (t['o'], 'match-otherwise')
            if t['k'] == 'call':
                args = [op_place(a) for a in t['args']]
                uses = [a for a in args if a is not None and a.l == cur and not a.p]
                if uses and 't' in t and not Place(t['dest']).p:
                    # value moved into an adapter (`?` branch, map_err, ok_or, context…)
                    cur = t['dest']['l']
                    b = t['t']
                    continue
                if not uses and 't' in t:
                    b = t['t']
                    continue
                return (None, 'call-without-target')
            if t['k'] in ('goto', 'drop', 'assert'):
                b = t['t']
                continue
            return (None, 'lost@bb%d' % b)
        return (None, 'too-many-hops')

    # ---------- exits
    def ret_assignments(self):
        """Sites that define the return place _0: list of dict(bb, idx|None, kind, detail)
        kind in {'ok','err','call','other'}; for call: the Call."""
        out = []
        live = self.live_blocks()
        for i, b in enumerate(self.blocks):
            if i not in live:
                continue
            for j, s in enumerate(b['s']):
                if s['lhs']['l'] == 0 and not s['lhs'].get('p'):
                    rv = s['rv']
                    kind = 'other'
                    if rv['k'] == 'agg' and rv.get('ak') == 'adt' and rv.get('adt') in ('Result', 'Option'):
                        kind = 'ok' if rv['variant'] in ('Ok', 'Some') else 'err'
                    out.append(dict(bb=i, idx=j, kind=kind, rv=rv, line=s.get('l')))
            t = b['t']
            if t['k'] == 'call' and t['dest']['l'] == 0 and not t['dest'].get('p'):
                c = self.call_at(i)
                kind = 'err' if (t.get('decl') == FROM_RESIDUAL) else 'call'
                out.append(dict(bb=i, idx=None, kind=kind, call=c, line=t.get('l')))
        return out

    def ok_exits(self):
        """return-place definitions that can carry a success value"""
        return [r for r in self.ret_assignments() if r['kind'] != 'err']


def _dominators(n, entry, succs, preds):
    # reverse postorder
    order = []
    seen = set()
    st = [(entry, iter(succs(entry)))]
    seen.add(entry)
    while st:
        node, it = st[-1]
        adv = False
        for s in it:
            if s not in seen:
                seen.add(s)
                st.append((s, iter(succs(s))))
                adv = True
                break
        if not adv:
            order.append(node)
            st.pop()
    rpo = list(reversed(order))
    num = {b: i for i, b in enumerate(rpo)}
    idom = {entry: entry}
    changed = True
    while changed:
        changed = False
        for b in rpo[1:]:
            new = None
            for p in preds(b):
                if p in idom:
                    if new is None:
                        new = p
                    else:
                        a, c = p, new
                        while a != c:
                            while num[a] > num[c]:
                                a = idom[a]
                            while num[c] > num[a]:
                                c = idom[c]
                        new = a
            if new is not None and idom.get(b) != new:
                idom[b] = new
                changed = True
    return idom


def callee_matcher(pred):
    if callable(pred):
        return pred
    if isinstance(pred, (list, tuple, set, frozenset)):
        ms = [callee_matcher(p) for p in pred]
        return lambda c: any(m(c) for m in ms)
    pat = pred

    return lambda c: c.is_(pat)


def path_matches(path, pat):
    """`pat` matches `path` if equal, or if pat is a `::`-suffix of path (type-qualified
    suffixes such as `EmbeddedWal::append_entry` or `File::sync_all`)."""
    if path == pat:
        return True
    if path.endswith('::' + pat):
        return True
    # `<impl Type>::m` / `<Type as Trait>::m` forms
    if pat.startswith('<') and path.endswith(pat):
        return True
    return False


class Facts:
    def __init__(self, path):
        self.meta = None
        self.fns = {}
        self.by_key = defaultdict(list)
        self.by_name = defaultdict(list)
        self.adts = {}
        self.adts_by_name = defaultdict(list)
        self.consts = {}
        self.path = path
        cache = path + '.pkl'
        recs = None
        gc.disable()  # building millions of small dicts: the cyclic GC dominates load time otherwise
        if os.path.exists(cache) and os.path.getmtime(cache) >= os.path.getmtime(path):
            try:
                with open(cache, 'rb') as f:
                    recs = pickle.load(f)
            except Exception:
                recs = None
        if recs is None:
            recs = []
            with open(path) as f:
                for line in f:
                    recs.append(json.loads(line))
            try:
                tmp = cache + '.%d' % os.getpid()
                with open(tmp, 'wb') as f:
                    pickle.dump(recs, f, protocol=pickle.HIGHEST_PROTOCOL)
                os.replace(tmp, cache)
            except Exception:
                pass
        ended = False
        for r in recs:
            k = r['kind']
            if k == 'fn':
                fn = Fn(r)
                n = 2
                while fn.path in self.fns:   # (rare) def-path collisions of macro-generated items
                    fn.path = '%s#%d' % (r['path'], n)
                    n += 1
                self.fns[fn.path] = fn
                self.by_key[fn.key].append(fn)
                self.by_name[fn.name].append(fn)
            elif k == 'adt':
                self.adts[r['path']] = r
                self.adts_by_name[r['name']].append(r)
            elif k == 'const':
                self.consts[r['path']] = r
            elif k == 'meta':
                self.meta = r
            elif k == 'end':
                ended = r['bodies']
        gc.enable()
        if ended is False or ended != len(self.fns):
            raise RuntimeError('facts file truncated: %s' % path)
        self._children = None

    # ---------- lookup
    def fn(self, key):
        """unique function by key (`Type::name`), full path, or path suffix; None if absent"""
        if key in self.fns:
            return self.fns[key]
        c = self.by_key.get(key)
        if c:
            if len(c) == 1:
                return c[0]
            raise KeyError('ambiguous function key %s: %s' % (key, [f.path for f in c]))
        c = [f for p, f in self.fns.items() if p.endswith('::' + key)]
        if len(c) == 1:
            return c[0]
        if len(c) > 1:
            raise KeyError('ambiguous function suffix %s: %s' % (key, [f.path for f in c]))
        return None

    def closures_of(self, fn):
        """all closure bodies nested (transitively) in fn"""
        if self._children is None:
            ch = defaultdict(list)
            for f in self.fns.values():
                if f.is_closure:
                    ch[f.r['parent']].append(f)
            self._children = ch
        out = []
        st = [fn.path]
        while st:
            p = st.pop()
            for c in self._children.get(p, ()):
                out.append(c)
                st.append(c.path)
        return out

    def adt(self, name):
        c = self.adts_by_name.get(name, [])
        if len(c) == 1:
            return c[0]
        if not c:
            return None
        raise KeyError('ambiguous adt %s: %s' % (name, [a['path'] for a in c]))

    def const(self, name):
        c = [v for k, v in self.consts.items() if k == name or k.endswith('::' + name)]
        if len(c) == 1:
            return c[0]['val']
        return None
