"""C15 — timeline is complete, chronological and correctly filtered.

Decided:
  AGREE-C15a      the sort key of time_index::append_track is the tuple (timestamp, frame_id), in that order, and
                  read_track rejects exactly that order's violations (timestamp <, then timestamp == && frame_id <).
  TYPESTATE-C15b  sortedness typestate of the TimeIndexEntry vector in build_timeline: read_track => sorted;
                  collect / push / extend => unsorted; sort* => sorted; the vector must be *sorted* where it is
                  reversed, binary-searched (partition_point / binary_search*) or consumed into the result.
  MPT-C15c        since/until are applied per entry with inclusive comparators (>= since, <= until) in a retain/filter
                  over every entry; the order of stages is filter -> reverse -> take(limit); the result entry is built
                  from the frame the entry names, only if Active.
  GUARD-C15d      the persisted time index holds active frames only: every iterator chain over toc.frames that produces
                  TimeIndexEntry values filters on FrameStatus::Active in that chain (build_timeline applies
                  take(limit) before it drops non-active frames, so a dead entry in the index uses up a limit slot and
                  a limited timeline is no longer a prefix of the unlimited one). Shared with C08's feeder rule.
Not decided: completeness (every active document frame exactly once) — value-level."""
from . import lib
from .facts import Place, op_place

SORTED, UNSORTED = 0, 1
BSEARCH = ('partition_point', 'binary_search', 'binary_search_by', 'binary_search_by_key')


def _arg_closures(F, fn, c):
    out = []
    for a in c.args:
        for cdef in lib.slice_back(fn, [a], through_calls=False, at=(c.bb, None)).closures:
            if cdef in F.fns:
                out += [F.fns[cdef]] + F.closures_of(F.fns[cdef])
    return out


def _ts_cmp(F, bodies):
    """comparison operators applied to TimeIndexEntry.timestamp (entry on the left) in closure bodies"""
    got = set()
    for b in bodies:
        for bb, i, s in b.stmts():
            rv = s['rv']
            if rv['k'] == 'bin' and rv['op'] in ('Ge', 'Le', 'Gt', 'Lt'):
                if lib.slice_back(b, [rv['a']], through_calls=False).has_field('TimeIndexEntry', 'timestamp'):
                    got.add(rv['op'])
                elif lib.slice_back(b, [rv['b']], through_calls=False).has_field('TimeIndexEntry', 'timestamp'):
                    got.add({'Ge': 'Le', 'Le': 'Ge', 'Gt': 'Lt', 'Lt': 'Gt'}[rv['op']])
    return got
VT = 'Vec<io::time_index::TimeIndexEntry>'


def run(ctx):
    ctx.rule('AGREE-C15a', 'append_track sorts by (timestamp, frame_id); read_track validates the same lexicographic order')
    ctx.rule('TYPESTATE-C15b', 'the timeline entry vector is sorted wherever it is reversed, binary-searched or consumed')
    ctx.rule('MPT-C15c', 'inclusive since/until per entry; filter -> reverse -> take(limit); entries resolve to Active frames')
    F = ctx.facts()
    _key(ctx, F)
    _timeline(ctx, F)
    _index_members(ctx, F)


def _index_members(ctx, F):
    from . import c08
    ctx.rule('GUARD-C15d', 'every toc.frames chain that produces TimeIndexEntry values tests FrameStatus::Active in that chain')
    n = 0
    for f in sorted(F.fns.values(), key=lambda x: x.path):
        if f.is_closure or f.r.get('derive'):
            continue
        bodies = [f] + F.closures_of(f)
        for b in bodies:
            if not b.is_closure:
                continue
            for c in b.calls():
                if not c.is_(('TimeIndexEntry::new',)):
                    continue
                g = c08._site_guarded(F, f, bodies, b, c)
                if g is None:
                    continue
                n += 1
                ctx.evaluations += 1
                ctx.touch(f, 1)
                if g:
                    ctx.ok('GUARD-C15d', f, 'time-index entries are produced from active frames only', line=c.line)
                else:
                    ctx.bad('GUARD-C15d', f, 'time-index entries are produced from toc.frames without an Active test in that chain: deleted and superseded frames stay in the persisted index and '
                            'consume limit slots of the timeline', line=c.line, sink='TimeIndexEntry::new', detail='time-index-includes-inactive')
    ctx.floor('GUARD-C15d', n, 2, 'iterator chains over toc.frames producing TimeIndexEntry values')


def _key(ctx, F, rule='AGREE-C15a'):
    wr = ctx.need(rule, 'io::time_index::append_track')
    rd = ctx.need(rule, 'io::time_index::read_track')
    if wr is None or rd is None:
        return
    ctx.touch(wr, len(wr.blocks))
    ctx.touch(rd, len(rd.blocks))
    sk = [c for c in wr.calls() if c.name in ('sort_by_key', 'sort_unstable_by_key', 'sort_by', 'sort_by_cached_key')]
    ok = False
    for c in sk:
        sl = lib.slice_back(wr, c.args[1:2], through_calls=False, at=(c.bb, None))
        for cdef in sl.closures:
            cl = F.fns.get(cdef)
            if cl is None:
                continue
            for bb, i, s in cl.stmts():
                rv = s['rv']
                if rv['k'] == 'agg' and rv.get('ak') == 'tuple' and s['lhs']['l'] == 0 and len(rv['ops']) == 2:
                    a = lib.slice_back(cl, [rv['ops'][0]], through_calls=False)
                    b = lib.slice_back(cl, [rv['ops'][1]], through_calls=False)
                    if a.has_field('TimeIndexEntry', 'timestamp') and b.has_field('TimeIndexEntry', 'frame_id'):
                        ok = True
    # the sort precedes every write
    writes = [c for c in wr.calls() if c.name == 'write_all']
    ctx.evaluations += len(sk) + len(writes)
    if ok and sk and all(lib.call_success_dominates(wr, sk[0], w.bb) for w in writes):
        ctx.ok(rule, wr, 'entries sorted by (timestamp, frame_id) before anything is written', line=sk[0].line)
    else:
        ctx.bad(rule, wr, 'append_track does not sort by the tuple (timestamp, frame_id) before writing', detail='writer-sort-key')
    # reader: comparisons leading to the "not sorted" rejection
    rels = set()
    # the order test may be written inline or in a bool helper (`sorts_before(&entry, &prev)`); in a helper the last operand of
    # `a || (b && c)` is a plain comparison statement, not a branch, so both forms are collected
    hosts = [rd] + [F.fns[c.local_callee] for c in rd.calls() if c.local_callee in F.fns and not F.fns[c.local_callee].is_closure and F.fns[c.local_callee].local_ty(0) == 'bool']
    BIN = {'Lt': '<', 'Le': '<=', 'Gt': '>', 'Ge': '>=', 'Eq': '==', 'Ne': '!='}
    for hfn in hosts:
        if hfn is not rd:
            ctx.touch(hfn, len(hfn.blocks))
        triples = [(c.sa(), c.sb(), c.rel) for c in lib.comparisons(hfn)]
        for bb, i, st in hfn.stmts():
            rv = st['rv']
            if rv['k'] == 'bin' and rv['op'] in BIN and hfn.local_ty(st['lhs']['l']) == 'bool':
                triples.append((lib.slice_back(hfn, [rv['a']], through_calls=False, at=(bb, i)), lib.slice_back(hfn, [rv['b']], through_calls=False, at=(bb, i)), BIN[rv['op']]))
        for a, b, rel in triples:
            fa = {f for o, f in a.fields if o == 'TimeIndexEntry'}
            fb = {f for o, f in b.fields if o == 'TimeIndexEntry'}
            if fa and fa == fb and len(fa) == 1:
                rels.add((list(fa)[0], rel))
    need = {('timestamp', '<'), ('timestamp', '=='), ('frame_id', '<')}
    ctx.evaluations += len(rels)
    norm = {(f, r) for f, r in rels} | {(f, lib.NEG[r]) for f, r in rels if False}
    if need <= rels:
        ctx.ok(rule, rd, 'read_track rejects ts < prev.ts and (ts == prev.ts && id < prev.id): the writer\'s order')
    else:
        ctx.bad(rule, rd, 'read_track validates %s, the writer orders by (timestamp, frame_id)' % sorted(rels), detail='reader-order-check:' + ','.join('%s%s' % x for x in sorted(rels)))


def _is_vec(fn, op):
    p = op_place(op)
    if p is None:
        return False
    for l in lib.root_of(fn, p.l) | {p.l}:
        if VT in fn.local_ty(l):
            return True
    return False


def _timeline(ctx, F):
    fn = ctx.need('TYPESTATE-C15b', 'memvid::timeline::build_timeline')
    if fn is None:
        return
    ctx.touch(fn, len(fn.blocks))
    # transfer per block (calls only)
    def effect(c):
        ty = fn.local_ty(c.dest.l)
        if c.is_(('io::time_index::read_track', 'read_track')) or (c.is_(('Try::branch',)) is False and False):
            return ('set', SORTED)
        if c.name == 'collect' and VT in ty:
            return ('set', UNSORTED)
        if c.name in ('push', 'extend', 'extend_from_slice', 'insert', 'append', 'swap', 'push_front') and c.args and _is_vec(fn, c.args[0]):
            return ('set', UNSORTED)
        if c.name.startswith('sort') and c.args and (_is_vec(fn, c.args[0]) or 'TimeIndexEntry' in str(c.t.get('res_substs') or c.t.get('substs') or '')):
            return ('set', SORTED)
        if c.name in ('reverse', 'partition_point', 'binary_search', 'binary_search_by', 'binary_search_by_key') and c.args and \
                (_is_vec(fn, c.args[0]) or 'TimeIndexEntry' in str(c.t.get('res_substs') or c.t.get('substs') or '')):
            return ('need', c.name)
        if c.args and not c.local_callee:
            for cl in _arg_closures(F, fn, c):
                for cc in cl.calls():
                    if cc.name in BSEARCH and 'TimeIndexEntry' in str(cc.t.get('res_substs') or cc.t.get('substs') or ''):
                        return ('need', cc.name)
        if c.name == 'into_iter' and c.args and VT in fn.local_ty(op_place(c.args[0]).l if op_place(c.args[0]) is not None else 0) and 'TimeIndexEntry' in ty:
            return ('need', 'consume')
        return None
    n = len(fn.blocks)
    ent = [None] * n
    ent[0] = SORTED
    work = [0]
    eff = {}
    for c in fn.calls():
        e = effect(c)
        if e:
            eff[c.bb] = (e, c)
    ctx.evaluations += len(fn.calls())
    while work:
        b = work.pop()
        s = ent[b]
        if b in eff and eff[b][0][0] == 'set':
            s = eff[b][0][1]
        for nx in fn.succs(b):
            new = s if ent[nx] is None else max(ent[nx], s)
            if new != ent[nx]:
                ent[nx] = new
                work.append(nx)
    needs = [(c, e[1]) for b, (e, c) in eff.items() if e[0] == 'need']
    sets = [(c, e[1]) for b, (e, c) in eff.items() if e[0] == 'set']
    if not any(v == SORTED for c, v in sets) or not any(k == 'consume' for c, k in needs):
        ctx.lost('TYPESTATE-C15b', 'build_timeline: sorted source / consumption point not found (sets %s, needs %s)' % (
            [(c.name, v) for c, v in sets], [k for c, k in needs]))
        return
    for c, kind in needs:
        st = ent[c.bb]
        # unsorted producers that can reach this point without an intervening sort
        if st == UNSORTED:
            culprits = sorted({'%s@%s' % (p.name, p.line) for p, v in sets if v == UNSORTED and c.bb in fn.reachable(p.bb)})
            what = {'consume': 'consumed into the timeline result', 'reverse': 'reversed'}.get(kind, 'binary-searched (%s)' % kind)
            ctx.bad('TYPESTATE-C15b', fn, 'the entry vector is %s while it may be unsorted (after %s with no re-sort): the timeline is not in (timestamp, frame_id) order'
                    % (what, ', '.join(culprits)), line=c.line, sink=kind, detail='unsorted-at-' + kind)
        else:
            ctx.ok('TYPESTATE-C15b', fn, 'entry vector is sorted where it is %s' % ('consumed' if kind == 'consume' else kind), line=c.line)
    # ---- c
    ret = [c for c in fn.calls() if c.name in ('retain', 'filter') and c.args and (_is_vec(fn, c.args[0]) or VT in fn.local_ty(c.dest.l) or 'TimeIndexEntry' in str(c.t.get('res_substs') or c.t.get('substs') or ''))]
    got = set()
    filt_call = None
    for c in ret:
        sl = lib.slice_back(fn, c.args[1:2], through_calls=False, at=(c.bb, None))
        for cdef in sl.closures:
            bodies = [F.fns[cdef]] + F.closures_of(F.fns[cdef]) if cdef in F.fns else []
            for b in bodies:
                for bb, i, s in b.stmts():
                    rv = s['rv']
                    if rv['k'] == 'bin' and rv['op'] in ('Ge', 'Le', 'Gt', 'Lt'):
                        a = lib.slice_back(b, [rv['a']], through_calls=False)
                        bb_ = lib.slice_back(b, [rv['b']], through_calls=False)
                        if a.has_field('TimeIndexEntry', 'timestamp'):
                            got.add(rv['op'])
                            filt_call = c
                        elif bb_.has_field('TimeIndexEntry', 'timestamp'):
                            got.add({'Ge': 'Le', 'Le': 'Ge', 'Gt': 'Lt', 'Lt': 'Gt'}[rv['op']])
                            filt_call = c
    ctx.evaluations += len(ret)
    if not got:
        # sibling idiom: on a sorted vector, keep the prefix `timestamp <= until` (truncate at its partition point) and
        # drop the prefix `timestamp < since` (drain up to its partition point). Sound only where the vector is sorted,
        # which TYPESTATE-C15b demands of every binary search.
        cuts = {}
        for c in fn.calls():
            if c.name in ('truncate', 'drain', 'split_off') and c.args and _is_vec(fn, c.args[0]):
                sl = lib.slice_back(fn, c.args[1:2], through_calls=False, at=(c.bb, None))
                for src in sl.calls:
                    bod = _arg_closures(F, fn, src) if not src.local_callee else []
                    if any(cc.name == 'partition_point' for b in bod for cc in b.calls()):
                        kind = 'keep-prefix' if c.name == 'truncate' else ('drop-prefix' if 'RangeTo::RangeTo' in sl.aggs else 'other')
                        cuts[kind] = (_ts_cmp(F, bod), c)
        ctx.evaluations += len(cuts)
        if set(cuts) == {'keep-prefix', 'drop-prefix'} and cuts['keep-prefix'][0] == {'Le'} and cuts['drop-prefix'][0] == {'Lt'}:
            a, b = cuts['keep-prefix'][1], cuts['drop-prefix'][1]
            filt_call = b if lib.call_success_dominates(fn, a, b.bb) else (a if lib.call_success_dominates(fn, b, a.bb) else None)
            if filt_call is not None:
                got = {'Ge', 'Le'}
                via = 'binary-search window on the sorted vector: keep timestamp <= until, drop timestamp < since'
        elif cuts:
            got = {'%s:%s' % (k, '|'.join(sorted(v[0]))) for k, v in cuts.items()}
    else:
        via = 'per entry (timestamp >= since, timestamp <= until)'
    if got == {'Ge', 'Le'}:
        ctx.ok('MPT-C15c', fn, 'since/until applied with inclusive comparators, ' + via, line=filt_call.line)
    else:
        ctx.bad('MPT-C15c', fn, 'since/until are not applied as inclusive per-entry comparisons (found %s)' % sorted(got), detail='since-until-comparators:' + ','.join(sorted(got)))
    rev = [c for c, k in needs if k == 'reverse']
    take = [c for c in fn.calls() if c.name == 'take']
    cons = [c for c, k in needs if k == 'consume']
    if filt_call is not None and take and cons:
        ok = all(lib.call_success_dominates(fn, filt_call, r.bb) for r in rev) and all(lib.call_success_dominates(fn, filt_call, t.bb) for t in take) and \
            all(t.bb in fn.reachable(r.bb) for r in rev for t in take)
        if ok:
            ctx.ok('MPT-C15c', fn, 'stages ordered filter -> reverse -> take(limit)', line=take[0].line)
        else:
            ctx.bad('MPT-C15c', fn, 'limit/reverse are applied before the since/until filter', line=take[0].line, detail='stage-order')
        # take's argument derives from the limit parameter
        sl = lib.slice_back(fn, take[0].args[1:2], through_calls=True, at=(take[0].bb, None))
        if 2 in sl.args:
            ctx.ok('MPT-C15c', fn, 'take(limit) uses the caller\'s limit', line=take[0].line)
        else:
            ctx.bad('MPT-C15c', fn, 'take() does not use the limit parameter', line=take[0].line, detail='take-arg')
    else:
        ctx.lost('MPT-C15c', 'build_timeline: filter/take/consume stages not found')
    # reverse only on the `reverse` flag
    for r in rev:
        okr = False
        for bs in lib.bool_switches(fn):
            if 5 in lib.slice_back(fn, [bs['local']], through_calls=False, at=(bs['bb'], None)).args and lib.edge_dominates(fn, bs['bb'], bs['t_true'], r.bb):
                okr = True
        if okr:
            ctx.ok('MPT-C15c', fn, 'reverse() only on the `reverse` flag', line=r.line)
        else:
            ctx.bad('MPT-C15c', fn, 'reverse() is not conditioned on the reverse flag', line=r.line, detail='reverse-flag')
