"""C18 — read-only access never modifies the file and sees the last commit (effect analysis).

Decided:
  EFFECT-C18a  for every public Memvid method with a self receiver, and for the read-only constructors
               (open_read_only, open_read_only_with_options, verify), no write to the memory file (handle classes M/P
               of rules/effects.py: Write::write_all, set_len, io::copy) is reachable from entry without first passing
               the success edge of a writability guard (ensure_writable / ensure_mutation_allowed /
               EmbeddedWal::assert_writable). Interprocedural: a call to a local function that itself can write
               unguarded counts as a write. Reviewed infeasible-path idiom: the `allow_repair` opt-in of
               OpenReadOptions (open_read_only passes the default, false).
  WMC-C18b     open_read_only_snapshot cannot reach recover_wal / apply_records / record_checkpoint; its TOC comes from
               load_tail_snapshot and its WAL handle from EmbeddedWal::open_read_only.
  MPT-C18c     every EmbeddedWal method that writes is dominated by assert_writable's success (floor 4).
  EFFECT-C18d  dropping a read-only handle writes nothing: <Memvid as Drop>::drop reaches commit only on a condition over
               handle state (the fields it reads, through its getters), and no read-only constructor or read API
               (open_read_only*, search, timeline, frame reads, stats, verify) can reach a store that makes that
               condition true. commit() upgrades a read-only handle silently (ensure_writable), so a flag that a
               read path can set and Drop tests turns a read-only session into a full commit at close.
  UNIT-C18e   positions found inside the tail window are rebased: in every caller of locate_footer_window, a value that
              derives from FooterSlice.footer_offset / toc_offset (relative to the window the footer was searched in)
              and is stored as a position of the snapshot is summed with the window start the same call returned.
              For files no larger than the window the adjustment is 0, which is why tests do not see it; with a
              window-relative footer offset in the header a read-only open of a larger file finds its Tantivy
              segments "beyond the footer" and takes the self-healing path that rewrites the TOC through the
              read-only handle.
Not decided: byte equality of the file before/after (runtime)."""
from . import lib, effects
from .facts import op_place, rv_places

GUARDS = ('Memvid::ensure_writable', 'Memvid::ensure_mutation_allowed', 'EmbeddedWal::assert_writable')
READONLY_CTORS = ('Memvid::open_read_only', 'Memvid::open_read_only_with_options', 'Memvid::verify', 'Memvid::open_read_only_snapshot')
OPT_IN = ('OpenReadOptions', 'allow_repair')
# rule instances that fire but were not reproduced against the real code: reported as candidates, never as verdicts
CANDIDATE_VIA = {
    'Memvid::align_footer_with_catalog': 'footer realignment when an embedded Tantivy segment lies beyond the footer; needs a file whose catalog outruns its footer, not reproduced',
}
# public methods that are mutators by contract but carry no guard; outside "read API" of the property
OUT_OF_SCOPE = {
    'Memvid::begin_batch': 'batch-mode control of the ingestion API',
    'Memvid::save_replay_sessions': 'feature replay: persistence API for recorded sessions (a mutator by contract, not a read API); it writes without upgrading the shared lock of a read-only handle (reproduced: triage c18replay) - recorded against C17 as a candidate, outside C18',
}


class UnguardedWrites:
    def __init__(self, F, ignore=()):
        self.F = F
        self.summ = {}     # path -> witness (list of strings) or None
        self._eff = {}
        self.ignore = tuple(ignore)     # function keys treated as not writing (reported separately as candidates)
        self.establishing = set()       # local functions that pass a guard on every Ok path (e.g. commit)

    def is_guard(self, c):
        return c.is_(GUARDS) or (c.local_callee in self.establishing)

    def find_establishing(self, fns):
        changed = True
        while changed:
            changed = False
            for p, f in fns.items():
                if p in self.establishing or not f.returns_result():
                    continue
                gs = [c for c in f.calls() if self.is_guard(c)]
                exits = [ex for ex in f.ok_exits() if ex['kind'] != 'err']
                if gs and exits and all(any(ex.get('call') is g or lib.call_success_dominates(f, g, ex['bb']) for g in gs) for ex in exits):
                    self.establishing.add(p)
                    changed = True

    def direct(self, fn):
        e = self._eff.get(fn.path)
        if e is None:
            e = {}
            for c in fn.calls():
                fe = effects.file_effect(fn, c)
                if fe and fe[0] == 'W' and fe[1] in ('M', 'P'):
                    e[c.bb] = c
            self._eff[fn.path] = e
        return e

    def analyse(self, fn):
        """witness of an unguarded write reachable from entry, using current callee summaries"""
        direct = self.direct(fn)
        # edges that leave the read-only contract by explicit opt-in
        skip = set()
        for bs in lib.bool_switches(fn):
            sl = lib.slice_back(fn, [bs['local']], through_calls=False, at=(bs['bb'], None))
            if OPT_IN in sl.fields:
                skip.add((bs['bb'], bs['t_true']))
        seen = set()
        blocked = set()
        for c in fn.calls():
            if self.is_guard(c):
                sb, how = fn.success_block(c)
                if sb is not None:
                    blocked.add(sb if how != 'infallible' else c.target)
        st = [0]
        while st:
            b = st.pop()
            if b in seen or b in blocked:
                continue
            seen.add(b)
            t = fn.blocks[b]['t']
            if t['k'] == 'call':
                c = fn.call_at(b)
                if c is not None and not self.is_guard(c):
                    if b in direct:
                        return ['%s:%s %s' % (fn.key, c.line, c.key)]
                    lc = c.local_callee
                    if lc and self.summ.get(lc):
                        return ['%s:%s' % (fn.key, c.line)] + self.summ[lc]
            for x in fn.succs(b):
                if (b, x) not in skip:
                    st.append(x)
        return None

    def solve(self, fns):
        self.find_establishing(fns)
        for p in fns:
            self.summ[p] = None
        changed = True
        rounds = 0
        while changed and rounds < 40:
            changed = False
            rounds += 1
            for p, f in fns.items():
                if self.summ[p]:
                    continue
                if f.key in self.ignore:
                    continue
                w = self.analyse(f)
                if w:
                    self.summ[p] = w
                    changed = True
        self.rounds = rounds


READ_APIS = ('Memvid::search', 'Memvid::timeline', 'Memvid::frame_canonical_payload', 'Memvid::stats', 'Memvid::search_vec', 'Memvid::blob_reader', 'Memvid::frame_by_id',
             'Memvid::frame_text_by_id', 'Memvid::frame_by_uri', 'Memvid::frame_embedding', 'Memvid::frame_preview_by_id', 'Memvid::frame_count')


def _cond_fields(F, fn, local, at, depth=2):
    sl = lib.slice_back(fn, [{'c': {'l': local, 'p': []}}], through_calls=True, at=at)
    out = {f for o, f in sl.fields if o == 'Memvid'}
    for c in sl.calls:
        lc = c.local_callee
        if lc and lc in F.fns and depth > 0:
            g = F.fns[lc]
            for b in [g] + F.closures_of(g):
                for bb, i, st in b.stmts():
                    for p in rv_places(st['rv']):
                        out |= {f for o, f in p.field_owners() if o == 'Memvid'}
    return out


def _drop_commit(ctx, F):
    ctx.rule('EFFECT-C18d', 'Drop commits only on handle state that no read-only constructor / read API can set')
    dr = ctx.need('EFFECT-C18d', '<Memvid as Drop>::drop')
    if dr is None:
        return
    ctx.touch(dr, len(dr.blocks))
    cm = dr.calls_to(('Memvid::commit', 'Memvid::commit_with_options'))
    if not cm:
        ctx.ok('EFFECT-C18d', dr, 'Drop does not commit')
        return
    fields = set()
    exits_ = set(range(len(dr.blocks)))
    for bs in lib.bool_switches(dr):
        if cm[0].bb in dr.reachable(bs['bb']) and any(cm[0].bb not in dr.reachable(e) for e in (bs['t_true'], bs['t_false'])):
            fields |= _cond_fields(F, dr, bs['local'], (bs['bb'], None))
    ctx.evaluations += len(dr.blocks)
    if not fields:
        ctx.bad('EFFECT-C18d', dr, 'Drop commits unconditionally: closing a read-only handle rewrites the file', line=cm[0].line, detail='drop-commits-unconditionally')
        return
    roots = [F.fn(k) for k in READONLY_CTORS + READ_APIS]
    roots = [r for r in roots if r is not None]
    ctx.floor('EFFECT-C18d', len(roots), 6, 'read-only constructors and read APIs')
    reach = lib.reachable_fns(F, roots)
    ctx.evaluations += len(reach)
    setters = []
    for f in reach.values():
        for fld in fields:
            for st in lib.field_stores(f, 'Memvid', fld):
                if st['lhs'].field_owners()[-1] != ('Memvid', fld):
                    continue
                k = st['rv']['a'].get('k') if st['rv']['k'] == 'use' else None
                if k is not None and k.get('v') in (False, 0):
                    continue      # clearing the flag
                setters.append((f, fld, st))
    if setters:
        f, fld, st = setters[0]
        ctx.bad('EFFECT-C18d', dr, 'Drop commits when Memvid.%s is set, and %s (reachable from a read-only constructor / read API) sets it: closing a read-only handle can run a full commit '
                '(ensure_writable upgrades the handle silently)' % (fld, f.key), line=cm[0].line, sink='Memvid.' + fld, detail='drop-commit-flag-set-by-reader:%s:%s' % (fld, f.key))
    else:
        ctx.ok('EFFECT-C18d', dr, 'Drop commits only on %s, which no read-only constructor / read API sets' % ', '.join('Memvid.' + x for x in sorted(fields)), line=cm[0].line)


def _window_rebase(ctx, F):
    ctx.rule('UNIT-C18e', 'callers of locate_footer_window add the window start to every FooterSlice offset they keep as a file position')
    n = 0
    for f in sorted(F.fns.values(), key=lambda x: x.path):
        lw = f.calls_to('locate_footer_window')
        if not lw or f.r.get('derive'):
            continue
        for body in [f] + F.closures_of(f):
            for bb, i, st in body.stmts():
                rv = st['rv']
                ops = []
                if rv['k'] == 'agg' and rv.get('ak') == 'adt' and rv.get('fields') and rv.get('adt') not in ('Result', 'Option'):
                    ops = [(fld, op) for fld, op in zip(rv['fields'], rv['ops'])]
                for fld, op in ops:
                    sl = lib.slice_back(body, [op], through_calls=True, at=(bb, i))
                    rel = sorted(x for o, x in sl.fields if o == 'FooterSlice' and x in ('footer_offset', 'toc_offset'))
                    if not rel:
                        continue
                    n += 1
                    ctx.evaluations += 1
                    ctx.touch(body, 1)
                    if {'Add', 'AddWithOverflow'} & sl.ops or any(c.name in ('checked_add', 'saturating_add', 'wrapping_add') for c in sl.calls):
                        ctx.ok('UNIT-C18e', body, '%s.%s = FooterSlice.%s + window start' % (rv.get('adt'), fld, rel[0]), line=st.get('l'))
                    else:
                        ctx.bad('UNIT-C18e', body, '%s.%s is taken from FooterSlice.%s, which is relative to the tail window, without adding the window start: for files larger than the window the '
                                'snapshot places the footer too early, and a read-only open then takes the footer-realignment path that rewrites the TOC' % (rv.get('adt'), fld, rel[0]),
                                line=st.get('l'), sink='%s.%s' % (rv.get('adt'), fld), detail='window-relative-offset:' + fld)
    ctx.floor('UNIT-C18e', n, 1, 'snapshot fields derived from FooterSlice offsets')


def run(ctx):
    _drop_commit(ctx, ctx.facts())
    _window_rebase(ctx, ctx.facts())
    ctx.rule('EFFECT-C18a', 'no memory-file write reachable from a public self-method or read-only constructor without first passing a writability guard')
    ctx.rule('WMC-C18b', 'open_read_only_snapshot never reaches WAL replay; TOC from load_tail_snapshot; WAL opened read-only')
    ctx.rule('MPT-C18c', 'every writing EmbeddedWal method passes assert_writable first')
    F = ctx.facts()
    entries = []
    for f in lib.api_roots(F):
        if f.r['argc'] >= 1 and 'memvid::lifecycle::Memvid' in f.local_ty(1) and f.local_ty(1).startswith('&'):
            entries.append(f)
    for k in READONLY_CTORS:
        f = F.fn(k)
        if f is not None and f not in entries:
            entries.append(f)
    ctx.floor('EFFECT-C18a:entries', len(entries), 60, 'public Memvid self-methods + read-only constructors')
    reach = lib.reachable_fns(F, entries)
    uw = UnguardedWrites(F, ignore=tuple(CANDIDATE_VIA))
    uw.solve(reach)
    uw_all = UnguardedWrites(F)
    uw_all.solve(reach)
    ctx.evaluations += sum(len(f.blocks) for f in reach.values())
    ctx.extra['effect_analysis'] = dict(entry_points=len(entries), functions_summarised=len(reach), rounds=uw.rounds,
                                        guard_establishing_functions=len(uw.establishing),
                                        functions_with_unguarded_write=sum(1 for v in uw_all.summ.values() if v))
    for f in reach.values():
        ctx.fns_seen.add(f.path)
    n_ok = 0
    for f in sorted(entries, key=lambda x: x.key):
        w = uw.summ.get(f.path)
        wc = uw_all.summ.get(f.path)
        if f.key in OUT_OF_SCOPE:
            if wc:
                ctx.candidate('EFFECT-C18a', f, 'documented mutator (%s) that writes without a writability guard: %s' % (OUT_OF_SCOPE[f.key], ' -> '.join(wc)), detail='mutator-without-guard')
            continue
        if w:
            ctx.bad('EFFECT-C18a', f, 'a write to the memory file is reachable without a writability guard: %s' % ' -> '.join(w),
                    sink=w[-1].split(' ')[-1], detail='unguarded-write-via:' + '>'.join(dict.fromkeys(x.split(':')[0] for x in w[1:])))
        elif wc:
            via = [k for k in CANDIDATE_VIA if any(x.startswith(k + ':') for x in wc)]
            ctx.candidate('EFFECT-C18a', f, 'write reachable only through %s (%s): %s' % (', '.join(via), '; '.join(CANDIDATE_VIA[k] for k in via), ' -> '.join(wc)),
                          detail='candidate-via:' + ','.join(via))
        else:
            n_ok += 1
    ctx.ok('EFFECT-C18a', None, '%d of %d entry points cannot reach an unguarded write to the memory file' % (n_ok, len(entries)))
    # ---- b
    snap = ctx.need('WMC-C18b', 'Memvid::open_read_only_snapshot')
    if snap is not None:
        r = lib.reachable_fns(F, [snap])
        ctx.evaluations += len(r)
        banned = [f.key for f in r.values() if f.key in ('Memvid::recover_wal', 'Memvid::apply_records', 'EmbeddedWal::record_checkpoint', 'Memvid::commit_from_records')]
        if banned:
            ctx.bad('WMC-C18b', snap, 'the read-only snapshot path can reach %s (pending log records would be applied / shown)' % banned, detail='snapshot-reaches-replay:' + ','.join(banned))
        else:
            ctx.ok('WMC-C18b', snap, 'snapshot open cannot reach recover_wal / apply_records / record_checkpoint (%d functions reachable)' % len(r))
        if snap.calls_to('load_tail_snapshot') and snap.calls_to('EmbeddedWal::open_read_only') and not snap.calls_to('EmbeddedWal::open'):
            ctx.ok('WMC-C18b', snap, 'TOC from load_tail_snapshot; WAL handle from EmbeddedWal::open_read_only')
        else:
            ctx.bad('WMC-C18b', snap, 'snapshot open does not use load_tail_snapshot + EmbeddedWal::open_read_only', detail='snapshot-sources')
        aggs = [(bb, i, s) for bb, i, s in snap.stmts() if s['rv']['k'] == 'agg' and s['rv'].get('adt') == 'Memvid']
        for bb, i, s in aggs:
            ops = dict(zip(s['rv']['fields'], s['rv']['ops']))
            k = ops['read_only'].get('k', {})
            if k.get('v') is True:
                ctx.ok('WMC-C18b', snap, 'handle constructed with read_only = true', line=s.get('l'))
            else:
                ctx.bad('WMC-C18b', snap, 'snapshot handle is not constructed read_only', line=s.get('l'), detail='snapshot-not-read-only')
    # ---- c
    n = 0
    for f in F.fns.values():
        if not f.r.get('impl_self', '').endswith('::EmbeddedWal') or f.is_closure:
            continue
        d = uw.direct(f) if f.path in reach else {b: c for b, c in ((c.bb, c) for c in f.calls()) if (effects.file_effect(f, c) or (None,))[0] == 'W'}
        if not d:
            continue
        n += 1
        aw = f.calls_to('EmbeddedWal::assert_writable')
        ctx.evaluations += 1
        if aw and all(lib.call_success_dominates(f, aw[0], c.bb) for c in d.values()):
            ctx.ok('MPT-C18c', f, 'write dominated by assert_writable success', line=aw[0].line)
        else:
            ctx.bad('MPT-C18c', f, 'EmbeddedWal method writes to the file without assert_writable', detail='wal-write-unguarded')
    ctx.floor('MPT-C18c', n, 1, 'EmbeddedWal methods with direct writes')
