"""C07 — content fidelity: reads return exactly what was stored (codec pairing and chunk provenance).

Decided:
  AGREE-C07a  the CanonicalEncoding variants that prepare_canonical_payload_with_level can produce are all handled by
              decode_canonical_bytes, with inverse callee pairs (Plain: identity / identity; Zstd: zstd::encode_all /
              zstd::decode_all); the recorded canonical_length is the *input* length.
  MPT-C07b    frame_canonical_bytes and document_chunk_payloads return Ok (on the stored-payload path) only past the
              canonical_length equality test when that field is Some.
  AGREE-C07c  the document's canonical payload is the concatenation of document_chunk_payloads, which orders children
              by (chunk_index, id) — the same key document_chunk_frames uses — and checks the manifest length.
  FLOW-C07d   a chunk plan that makes frame_canonical_bytes answer with the concatenated chunk texts instead of the
              stored payload must be derived from the payload bytes themselves (plan_document_chunks, which requires
              valid UTF-8); a plan derived from *extracted* text (lossy) makes the canonical payload of a binary
              document differ from what was stored.
  GUARD-C07f  the plan cut from the *extracted* text (plan_text_chunks) is a fallback: in put_internal it may be computed
              only on the edge where the plan cut from the payload itself is None. If it can replace an existing raw
              plan, a UTF-8 document longer than the extractor's character cap is stored as the chunks of its prefix
              (the parent keeps no payload) and the tail is lost. (Its use as a fallback for payloads that are not
              UTF-8 is the known finding of FLOW-C07d.)
  PAIR-C07e   cursor discipline: a `std::fs::File` cursor is shared by every clone of the handle (try_clone), so a read
              through std::io::Read on a File is exact only if the same function positioned that handle first. Every
              Read::{read, read_exact, read_to_end, ...} whose receiver is a File is dominated by a successful
              seek/rewind on a File in the same function; reviewed exceptions keyed by function (a freshly opened
              handle). Positional reads (read_at / read_exact_at) carry their own offset and are outside the rule.
  UNIT-C07g  the "store whole below the threshold" decision counts characters: in the chunk planner (memvid::chunks) a
             value compared with a constant named *_CHARS derives from `chars().count()`; a byte length (`str::len`)
             on that side turns the 2400-character threshold into a 2400-byte one, and multi-byte text below the
             threshold is chunked (its stored form is the normalised concatenation, not P).
Not decided: byte equality of reads with puts (values), normalisation of text."""
from . import lib, effects
from .facts import Place, op_place

STD_READS = ('read', 'read_exact', 'read_to_end', 'read_to_string', 'read_buf', 'read_vectored')
UNPOSITIONED_OK = {
    'Memvid::open_locked': 'first read of a handle opened a few lines above (cursor 0): the header',
}


def cursor_discipline(ctx, F):
    ctx.rule('PAIR-C07e', 'every std Read call on a File is dominated by a seek on a File in the same function (shared cursor of cloned handles)')
    n = 0
    for f in sorted(F.fns.values(), key=lambda x: x.path):
        if f.r.get('derive'):
            continue
        rs = []
        for c in f.calls():
            if c.name in STD_READS and c.args and 'fs::File' in (c.self_ty() or '') and (c.key.startswith('Read::') or ' as Read>' in c.key or ' as std::io::Read>' in c.key):
                # in scope: handles that can share their cursor - the memory file's own handle, a field of a reader object,
                # or anything obtained through try_clone. A file the function (or its caller) opened for itself and reads
                # front to back has a private cursor and is out of scope.
                sl = lib.slice_back(f, c.args[:1], through_calls=True, at=(c.bb, None))
                shared = bool(sl.fields & effects.M_FIELDS) or any(o in ('BlobReader', 'BlobSource', 'Memvid', 'EmbeddedWal') for o, _ in sl.fields if o) or any(x.name == 'try_clone' for x in sl.calls)
                if shared or f.key in UNPOSITIONED_OK:
                    rs.append(c)
        seeks = [c for c in f.calls() if c.name in ('seek', 'rewind') and c.args and 'fs::File' in (c.self_ty() or '')]
        ctx.touch(f, len(rs) + len(seeks))
        for r in rs:
            n += 1
            k = f.key
            if any(lib.call_success_dominates(f, sk, r.bb) for sk in seeks):
                ctx.ok('PAIR-C07e', f, '%s on a File after positioning it' % r.name, line=r.line)
            elif k in UNPOSITIONED_OK:
                ctx.ok('PAIR-C07e', f, 'reviewed: ' + UNPOSITIONED_OK[k], line=r.line)
            else:
                ctx.bad('PAIR-C07e', f, '%s on a File without positioning it in this function: the cursor is shared with every clone of the handle (Memvid\'s own reads, other readers), '
                        'so the bytes returned depend on what else touched the file' % r.name, line=r.line, sink=r.name, detail='read-at-unknown-cursor')
    ctx.floor('PAIR-C07e', n, 4, 'std Read calls on File handles that can share their cursor')


INVERSE = {'Plain': (None, None), 'Zstd': ('zstd::encode_all', 'zstd::decode_all')}


def threshold_unit(ctx, F):
    ctx.rule('UNIT-C07g', 'chunk planner: a value compared with a *_CHARS constant is a character count, not a byte length')
    n = 0
    for fn in sorted(F.fns.values(), key=lambda x: x.path):
        if 'memvid::chunks' not in fn.path or fn.r.get('derive'):
            continue
        for c in lib.comparisons(fn):
            for a, b in ((c.sa(), c.sb()), (c.sb(), c.sa())):
                names = [k.get('name') or '' for k in a.consts]
                if not any(x.endswith('_CHARS') for x in names) or a.calls:
                    continue
                lens = [x for x in b.calls if x.name == 'len' and ('str' in (x.callee or '') or 'String' in (x.callee or ''))]
                counts = [x for x in b.calls if x.name == 'count' and 'Chars' in (x.callee or '')]
                if not lens and not counts:
                    continue        # a running counter, not a measured text
                n += 1
                ctx.evaluations += 1
                ctx.touch(fn, 1)
                if counts:
                    ctx.ok('UNIT-C07g', fn, 'compared with %s: chars().count()' % names[0].split('::')[-1], line=c.line)
                else:
                    ctx.bad('UNIT-C07g', fn, 'a byte length (str::len) is compared with %s: for multi-byte text the character threshold becomes a byte threshold, text below the threshold is chunked '
                            'and reads back as its normalised concatenation instead of the stored bytes' % names[0].split('::')[-1], line=c.line, sink=names[0].split('::')[-1], detail='bytes-vs-chars-threshold')
    ctx.floor('UNIT-C07g', n, 1, 'measured-text comparisons with *_CHARS constants in the chunk planner')


def run(ctx):
    threshold_unit(ctx, ctx.facts())
    ctx.rule('AGREE-C07a', 'encodings produced ⊆ encodings decoded, with inverse callee pairs; canonical_length = input length')
    ctx.rule('MPT-C07b', 'stored-payload reads return Ok only past the canonical_length equality test')
    ctx.rule('AGREE-C07c', 'canonical payload of a chunked document = concat(document_chunk_payloads ordered by (chunk_index, id))')
    ctx.rule('FLOW-C07d', 'chunk plans that replace the stored payload on read derive from the payload bytes, not from extracted text')
    F = ctx.facts()
    cursor_discipline(ctx, F)
    enc = ctx.need('AGREE-C07a', 'memvid::mutation::prepare_canonical_payload_with_level')
    dec = ctx.need('AGREE-C07a', 'decode_canonical_bytes')
    if enc is not None and dec is not None:
        ctx.touch(enc, len(enc.blocks))
        ctx.touch(dec, len(dec.blocks))
        produced = {}
        for ex in enc.ok_exits():
            if ex['kind'] != 'ok':
                continue
            sl = lib.slice_back(enc, ex['rv']['ops'], through_calls=True, at=(ex['bb'], ex['idx']))
            vs = {a.split('::')[-1] for a in sl.aggs if a.startswith('CanonicalEncoding::')}
            for v in vs:
                produced.setdefault(v, set()).update(c.key for c in sl.calls if 'zstd' in c.key or 'lz4' in c.key)
            # canonical length = payload.len()
            lens = [c for c in sl.calls if c.name == 'len']
            if not (lens or 'PtrMetadata' in sl.ops) or 1 not in sl.args:
                ctx.bad('AGREE-C07a', enc, 'recorded canonical_length does not derive from the input payload length', line=ex['line'], detail='canonical-length-source')
        handled = {}
        for vs in lib.variant_switches(dec):
            if vs['enum'] == 'CanonicalEncoding':
                for v, arm in vs['arms'].items():
                    calls = {c.key for c in dec.calls() if dec.dominates(arm, c.bb)}
                    handled[v] = calls
        ctx.evaluations += len(produced) + len(handled)
        ctx.floor('AGREE-C07a', len(produced), 2, 'encodings produced by prepare_canonical_payload_with_level')
        for v in sorted(produced):
            e, d = INVERSE.get(v, ('?', '?'))
            if v not in handled:
                ctx.bad('AGREE-C07a', dec, 'encoding %s is produced but decode_canonical_bytes has no arm for it' % v, detail='encoding-unhandled:' + v)
            elif v not in INVERSE:
                ctx.bad('AGREE-C07a', dec, 'encoding %s has no reviewed encode/decode pair' % v, detail='encoding-unreviewed:' + v)
            elif e is None:
                if any('zstd' in c or 'lz4' in c for c in handled[v]):
                    ctx.bad('AGREE-C07a', dec, 'Plain payloads are passed through a decompressor', detail='plain-not-identity')
                else:
                    ctx.ok('AGREE-C07a', dec, '%s: stored as-is, returned as-is' % v)
            else:
                if any(lib.path_matches(c, e) for c in produced[v]) and any(lib.path_matches(c, d) for c in handled[v]):
                    ctx.ok('AGREE-C07a', dec, '%s: %s / %s' % (v, e, d))
                else:
                    ctx.bad('AGREE-C07a', dec, '%s is encoded with %s but decoded with %s' % (v, sorted(produced[v]), sorted(c for c in handled[v] if 'zstd' in c or 'lz4' in c)),
                            detail='codec-pair:' + v)
    for key in ('Memvid::frame_canonical_bytes', 'Memvid::document_chunk_payloads'):
        fn = ctx.need('MPT-C07b', key)
        if fn is None:
            continue
        ctx.touch(fn, len(fn.blocks))
        dcs = fn.calls_to('decode_canonical_bytes')
        if not dcs:
            # read + decode + length check extracted into a private helper: decide the clause inside it (its Ok exits are the sinks)
            hs = [F.fns[c.local_callee] for c in fn.calls() if c.local_callee in F.fns and not F.fns[c.local_callee].is_closure and F.fns[c.local_callee].calls_to('decode_canonical_bytes')]
            if hs:
                fn = hs[0]
                ctx.touch(fn, len(fn.blocks))
                dcs = fn.calls_to('decode_canonical_bytes')
        if not dcs:
            ctx.lost('MPT-C07b', '%s no longer decodes stored payloads' % key)
            continue
        cut = set()
        found = False
        for c in lib.comparisons(fn):
            a, b = c.sa(), c.sb()
            for x, y in ((a, b), (b, a)):
                if x.has_field('Frame', 'canonical_length') and any(cc in y.calls for cc in dcs):
                    found = True
                    for tgt, rel in c.edges():
                        if rel == '==':
                            cut.add((c.bb, tgt))
        for vs in lib.variant_switches(fn):
            if vs['enum'] == 'Option' and 'None' in vs['arms'] and lib.slice_back(fn, [vs['place']], through_calls=False).has_field('Frame', 'canonical_length'):
                cut.add((vs['bb'], vs['arms']['None']))
        ctx.evaluations += 1
        if not found:
            ctx.bad('MPT-C07b', fn, 'decoded payload length is not compared with canonical_length', detail='no-canonical-length-test')
            continue
        # sinks: Ok exits (frame_canonical_bytes) or the payload push (document_chunk_payloads) after the decode
        sinks = [ex['bb'] for ex in fn.ok_exits() if ex['kind'] != 'err' and any(lib.call_success_dominates(fn, d, ex['bb']) for d in dcs)]
        sinks += [c.bb for c in fn.calls() if c.is_('Vec::push') and any(lib.call_success_dominates(fn, d, c.bb) for d in dcs)]
        start = fn.success_block(dcs[0])[0]
        bad = [s for s in sinks if lib.reachable_without_edges(fn, s, cut, start=start)]
        if bad:
            ctx.bad('MPT-C07b', fn, 'a decoded payload can be returned without passing canonical_length == decoded.len() (or canonical_length None)', detail='canonical-length-bypass')
        else:
            ctx.ok('MPT-C07b', fn, 'decoded payload returned only past the canonical_length equality test')
    fcb = F.fn('Memvid::frame_canonical_bytes')
    dcp = F.fn('Memvid::document_chunk_payloads')
    dcf = F.fn('Memvid::document_chunk_frames')
    if fcb is not None and dcp is not None and dcf is not None:
        cc = fcb.calls_to('Memvid::document_chunk_payloads')
        ext = [c for c in fcb.calls() if c.name in ('extend_from_slice', 'extend', 'append', 'push')]
        ok = bool(cc) and any(cc[0] in lib.slice_back(fcb, c.args[1:2], through_calls=True, at=(c.bb, None)).calls for c in ext)
        ctx.evaluations += 2
        if ok:
            ctx.ok('AGREE-C07c', fcb, 'chunked document: buffer extended with each payload of document_chunk_payloads, in its order', line=cc[0].line)
        else:
            ctx.bad('AGREE-C07c', fcb, 'canonical payload of a chunked document is not the concatenation of document_chunk_payloads', detail='concat')

        def sort_key(fn):
            for c in fn.calls():
                if c.name in ('sort_by_key', 'sort_unstable_by_key'):
                    sl = lib.slice_back(fn, c.args[1:2], through_calls=False, at=(c.bb, None))
                    for cdef in sl.closures:
                        cl = F.fns.get(cdef)
                        if cl is None:
                            continue
                        for bb, i, s in cl.stmts():
                            rv = s['rv']
                            if rv['k'] == 'agg' and rv.get('ak') == 'tuple' and s['lhs']['l'] == 0:
                                return tuple(sorted({f for o, f in lib.slice_back(cl, [op], through_calls=True).fields if o == 'Frame'})[0] if
                                             {f for o, f in lib.slice_back(cl, [op], through_calls=True).fields if o == 'Frame'} else '?' for op in rv['ops'])
            return None
        k1, k2 = sort_key(dcp), sort_key(dcf)
        if k1 == ('chunk_index', 'id') and k1 == k2:
            ctx.ok('AGREE-C07c', dcp, 'children ordered by (chunk_index, id) in both document_chunk_payloads and document_chunk_frames')
        else:
            ctx.bad('AGREE-C07c', dcp, 'chunk ordering keys differ or are not (chunk_index, id): %s vs %s' % (k1, k2), detail='chunk-order-key')
    # ---- d
    put = ctx.need('FLOW-C07d', 'Memvid::put_internal')
    if put is not None:
        ctx.touch(put, len(put.blocks))
        # the chunk plan that reaches the WalEntryData.chunk_manifest of the parent entry
        lossy = []
        lossless = []
        for c in put.calls():
            if c.is_(('plan_text_chunks', 'memvid::chunks::plan_text_chunks')):
                sl = lib.slice_back(put, c.args[:1], through_calls=True, at=(c.bb, None))
                src_payload = 2 in sl.args and not sl.has_field('ExtractedDocument', 'text')
                (lossless if src_payload else lossy).append(c)
            elif c.is_(('plan_document_chunks', 'memvid::chunks::plan_document_chunks')):
                lossless.append(c)
        manifest_users = []
        for bb, idx, s in put.stmts():
            rv = s['rv']
            if rv['k'] == 'agg' and rv.get('adt') == 'WalEntryData' and 'chunk_manifest' in rv['fields']:
                sl = lib.slice_back(put, [rv['ops'][rv['fields'].index('chunk_manifest')]], through_calls=True, at=(bb, idx))
                for c in lossy:
                    if c in sl.calls:
                        manifest_users.append((c, s.get('l')))
        ctx.evaluations += len(lossy) + len(lossless)
        ctx.rule('GUARD-C07f', 'plan_text_chunks(extracted text) only on the edge where the payload\'s own chunk plan is None')
        for c in lossy:
            ok_edge = False
            for bs in lib.bool_switches(put):
                sl = lib.slice_back(put, [{'c': {'l': bs['local'], 'p': []}}], through_calls=True, at=(bs['bb'], None))
                if any(x.name == 'is_none' for x in sl.calls) and any(x in sl.calls for x in lossless) and lib.edge_dominates(put, bs['bb'], bs['t_true'], c.bb):
                    ok_edge = True
                if any(x.name == 'is_some' for x in sl.calls) and any(x in sl.calls for x in lossless) and lib.edge_dominates(put, bs['bb'], bs['t_false'], c.bb):
                    ok_edge = True
            for vs in lib.variant_switches(put):
                if vs.get('enum') == 'Option' and 'None' in vs['arms'] and lib.edge_dominates(put, vs['bb'], vs['arms']['None'], c.bb) and \
                        any(x in lib.slice_back(put, [{'c': {'l': vs['place'].l, 'p': []}}], through_calls=True, at=(vs['bb'], None)).calls for x in lossless):
                    ok_edge = True
            if ok_edge:
                ctx.ok('GUARD-C07f', put, 'the extracted-text plan is computed only where the payload\'s own plan is None', line=c.line)
            else:
                ctx.bad('GUARD-C07f', put, 'plan_text_chunks(extracted text) is not confined to the edge where the payload\'s own chunk plan is None: it can replace the plan of a valid UTF-8 '
                        'document, whose content beyond the extractor\'s character cap is then stored nowhere', line=c.line, sink='chunk_plan', detail='extracted-plan-overrides-raw-plan')
        if not lossless:
            ctx.lost('FLOW-C07d', 'put_internal no longer plans chunks from the raw payload (plan_document_chunks)')
        if manifest_users:
            c = manifest_users[0][0]
            ctx.bad('FLOW-C07d', put, 'the chunk manifest stored with a document can come from plan_text_chunks(extracted text): for a payload that is not valid UTF-8 '
                    'frame_canonical_bytes then answers with the concatenated (lossy) chunk texts instead of the stored bytes', line=c.line,
                    sink='WalEntryData.chunk_manifest', detail='chunk-plan-from-extracted-text')
        else:
            ctx.ok('FLOW-C07d', put, 'chunk manifests derive only from the payload bytes themselves')
