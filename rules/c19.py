"""C19 — single-file guarantee.

Decided:
  PROV-C19a  every file-system *creation* reachable from the public Memvid API (incl. Drop, doctor, verify):
             File::create / create_new, OpenOptions::open with a create/create_new/truncate(true) on its builder chain,
             fs::create_dir*, fs::write / copy / rename / hard_link, tempfile::*, AtomicWriteFile - takes a path whose
             backward slice is (i) the memory path itself, unmodified, (ii) under a TempDir / tempfile created with the
             argument-less constructors (system temp directory), or (iii) the AtomicWriteFile staging object. A path
             built from the memory path with with_extension / set_extension / with_file_name / join / push / format! is
             a sidecar and is reported.
  PAIR-C19b  the staging object (CommitStaging::prepare) ends in commit, discard or drop on every path of
             with_staging_lock (RAII: AtomicWriteFile removes its temporary on drop).
  GUARD-C19c the constructors (create, open, open_read_only_with_options, try_open) and doctor's entry call
             ensure_single_file successfully before the first open of the path; ensure_single_file probes the eight
             forbidden names (-wal -shm -lock -journal and .name.wal .shm .lock .journal) and rejects with
             AuxiliaryFileDetected.
Not decided: what external crates create internally (atomic-write-file's temporary sibling lives in the memory's
directory during a commit and is renamed/removed by the crate; trusted)."""
import re
from . import lib
from .facts import Place, op_place

CREATORS = ('File::create', 'File::create_new', 'std::fs::create_dir', 'std::fs::create_dir_all', 'std::fs::write', 'std::fs::copy',
            'std::fs::rename', 'std::fs::hard_link', 'fs_err::write', 'fs_err::copy', 'fs_err::rename', 'fs_err::create_dir_all', 'fs_err::File::create')
BUILDER_CREATE = ('create', 'create_new', 'truncate', 'append')
TEMP = ('TempDir::new', 'tempfile::tempdir', 'tempfile::tempfile', 'NamedTempFile::new', 'tempfile::Builder::tempdir', 'std::env::temp_dir')
SIDECAR_MAKERS = ('with_extension', 'set_extension', 'with_file_name', 'set_file_name', 'join', 'push', 'with_added_extension', 'format')
FORBIDDEN = {'-wal', '-shm', '-lock', '-journal', '.wal', '.shm', '.lock', '.journal'}
CTORS = ('Memvid::create', 'Memvid::open', 'Memvid::open_read_only_with_options', 'Memvid::try_open')


OWN_CONFIGS = True    # this module selects its feature configurations itself

def run(ctx):
    ctx.rule('PROV-C19a', 'every file-system creation reachable from the API targets the memory path itself, the system temp directory or the atomic staging object')
    ctx.rule('PAIR-C19b', 'CommitStaging::prepare is followed by commit / discard / drop on every path')
    ctx.rule('GUARD-C19c', 'ensure_single_file succeeds before the first open in every constructor and doctor entry; it probes the eight forbidden sidecar names')
    for cfg in (['default'] + (['wide'] if ctx.tier == 'thorough' else [])):
        ctx.config = cfg
        _creations(ctx, ctx.facts(cfg))
    ctx.config = 'default'
    F = ctx.facts()
    _pair(ctx, F)
    _guard(ctx, F)


def classify(F, reach, f, operand, pos, depth):
    """provenance of a path operand: ('temp', ctor) | ('sidecar', makers) | ('self', '')"""
    sl = lib.slice_back(f, [operand], through_calls=True, at=pos)
    temp = [x for x in sl.calls if x.is_(TEMP)]
    if temp:
        return 'temp', temp[0].key
    makers = sorted({x.name for x in sl.calls if x.name in SIDECAR_MAKERS})
    if makers:
        return 'sidecar', ','.join(makers)
    # local helper that derives a path from its argument (e.g. manifest_wal_path)
    for x in sl.calls:
        lc = x.local_callee
        if lc and lc in F.fns and 'PathBuf' in F.fns[lc].local_ty(0):
            g = F.fns[lc]
            inner = sorted({y.name for y in g.calls() if y.name in SIDECAR_MAKERS})
            if inner:
                return 'sidecar', '%s(%s)' % (g.name, ','.join(inner))
    if depth > 0 and sl.args:
        for g in reach.values():
            for cc in g.calls():
                if cc.local_callee == f.path:
                    for a in sorted(sl.args):
                        if a - 1 < len(cc.args):
                            v, why = classify(F, reach, g, cc.args[a - 1], (cc.bb, None), depth - 1)
                            if v != 'self':
                                return v, why
    return 'self', ''


def _creations(ctx, F):
    roots = lib.api_roots(F)
    d = F.fn('<Memvid as Drop>::drop')
    if d is not None:
        roots.append(d)
    reach = lib.reachable_fns(F, roots)
    ctx.evaluations += len(reach)
    for f in reach.values():
        ctx.fns_seen.add(f.path)
    # WMC-C19d: opening never creates: a creation on the caller's own path is reachable from Memvid::create* only, not from the
    # open entry points (a failing open of a path that does not exist must leave the directory as it was)
    ctx.rule('WMC-C19d', 'no file creation on the caller\'s own path is reachable from Memvid::open / open_read_only* (only create may bring the file into existence)')
    open_roots = [g for g in F.fns.values() if g.name in ('open', 'open_read_only', 'open_read_only_with_options', 'open_locked') and 'lifecycle' in g.path and 'Memvid' in g.path]
    reach_open = lib.reachable_fns(F, open_roots)
    own_in_open = []
    n = 0
    for f in sorted(reach.values(), key=lambda x: x.path):
        for c in f.calls():
            is_creator = c.is_(CREATORS)
            path_arg = None
            if is_creator:
                path_arg = c.args[1] if c.name in ('rename', 'copy', 'hard_link') else c.args[0]
            elif c.is_(('OpenOptions::open',)) and len(c.args) >= 2:
                b = lib.slice_back(f, c.args[:1], through_calls=True, at=(c.bb, None))
                flags = [x for x in b.calls if x.name in BUILDER_CREATE and 'OpenOptions' in (x.callee or '')]
                flags = [x for x in flags if not (len(x.args) > 1 and x.args[1].get('k', {}).get('v') is False)]
                if flags and 'atomic_write_file' not in (c.callee or ''):
                    is_creator = True
                    path_arg = c.args[1]
            if not is_creator:
                continue
            n += 1
            ctx.evaluations += 1
            verdict, why = classify(F, reach, f, path_arg, (c.bb, None), 3)
            if verdict == 'temp':
                ctx.ok('PROV-C19a', f, '%s under the system temp directory (%s)' % (c.key.split('::')[-1], why), line=c.line)
            elif verdict == 'sidecar':
                ctx.bad('PROV-C19a', f, '%s creates a path derived with %s from another path: a sidecar next to the memory file' % (c.key, why),
                        line=c.line, sink=c.key, detail='sidecar-path:' + why)
            else:
                ctx.ok('PROV-C19a', f, '%s on the caller\'s path itself (no derived name)' % c.key.split('::')[-1], line=c.line)
                if f.path in reach_open:
                    own_in_open.append((f, c))
    ctx.floor('PROV-C19a', n, 3, 'file-system creation sites reachable from the API')
    ctx.floor('WMC-C19d', len(open_roots), 3, 'open entry points of Memvid (4 counted)')
    ctx.evaluations += len(reach_open)
    for f, c in own_in_open:
        ctx.bad('WMC-C19d', f, '%s can create the caller\'s path and is reachable from the open entry points: a failing open of a missing path leaves a stray file behind' % c.key,
                line=c.line, sink=c.key, detail='creating-open-reachable-from-open')
    if open_roots and not own_in_open:
        ctx.ok('WMC-C19d', open_roots[0], 'no creation on the caller\'s own path among %d functions reachable from %d open entry points' % (len(reach_open), len(open_roots)))


def _pair(ctx, F):
    fn = ctx.need('PAIR-C19b', 'Memvid::with_staging_lock')
    if fn is None:
        return
    ctx.touch(fn, len(fn.blocks))
    prep = fn.calls_to('CommitStaging::prepare')
    if not prep:
        ctx.lost('PAIR-C19b', 'with_staging_lock no longer prepares a CommitStaging')
        return
    sb, _ = fn.success_block(prep[0])
    # the staging local
    st_local = None
    for bb, i, s in fn.stmts():
        if s['rv']['k'] == 'use' and op_place(s['rv']['a']) is not None and 'CommitStaging' in fn.local_ty(s['lhs']['l']) and not s['lhs'].get('p'):
            st_local = s['lhs']['l']
    ends = set()
    for c in fn.calls():
        if c.is_(('CommitStaging::commit', 'CommitStaging::discard')):
            ends.add(c.bb)
    for i, b in enumerate(fn.blocks):
        t = b['t']
        if t['k'] == 'drop' and 'CommitStaging' in fn.local_ty(t['p']['l']) and not t['p'].get('p'):
            ends.add(i)
    # drop-flag idiom: `switch flag -> [0: skip, else: drop staging]`; the skip edge is taken only after a move
    # (commit/discard consumed the value), so reaching the flag test is as good as reaching the drop
    for i, b in enumerate(fn.blocks):
        t = b['t']
        if t['k'] == 'switch' and any(tb in ends and fn.blocks[tb]['t']['k'] == 'drop' for _, tb in t['ts']) or \
                (t['k'] == 'switch' and t['o'] in ends and fn.blocks[t['o']]['t']['k'] == 'drop'):
            p = op_place(t['d'])
            if p is not None and fn.local_ty(p.l) == 'bool' and not fn.local_name(p.l):
                ends.add(i)
    # every return reachable from the prepare success passes one of the ends
    rets = set(fn.return_blocks())
    leak = [r for r in rets if sb is not None and r in fn.reachable(sb, avoid=ends)]
    ctx.evaluations += len(rets)
    if leak:
        ctx.bad('PAIR-C19b', fn, 'a return is reachable after CommitStaging::prepare without commit / discard / drop of the staging object (temporary file left behind)', detail='staging-leak')
    else:
        ctx.ok('PAIR-C19b', fn, 'every path after prepare ends in commit, discard or drop (%d end points)' % len(ends), line=prep[0].line)


def _guard(ctx, F):
    es = ctx.need('GUARD-C19c', 'memvid::lifecycle::ensure_single_file')
    if es is not None:
        ctx.touch(es, len(es.blocks))
        lits = set()
        for src in [es.blocks] + (es.r.get('promoted') or []):
            for b in src:
                for s in b['s']:
                    for o in lib.rv_operands(s['rv']):
                        k = o.get('k')
                        if k and isinstance(k.get('s'), str):
                            t = k['s']
                            if t.startswith('const '):
                                t = t[6:]
                            if len(t) >= 2 and t[0] == '"':
                                lits.add(t.strip('"'))
        ctx.evaluations += len(lits)
        missing = FORBIDDEN - lits
        errs = lib.enum_constructions(es, 'MemvidError', 'AuxiliaryFileDetected')
        ex = [c for c in es.calls() if c.name in ('exists', 'try_exists')]
        # the probes may be skipped only when the path has no parent at all: cut the None arm of the match on the
        # *direct* result of Path::parent(); any other way to reach Ok without a probe is a hole in the guard
        cut = set()
        for vs in lib.variant_switches(es):
            if vs.get('enum') == 'Option' and 'None' in vs['arms'] and not vs['place'].p:
                dd = [x for x in lib.defs(es).get(vs['place'].l, []) if x['kind'] == 'call']
                alias = [x for x in lib.defs(es).get(vs['place'].l, []) if x['kind'] == 'stmt' and x['rv']['k'] == 'use']
                src = dd[0]['call'] if dd else None
                if src is None and alias:
                    q = op_place(alias[0]['rv']['a'])
                    d2 = [x for x in lib.defs(es).get(q.l, []) if x['kind'] == 'call'] if q is not None else []
                    src = d2[0]['call'] if d2 else None
                if src is not None and src.name == 'parent' and 'Path' in (src.callee or src.key):
                    cut.add((vs['bb'], vs['arms']['None']))
                # `for x in [a, b, c, d]`: before any iteration (the search below never continues past a probe, i.e. past a
                # loop body) the exhausted arm of next() on a non-empty array iterator is infeasible
                if src is not None and src.name == 'next' and src.args:
                    rp = op_place(src.args[0])
                    tys = ' '.join(es.local_ty(l) for l in (lib.root_of(es, rp.l) | {rp.l})) if rp is not None else ''
                    m = re.search(r'array::IntoIter<[^;]*?, (\d+)>', tys) or re.search(r'IntoIter<[^>]*, (\d+)>', tys)
                    if m and int(m.group(1)) > 0:
                        cut.add((vs['bb'], vs['arms']['None']))
        probe_blocks = {c.bb for c in ex}
        holes = []
        for exx in es.ok_exits():
            if exx['kind'] != 'ok':
                continue
            # reachable from entry without the None-of-parent edge and without passing a probe?
            seen, st = set(), [0]
            while st:
                b = st.pop()
                if b in seen or b in probe_blocks:
                    continue
                seen.add(b)
                for nx in es.succs(b):
                    if (b, nx) not in cut:
                        st.append(nx)
            if exx['bb'] in seen:
                holes.append(exx)
        ctx.evaluations += len(es.blocks)
        if holes:
            ctx.bad('GUARD-C19c', es, 'ensure_single_file can return Ok without probing any forbidden name although the path has a parent: the sidecar guard is bypassed for some paths '
                    '(only `path.parent()` being None may skip the scan)', line=holes[0]['line'], detail='probe-bypass')
        elif ex:
            ctx.ok('GUARD-C19c', es, 'Ok is reachable only through the probes, or when path.parent() is None')
        if not missing and errs and ex:
            ctx.ok('GUARD-C19c', es, 'probes all eight forbidden sidecar names and rejects with AuxiliaryFileDetected')
        else:
            ctx.bad('GUARD-C19c', es, 'ensure_single_file no longer probes %s (error: %s, exists: %s)' % (sorted(missing), bool(errs), bool(ex)), detail='forbidden-names:' + ','.join(sorted(missing)))
    entries = [F.fn(k) for k in CTORS] + [f for f in F.fns.values() if f.key in ('memvid::doctor::doctor_plan',)]
    n = 0
    for fn in entries:
        if fn is None:
            continue
        ctx.touch(fn, len(fn.blocks))
        g = fn.calls_to('ensure_single_file')
        opens = [c for c in fn.calls() if c.is_(('OpenOptions::open', 'File::open', 'File::create', 'FileLock::open_and_lock', 'FileLock::open_read_only', 'Memvid::open', 'Memvid::try_open',
                                                 'Memvid::open_read_only_snapshot', 'Memvid::open_locked', 'DoctorPlanner::new', 'DoctorExecutor::new'))]
        delegates = [c for c in fn.calls() if c.local_callee and F.fns.get(c.local_callee) in entries]
        if not opens and not g and delegates:
            continue
        n += 1
        ctx.evaluations += 1
        if not g:
            if delegates and all(any(c is d for d in delegates) or c.is_(('Memvid::open', 'Memvid::try_open')) for c in opens):
                ctx.ok('GUARD-C19c', fn, 'delegates to a guarded constructor')
            else:
                ctx.bad('GUARD-C19c', fn, 'opens the path without calling ensure_single_file first', detail='open-without-sidecar-check')
            continue
        bad = [o for o in opens if not lib.call_success_dominates(fn, g[0], o.bb)]
        if bad:
            ctx.bad('GUARD-C19c', fn, '%s happens before / without the success of ensure_single_file' % bad[0].key, line=bad[0].line, detail='open-before-sidecar-check')
        else:
            ctx.ok('GUARD-C19c', fn, 'ensure_single_file succeeds before the first open (%d opens)' % len(opens), line=g[0].line)
    ctx.floor('GUARD-C19c', n, 4, 'constructors / doctor entries that open the path')
