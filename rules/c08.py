"""C08 — deleted and superseded frames disappear from every read path.

Decided:
  AGREE-C08a  mark_frame_deleted / mark_frame_superseded: both store a non-Active status into the target frame and
              return Ok only through remove_frame_from_indexes; superseded stores superseded_by = Some(successor).
  MPT-C08a2   apply_records: a frame whose `supersedes` is Some is pushed only after mark_frame_superseded ran
              (the only way around the call is the None edge of that very test); the Tombstone arm reaches the next
              record only through mark_frame_deleted(target).
  AGREE-C08b  remove_frame_from_indexes removes the frame from every in-memory retrieval index of Memvid that a
              search entry point consults (table derived from the index fields read by search / search_vec paths).
  GUARD-C08c  every function that walks toc.frames and feeds an index (Tantivy, lex, vec, time, sketch) tests
              FrameStatus::Active (comparison on Frame.status, frame_is_active or is_frame_text_indexable) in its
              body or closures; reviewed exemptions are keyed by function.
  AGREE-C08d  the PutOptions data fields that put_internal persists into the WAL entry equal the fields update_frame
              inherits from the old version.
  GUARD-C08e  deletes reach the persisted indexes: wherever a caller of apply_records decides whether to run
              rebuild_indexes, the deciding condition depends on IngestionDelta.mutated_frames (directly, or through
              IngestionDelta::is_empty, whose body reads it). A gate that looks only at inserted frames/embeddings
              skips the rebuild for a commit that only deletes: the vector index on disk keeps the deleted frame and
              serves it after reopen (the vector read paths rely on the index holding active frames only).
  GUARD-C08f  frame_by_uri prefers the live version: the first lookup over toc.frames (in dominance order) selects with a
              predicate that reads Frame.status; the status-blind lookup may only be a fallback behind it. A single
              status-blind scan returns a Deleted/Superseded frame whenever the newest carrier of a URI is inactive
              while an older carrier is still active.
Not decided: what the searches return (values)."""
from . import lib
from .facts import Place, op_place, rv_places

FEED_NAMES = ('add_frame', 'add_document', 'insert_sketch')
FEED_PATS = ('TimeIndexEntry::new', 'SketchTrack::insert')
FEED_EXEMPT = {
    'Memvid::apply_records': 'feeds only the frame it has just constructed with status Active',
    'Memvid::put_internal': 'instant index of a temporary frame constructed Active (rebuilt at commit)',
    'Memvid::add_embeddings': 'caller-supplied (frame id, embedding) pairs; membership is re-filtered by build_vec_artifact',
    'Memvid::add_clip_embedding_with_page': 'CLIP side index, not a text/vector retrieval path of this property',
    'Memvid::build_vec_segment_from_embeddings': 'parallel_segments builder over the commit delta only',
    'memvid::workers::build_lex_artifact': 'parallel_segments worker: indexes the chunks of the ingestion plan it was handed (new documents of this batch), never toc.frames',
    'memvid::workers::build_vec_artifact': 'parallel_segments worker: indexes the chunks of the ingestion plan it was handed (new documents of this batch), never toc.frames',
    'memvid::workers::build_time_artifact': 'parallel_segments worker: indexes the chunks of the ingestion plan it was handed (new documents of this batch), never toc.frames',
    'Memvid::insert_sketch': 'single-frame helper; its caller build_all_sketches filters',
    'types::sketch_track::read_sketch_track': 'deserialisation of a persisted track',
    'TantivyEngine::add_frame': 'engine primitive', 'TantivyEngine::add_frame_immediate': 'engine primitive',
}
INDEX_FIELDS = ('tantivy', 'lex_index', 'vec_index')   # in-memory retrieval indexes of Memvid
REMOVERS = {'tantivy': ('delete_frame',), 'lex_index': ('remove_document',), 'vec_index': ('remove',)}
NOT_DATA_TYPES = ('bool', 'u64', 'u32', 'usize')


def _delta_fields(F, fn, sl, depth=2):
    out = {f for o, f in sl.fields if o == 'IngestionDelta'}
    for c in sl.calls:
        lc = c.local_callee
        if lc and lc in F.fns and depth > 0 and 'IngestionDelta' in (F.fns[lc].r.get('impl_self') or ''):
            g = F.fns[lc]
            for b in [g] + F.closures_of(g):
                for bb, i, st in b.stmts():
                    for p in rv_places(st['rv']):
                        out |= {f for o, f in p.field_owners() if o == 'IngestionDelta'}
    return out


def _rebuild_gate(ctx, F):
    ctx.rule('GUARD-C08e', 'the condition that gates rebuild_indexes after apply_records depends on IngestionDelta.mutated_frames')
    n = 0
    for fn in sorted(F.fns.values(), key=lambda x: x.path):
        ap = fn.calls_to('Memvid::apply_records')
        rb = fn.calls_to('Memvid::rebuild_indexes')
        if not ap or not rb or fn.is_closure:
            continue
        ctx.touch(fn, len(fn.blocks))
        for r in rb:
            if not lib.call_success_dominates(fn, ap[0], r.bb):
                continue
            gates = []
            exits = {ex['bb'] for ex in fn.ok_exits()}
            for bs in lib.bool_switches(fn):
                if not fn.dominates(ap[0].bb, bs['bb']) or r.bb not in fn.reachable(bs['bb']):
                    continue
                # a gate: one way out of the branch reaches an Ok exit without passing the rebuild
                skips = any(fn.reachable(edge, avoid={r.bb}) & exits for edge in (bs['t_true'], bs['t_false']))
                if not skips:
                    continue
                sl = lib.slice_back(fn, [{'c': {'l': bs['local'], 'p': []}}], through_calls=True, at=(bs['bb'], None))
                flds = _delta_fields(F, fn, sl)
                if flds:
                    gates.append((bs, flds))
            n += 1
            ctx.evaluations += 1
            if not gates:
                ctx.ok('GUARD-C08e', fn, 'rebuild_indexes after apply_records is not gated on the delta', line=r.line)
                continue
            seen = set().union(*[f for _, f in gates])
            if 'mutated_frames' in seen:
                ctx.ok('GUARD-C08e', fn, 'the rebuild gate reads IngestionDelta.mutated_frames (fields read: %s)' % ', '.join(sorted(seen)), line=r.line)
            else:
                ctx.bad('GUARD-C08e', fn, 'rebuild_indexes is gated on %s only: a commit that only deletes skips the rebuild, so the persisted vector index keeps the deleted frame and vector search '
                        'serves it after reopen' % (', '.join(sorted(seen)) or 'other state'), line=gates[0][0]['line'], sink='rebuild_indexes', detail='rebuild-gate-ignores-deletes')
    ctx.floor('GUARD-C08e', n, 2, 'rebuild_indexes calls that follow apply_records')


def _uri_lookup(ctx, F):
    ctx.rule('GUARD-C08f', 'frame_by_uri: the first lookup over toc.frames filters on Frame.status (Active first, status-blind only as fallback)')
    fn = ctx.need('GUARD-C08f', 'Memvid::frame_by_uri')
    if fn is None:
        return
    ctx.touch(fn, len(fn.blocks))
    looks = []
    for c in fn.calls():
        if c.name in ('find', 'rfind', 'position', 'rposition', 'filter', 'find_map') and len(c.args) > 1:
            if lib.slice_back(fn, c.args[:1], through_calls=True, at=(c.bb, None)).has_field('Toc', 'frames'):
                looks.append(c)
    if not looks:
        ctx.lost('GUARD-C08f', 'frame_by_uri: no iterator lookup over toc.frames found')
        return
    first = [c for c in looks if all(c is o or fn.dominates(c.bb, o.bb) or not fn.dominates(o.bb, c.bb) for o in looks)]
    first = sorted(first, key=lambda c: c.bb)[0]
    reads_status = False
    for cp in lib.slice_back(fn, first.args[1:2], through_calls=False, at=(first.bb, None)).closures:
        cl = F.fns.get(cp)
        for body in ([cl] + F.closures_of(cl)) if cl is not None else []:
            for bb, i, st in body.stmts():
                for o in lib.rv_operands(st['rv']):
                    q = op_place(o)
                    if q is not None and ('Frame', 'status') in q.field_owners():
                        reads_status = True
    ctx.evaluations += len(looks)
    if reads_status:
        ctx.ok('GUARD-C08f', fn, 'the first lookup by URI selects on Frame.status; the status-blind lookup is a fallback', line=first.line)
    else:
        ctx.bad('GUARD-C08f', fn, 'the lookup by URI does not look at Frame.status first: when the newest frame carrying the URI is deleted or superseded and an older one is still active, '
                'the inactive frame is returned', line=first.line, sink='Frame.status', detail='uri-lookup-status-blind')


def run(ctx):
    _uri_lookup(ctx, ctx.facts())
    _rebuild_gate(ctx, ctx.facts())
    ctx.rule('AGREE-C08a', 'mark_frame_deleted/superseded store a non-Active status and reach remove_frame_from_indexes; successor recorded')
    ctx.rule('MPT-C08a2', 'apply_records: supersedes=Some => mark_frame_superseded before the push; Tombstone => mark_frame_deleted before the next record')
    ctx.rule('AGREE-C08b', 'remove_frame_from_indexes covers every in-memory index the search paths read')
    ctx.rule('GUARD-C08c', 'index feeders that walk toc.frames test Active')
    ctx.rule('AGREE-C08d', 'update_frame inherits every PutOptions data field that put_internal persists')
    F = ctx.facts()
    _marks(ctx, F)
    _apply(ctx, F)
    _remove(ctx, F)
    _feeders(ctx, F)
    _inherit(ctx, F)


def _marks(ctx, F):
    for key, status, succ in (('Memvid::mark_frame_deleted', 'Deleted', False), ('Memvid::mark_frame_superseded', 'Superseded', True)):
        fn = ctx.need('AGREE-C08a', key)
        if fn is None:
            continue
        ctx.touch(fn, len(fn.blocks))
        sts = lib.field_stores(fn, 'Frame', 'status')
        vals = set()
        for st in sts:
            sl = lib.slice_back(fn, lib.rv_operands(st['rv']), through_calls=False)
            vals |= {a.split('::')[-1] for a in sl.aggs if a.startswith('FrameStatus::')}
        rm = fn.calls_to('Memvid::remove_frame_from_indexes')
        ctx.evaluations += 3
        if not sts or 'Active' in vals or not vals:
            ctx.bad('AGREE-C08a', fn, 'does not store a non-Active status (stores %s)' % sorted(vals), detail='status-store')
        else:
            ctx.ok('AGREE-C08a', fn, 'stores status %s' % sorted(vals), line=sts[0]['line'])
        if not rm:
            ctx.bad('AGREE-C08a', fn, 'does not call remove_frame_from_indexes', detail='no-index-removal')
        else:
            bad = [ex for ex in fn.ok_exits() if not (ex.get('call') is rm[0] or lib.call_success_dominates(fn, rm[0], ex['bb']))]
            if bad:
                ctx.bad('AGREE-C08a', fn, 'can return Ok without removing the frame from the in-memory indexes', line=bad[0]['line'], detail='ok-without-index-removal')
            else:
                ctx.ok('AGREE-C08a', fn, 'every Ok exit passes remove_frame_from_indexes', line=rm[0].line)
            # same frame id is marked and removed
            s = lib.slice_back(fn, rm[0].args[1:2], through_calls=False)
            if 2 not in s.args:
                ctx.bad('AGREE-C08a', fn, 'remove_frame_from_indexes is not applied to the marked frame id', line=rm[0].line, detail='removal-arg')
            # the status store dominates the removal
            if sts and not all(fn.dominates(st['bb'], rm[0].bb) for st in sts[:1]):
                ctx.bad('AGREE-C08a', fn, 'status is not stored on every path to the index removal', detail='status-not-dominating')
        if succ:
            sb = lib.field_stores(fn, 'Frame', 'superseded_by')
            good = False
            for st in sb:
                sl = lib.slice_back(fn, lib.rv_operands(st['rv']), through_calls=False)
                if 'Option::Some' in sl.aggs and 3 in sl.args:
                    good = True
            if good:
                ctx.ok('AGREE-C08a', fn, 'superseded_by = Some(successor)', line=sb[0]['line'])
            else:
                ctx.bad('AGREE-C08a', fn, 'the old version does not record which frame superseded it', detail='superseded-by')


def _reach(fn, start, targets, cut=(), avoid=()):
    cut = set(cut)
    avoid = set(avoid)
    seen = set()
    st = [start]
    while st:
        b = st.pop()
        if b in seen or b in avoid:
            continue
        seen.add(b)
        if b in targets and b != start:
            return True
        for s in fn.succs(b):
            if (b, s) not in cut:
                st.append(s)
    return False


def _apply(ctx, F):
    fn = ctx.need('MPT-C08a2', 'Memvid::apply_records')
    if fn is None:
        return
    ctx.touch(fn, len(fn.blocks))
    push = [c for c in fn.calls() if c.is_('Vec::push') and any(('Toc', 'frames') in t.field_owners() for t in lib.mut_borrows(fn).get(op_place(c.args[0]).l, []))]
    sup = fn.calls_to('Memvid::mark_frame_superseded')
    dele = fn.calls_to('Memvid::mark_frame_deleted')
    if len(push) != 1 or not sup or not dele:
        ctx.lost('MPT-C08a2', 'apply_records: push / mark_frame_superseded / mark_frame_deleted anchors (found %d/%d/%d)' % (len(push), len(sup), len(dele)))
        return
    push = push[0]
    # the Frame aggregate that is pushed
    fa = [(bb, i, s) for bb, i, s in fn.stmts() if s['rv']['k'] == 'agg' and s['rv'].get('adt') == 'Frame']
    if not fa:
        ctx.lost('MPT-C08a2', 'Frame construction not found in apply_records')
        return
    start = fa[0][0]
    none_edges = set()
    for vs in lib.variant_switches(fn):
        if vs['enum'] == 'Option' and 'None' in vs['arms'] and lib.slice_back(fn, [vs['place']], through_calls=False).has_field('Frame', 'supersedes'):
            none_edges.add((vs['bb'], vs['arms']['None']))
    ctx.evaluations += 2
    if not none_edges:
        ctx.bad('MPT-C08a2', fn, 'no test of frame.supersedes guards mark_frame_superseded', detail='no-supersedes-test')
    else:
        succ_blocks = {fn.success_block(c)[0] for c in sup}
        if _reach(fn, start, {push.bb}, cut=none_edges, avoid={c.bb for c in sup}):
            ctx.bad('MPT-C08a2', fn, 'a frame with supersedes = Some(old) can be pushed without mark_frame_superseded(old) (the call is conditional on more than the supersedes test)',
                    line=sup[0].line, detail='supersede-skipped')
        else:
            ctx.ok('MPT-C08a2', fn, 'push of a superseding frame is reachable only through mark_frame_superseded (or supersedes == None)', line=sup[0].line)
        s = lib.slice_back(fn, sup[0].args[1:3], through_calls=False)
        if not s.has_field('Frame', 'supersedes'):
            ctx.bad('MPT-C08a2', fn, 'mark_frame_superseded is not applied to frame.supersedes', line=sup[0].line, detail='supersede-arg')
    # tombstone arm
    tomb = None
    for vs in lib.variant_switches(fn):
        if vs['enum'] == 'FrameWalOp' and 'Tombstone' in vs['arms']:
            tomb = vs
    if tomb is None:
        ctx.lost('MPT-C08a2', 'match on FrameWalOp not found')
        return
    arm = tomb['arms']['Tombstone']
    # from the arm, the loop header (next record) or an Ok exit must not be reachable without the delete call
    loop_next = [c.bb for c in fn.calls() if c.name == 'next' and fn.dominates(c.bb, tomb['bb'])]
    targets = set(loop_next) | {ex['bb'] for ex in fn.ok_exits()}
    if _reach(fn, arm, targets, avoid={c.bb for c in dele}):
        ctx.bad('MPT-C08a2', fn, 'a tombstone record can be consumed without mark_frame_deleted', line=dele[0].line, detail='tombstone-skipped')
    else:
        ctx.ok('MPT-C08a2', fn, 'the Tombstone arm reaches the next record only through mark_frame_deleted', line=dele[0].line)
    s = lib.slice_back(fn, dele[0].args[1:2], through_calls=True)
    if s.has_field('WalEntryData', 'target_frame_id'):
        ctx.ok('MPT-C08a2', fn, 'mark_frame_deleted(entry.target_frame_id)', line=dele[0].line)
    else:
        ctx.bad('MPT-C08a2', fn, 'mark_frame_deleted is not applied to entry.target_frame_id', line=dele[0].line, detail='tombstone-arg')


def _remove(ctx, F):
    fn = ctx.need('AGREE-C08b', 'Memvid::remove_frame_from_indexes')
    if fn is None:
        return
    ctx.touch(fn, len(fn.blocks))
    # which index fields do the search paths read?
    readers = {}
    for key in ('Memvid::search', 'memvid::search::tantivy::try_tantivy_search', 'memvid::search::fallback::search_with_lex_fallback',
                'Memvid::search_vec', 'Memvid::vec_search_with_embedding_acl', 'Memvid::search_lex'):
        f = F.fn(key)
        if f is None:
            continue
        for b in [f] + F.closures_of(f):
            for bb, i, s in b.stmts():
                for p in rv_places(s['rv']):
                    for o, fl in p.field_owners():
                        if o == 'Memvid' and (fl.endswith('_index') or fl == 'tantivy'):
                            readers.setdefault(fl, set()).add(f.key)
    ctx.evaluations += len(readers)
    ctx.floor('AGREE-C08b', len(readers), 3, 'in-memory index fields read by the search paths')
    for fld, who in sorted(readers.items()):
        if fld in ('clip_index',):
            continue
        removed = False
        for c in fn.calls():
            if c.name in REMOVERS.get(fld, ('remove', 'delete', 'remove_document', 'delete_frame')):
                sl = lib.slice_back(fn, c.args[:1], through_calls=True)
                if sl.has_field('Memvid', fld):
                    s2 = lib.slice_back(fn, c.args[1:2], through_calls=False)
                    if 2 in s2.args:
                        removed = True
        if removed:
            ctx.ok('AGREE-C08b', fn, 'removes the frame from self.%s (read by %s)' % (fld, ', '.join(sorted(x.split('::')[-1] for x in who))))
        else:
            ctx.bad('AGREE-C08b', fn, 'self.%s is read by search paths (%s) but the frame is not removed from it on delete/supersede' % (
                fld, ', '.join(sorted(who))), detail='index-not-purged:' + fld, sink=fld)


def _tests_active(b):
    if any(c.is_(('Memvid::frame_is_active', 'is_frame_text_indexable')) for c in b.calls()):
        return True
    if lib.variant_test_edges(b, 'Frame', 'status', 'FrameStatus', 'Active'):
        return True
    for bb2, i, s in b.stmts():
        rv = s['rv']
        if rv['k'] == 'bin' and rv['op'] in ('Eq', 'Ne'):
            if lib.slice_back(b, [rv['a']], through_calls=False).has_field('Frame', 'status') or lib.slice_back(b, [rv['b']], through_calls=False).has_field('Frame', 'status'):
                return True
        if rv['k'] == 'discr' and ('Frame', 'status') in Place(rv['p']).field_owners():
            return True
    return any(c.name in ('eq', 'ne') and 'FrameStatus' in (c.callee or '') for c in b.calls())


def _site_guarded(F, f, bodies, clo, feed):
    """True / False when the feed's own iterator chain can be followed, None when the shape is not recognised"""
    if _tests_active(clo):
        return True
    parent = None
    adaptor = None
    for b in bodies:
        for c in b.calls():
            if c.name in ('map', 'filter_map', 'flat_map', 'for_each', 'extend', 'fold', 'try_for_each') and c.args:
                if clo.path in lib.slice_back(b, c.args[1:], through_calls=False, at=(c.bb, None)).closures:
                    parent, adaptor = b, c
    if adaptor is None:
        return None
    sl = lib.slice_back(parent, adaptor.args[:1], through_calls=True, at=(adaptor.bb, None))
    if not sl.has_field('Toc', 'frames'):
        return None
    for c in sl.calls:
        if c.name in ('filter', 'filter_map', 'take_while', 'skip_while') and len(c.args) > 1:
            for cp in lib.slice_back(parent, c.args[1:], through_calls=False, at=(c.bb, None)).closures:
                g = F.fns.get(cp)
                if g is not None and _tests_active(g):
                    return True
    return False


def _feeders(ctx, F):
    n = 0
    for f in F.fns.values():
        if f.is_closure or f.r.get('derive'):
            continue
        bodies = [f] + F.closures_of(f)
        feeds = sorted({c.key for b in bodies for c in b.calls() if c.name in FEED_NAMES or c.is_(FEED_PATS)})
        if not feeds:
            continue
        ctx.evaluations += sum(len(b.blocks) for b in bodies)
        if f.key in FEED_EXEMPT:
            ctx.ok('GUARD-C08c', f, 'reviewed exemption: ' + FEED_EXEMPT[f.key])
            continue
        walks = any(('Toc', 'frames') in p.field_owners() for b in bodies for bb, i, s in b.stmts() for p in rv_places(s['rv'])) or \
            any(c.is_(('Memvid::frame_by_id',)) for b in bodies for c in b.calls())
        if not walks and not any(c.is_(('Memvid::frame_is_active',)) for b in bodies for c in b.calls()):
            ctx.bad('GUARD-C08c', f, 'unreviewed index feeder (%s) that neither walks toc.frames nor tests activity' % ', '.join(feeds), detail='unreviewed-feeder')
            continue
        n += 1
        active = False
        for b in bodies:
            if any(c.is_(('Memvid::frame_is_active', 'is_frame_text_indexable')) for c in b.calls()):
                active = True
            for c in lib.comparisons(b):
                a, bb_ = c.sa(), c.sb()
                if (a.has_field('Frame', 'status') and 'FrameStatus::Active' in bb_.aggs) or (bb_.has_field('Frame', 'status') and 'FrameStatus::Active' in a.aggs):
                    active = True
            # closure bodies returning the comparison directly (`|f| f.status == Active`)
            for bb2, i, s in b.stmts():
                rv = s['rv']
                if rv['k'] == 'bin' and rv['op'] in ('Eq', 'Ne'):
                    sa = lib.slice_back(b, [rv['a']], through_calls=False)
                    sb_ = lib.slice_back(b, [rv['b']], through_calls=False)
                    if sa.has_field('Frame', 'status') or sb_.has_field('Frame', 'status'):
                        active = True
            for c in b.calls():
                if c.name in ('eq', 'ne') and 'FrameStatus' in (c.callee or ''):
                    active = True
            # match / matches! on the status discriminant
            if lib.variant_test_edges(b, 'Frame', 'status', 'FrameStatus', 'Active'):
                active = True
            for bb2, i, s in b.stmts():
                if s['rv']['k'] == 'discr' and ('Frame', 'status') in Place(s['rv']['p']).field_owners():
                    active = True
        # per-site precision: a feed that sits in a closure of an iterator chain over toc.frames must have an Active test in
        # *its own* chain (a preceding filter closure, or the feeding closure itself) - a test elsewhere in the function does not count
        unguarded_site = None
        for b in bodies:
            if not b.is_closure:
                continue
            for c in b.calls():
                if not (c.name in FEED_NAMES or c.is_(FEED_PATS)):
                    continue
                g = _site_guarded(F, f, bodies, b, c)
                if g is False:
                    unguarded_site = c
        if active and unguarded_site is not None:
            ctx.bad('GUARD-C08c', f, 'the iterator chain that feeds %s walks toc.frames without an Active test of its own (the function tests FrameStatus::Active only elsewhere): deleted and '
                    'superseded frames enter that index' % unguarded_site.key.split('::')[-1], line=unguarded_site.line, detail='feed-chain-without-active-test:' + unguarded_site.key.split('::')[-1], sink=unguarded_site.key)
        elif active:
            ctx.ok('GUARD-C08c', f, 'feeds %s and tests FrameStatus::Active' % ', '.join(x.split('::')[-1] for x in feeds))
        else:
            ctx.bad('GUARD-C08c', f, 'feeds %s from toc.frames without testing FrameStatus::Active: deleted/superseded frames would be indexed' % ', '.join(feeds),
                    detail='feeder-without-active-test', sink=','.join(feeds))
    ctx.floor('GUARD-C08c', n, 3, 'index feeders that walk toc.frames')


def _inherit(ctx, F):
    put = ctx.need('AGREE-C08d', 'Memvid::put_internal')
    upd = ctx.need('AGREE-C08d', 'Memvid::update_frame')
    po = F.adt('PutOptions')
    if put is None or upd is None or po is None:
        return
    ctx.touch(put, len(put.blocks))
    ctx.touch(upd, len(upd.blocks))
    data_fields = {f['name'] for f in po['variants'][0]['fields'] if f['ty'] not in NOT_DATA_TYPES}
    persisted = set()
    for bb, idx, s in put.stmts():
        rv = s['rv']
        if rv['k'] == 'agg' and rv.get('adt') == 'WalEntryData':
            for o in rv['ops']:
                sl = lib.slice_back(put, [o], through_calls=True, at=(bb, idx))
                persisted |= {f for ow, f in sl.fields if ow == 'PutOptions'}
    persisted &= data_fields
    inherited = set()
    for st in lib.field_stores(upd, 'PutOptions'):
        sl = lib.slice_back(upd, lib.rv_operands(st['rv']), through_calls=True, at=(st['bb'], st['idx']))
        if any(o == 'Frame' for o, f in sl.fields):
            inherited |= {f for o, f in st['lhs'].field_owners() if o == 'PutOptions'}
    ctx.evaluations += len(persisted) + len(inherited)
    ctx.floor('AGREE-C08d:persisted', len(persisted), 10, 'PutOptions data fields persisted by put_internal')
    ctx.floor('AGREE-C08d:inherited', len(inherited), 8, 'PutOptions fields inherited by update_frame')
    for f in sorted(persisted & inherited):
        ctx.ok('AGREE-C08d', upd, 'inherits %s from the old version when unspecified' % f)
    missing = sorted(persisted - inherited)
    if missing:
        ctx.bad('AGREE-C08d', upd, 'update_frame does not inherit %s although put_internal persists them: an update that does not specify them resets them' % ', '.join(missing),
                detail='not-inherited:' + ','.join(missing), sink='PutOptions')
