"""C26 — derived data refers to the frame it was derived from (unit check: WAL sequence vs frame id).

Decided:
  FLOW-C26a  no value data-derived from the result of append_wal_entry / EmbeddedWal::append_entry (unit: WAL
             sequence number) reaches a frame-id sink: an argument whose callee parameter is named *frame_id*
             (TripletExtractor::extract, MemoriesTrack::record_enrichment, EnrichmentQueueManifest::push, default_uri …)
             or a struct field named id / frame_id / source_frame_id of a frame-bearing ADT. Sinks are discovered from
             parameter and field names, not listed by hand.
  FLOW-C26b  positive side: the frame-id sinks of put_internal derive from next_frame_id() (toc.frames.len() +
             pending_frame_inserts) captured before the append.
Not decided: that the card's value occurs in the frame's text (values)."""
from . import lib
from .facts import op_place

SOURCES = ('Memvid::append_wal_entry', 'EmbeddedWal::append_entry')
ID_FIELDS = {'Frame': ('id', 'parent_id'), 'MemoryCard': ('source_frame_id', 'frame_id'), 'EnrichmentRecord': ('frame_id',),
             'TimeIndexEntry': ('frame_id',), 'SearchHit': ('frame_id',)}
SEQ_PARAM_OK = ('parent_seq', 'sequence', 'seq')


def seq_wrappers(F):
    """local wrappers of the WAL append that hand the sequence number on: their Ok value derives from the append's result"""
    out = set()
    for p in lib.wrappers_of(F, ('Memvid::append_wal_entry', 'EmbeddedWal::append_entry')):
        g = F.fns[p]
        if g.key in SOURCES:
            continue
        ops = lib.ret_operands(g)
        sl = lib.slice_back(g, ops, through_calls=True)
        if any(c.is_(SOURCES) or c.local_callee in out for c in sl.calls) and 'u64' in g.local_ty(0):
            out.add(p)
    return out


def run(ctx):
    ctx.rule('FLOW-C26a', 'a WAL sequence number (result of append_wal_entry) never reaches a parameter named *frame_id* nor an id field of a frame-bearing struct')
    ctx.rule('FLOW-C26b', 'frame-id sinks in put_internal derive from next_frame_id() taken before the append')
    F = ctx.facts()
    n_sinks = 0
    n_fns = 0
    wrappers = seq_wrappers(F)
    for fn in F.fns.values():
        srcs = [c for c in fn.calls() if c.is_(SOURCES) or c.local_callee in wrappers]
        if not srcs or fn.is_closure:
            continue
        n_fns += 1
        ctx.touch(fn, len(fn.blocks))
        src_locals = set()
        for c in srcs:
            sb, _ = fn.success_block(c)
            src_locals.add(c.dest.l)

        def tainted(op, pos):
            sl = lib.slice_back(fn, [op], through_calls=True, at=pos, stop_at_calls=SOURCES + tuple(F.fns[w].key for w in wrappers))
            return [c for c in sl.calls if c in srcs], sl
        for c in fn.calls():
            lc = c.local_callee
            if not lc or lc not in F.fns or c in srcs:
                continue
            callee = F.fns[lc]
            for i, a in enumerate(c.args):
                pname = callee.local_name(i + 1) if i + 1 < len(callee.locals) else None
                if not pname or 'frame_id' not in pname:
                    continue
                n_sinks += 1
                ctx.evaluations += 1
                hit, sl = tainted(a, (c.bb, None))
                if hit:
                    ctx.bad('FLOW-C26a', fn, 'a WAL sequence number (result of %s) is passed as `%s` to %s: derived data will name the wrong frame' % (
                        hit[0].key.split('::')[-1], pname, c.key), line=c.line, sink=c.key + ':' + pname, detail='sequence-as-frame-id')
                else:
                    ctx.ok('FLOW-C26a', fn, '`%s` of %s is not a WAL sequence' % (pname, c.key), line=c.line)
                    if fn.key == 'Memvid::put_internal':
                        if sl.calls_matching('Memvid::next_frame_id') or (sl.has_field('Toc', 'frames') and sl.has_field('Memvid', 'pending_frame_inserts')):
                            ctx.ok('FLOW-C26b', fn, '`%s` of %s derives from next_frame_id()' % (pname, c.key), line=c.line)
                        elif not sl.args - {1}:
                            ctx.bad('FLOW-C26b', fn, '`%s` of %s derives neither from next_frame_id() nor from a caller-supplied frame id' % (pname, c.key),
                                    line=c.line, detail='frame-id-source:' + c.key)
        for bb, idx, s in fn.stmts():
            rv = s['rv']
            if rv['k'] == 'agg' and rv.get('ak') == 'adt' and rv['adt'] in ID_FIELDS:
                for f in ID_FIELDS[rv['adt']]:
                    if f in rv['fields']:
                        n_sinks += 1
                        ctx.evaluations += 1
                        hit, sl = tainted(rv['ops'][rv['fields'].index(f)], (bb, idx))
                        if hit:
                            ctx.bad('FLOW-C26a', fn, '%s.%s is built from a WAL sequence number (result of %s)' % (rv['adt'], f, hit[0].key.split('::')[-1]),
                                    line=s.get('l'), sink='%s.%s' % (rv['adt'], f), detail='sequence-as-frame-id')
                        else:
                            ctx.ok('FLOW-C26a', fn, '%s.%s is not a WAL sequence' % (rv['adt'], f), line=s.get('l'))
        # Vec<FrameId> queues
        for c in fn.calls():
            if c.is_('Vec::push') and c.args:
                sl0 = lib.slice_back(fn, c.args[:1], through_calls=False, at=(c.bb, None))
                if sl0.has_field('Toc', 'enrichment_queue') or sl0.has_field('EnrichmentQueueManifest', 'frames'):
                    n_sinks += 1
                    hit, _ = tainted(c.args[1], (c.bb, None))
                    if hit:
                        ctx.bad('FLOW-C26a', fn, 'a WAL sequence number is queued as a frame id for enrichment', line=c.line, sink='enrichment_queue', detail='sequence-as-frame-id')
    ctx.floor('FLOW-C26a:fns', n_fns, 2, 'functions that append to the WAL')
    ctx.floor('FLOW-C26a:sinks', n_sinks, 2, 'frame-id sinks in WAL-appending functions')
