"""Effect table for external callees + handle classes + the sync typestate (SUM engine).

Effects on files:
  W  a write that changes file contents/length  (Write::write_all/write, File::set_len, io::copy into a File)
  S  a durability barrier                        (File::sync_all / sync_data)
Handle class of the receiver (backward slice of the receiver operand):
  M  the memory file: derives from Memvid.file, EmbeddedWal.file, FileLock.file or CommitStaging.atomic
  P  a handle passed in as a parameter (helpers such as persist_header / HeaderCodec::write); treated like M
  O  a handle opened locally (File::create / OpenOptions::open / tempfile…): not the memory file of `self`
Typestate lattice: CLEAN < UNSYNCED ("a write to the memory file may not have been fsynced yet")."""
from . import lib
from .facts import op_place

WRITE_PATS = ('Write::write_all', 'Write::write', '<File as Write>::write_all', '<File as Write>::write', 'File::set_len',
              '<&File as Write>::write_all', 'Write::write_fmt')
SYNC_PATS = ('File::sync_all', 'File::sync_data')
COPY_PATS = ('std::io::copy',)
OPEN_PATS = ('File::create', 'File::open', 'OpenOptions::open', 'File::create_new', 'tempfile::tempfile', 'NamedTempFile::new',
             'TempDir::new', 'tempfile::tempdir', 'File::options')
M_FIELDS = {('Memvid', 'file'), ('EmbeddedWal', 'file'), ('FileLock', 'file'), ('CommitStaging', 'atomic')}

CLEAN, UNSYNCED = 0, 1


def file_effect(fn, c):
    """('W'|'S', class) for a call with a direct file effect, else None"""
    if c.is_(SYNC_PATS):
        kind, recv = 'S', c.args[0]
    elif c.is_(COPY_PATS):
        kind, recv = 'W', c.args[1]
    elif c.is_(WRITE_PATS):
        kind, recv = 'W', c.args[0]
        st = c.self_ty() or ''
        # writes into in-memory buffers are not file effects
        if any(x in st for x in ('Vec<u8>', 'Cursor<', 'String', 'Sha256', 'Hasher', 'BufWriter<Vec', 'Formatter')):
            return None
    else:
        return None
    return kind, handle_class(fn, recv)


def is_memory_handle(fn, c, operand):
    """the receiver `operand` of io call `c` is (or may be) the memory file, not an in-memory buffer"""
    st = c.self_ty() or ''
    if any(x in st for x in ('Vec<u8>', 'Cursor<', 'String', 'Sha256', 'Hasher', 'BufWriter<Vec', 'Formatter', '[u8]')):
        return False
    return handle_class(fn, operand) in ('M', 'P')


# handles of other files (never the memory file): feature parallel_segments keeps a manifest log in a sidecar (see C19)
OTHER_FILE_FIELDS = {('ManifestWal', 'file')}


def handle_class(fn, operand):
    sl = lib.slice_back(fn, [operand], through_calls=True)
    if sl.fields & M_FIELDS:
        return 'M'
    if sl.fields & OTHER_FILE_FIELDS:
        return 'O'
    if any(c.is_(OPEN_PATS) for c in sl.calls):
        return 'O'
    if sl.args:
        return 'P'
    return 'O'


class SyncTypestate:
    """May-analysis: can a function return Ok while a write to the memory file is not yet followed by a sync?"""

    def __init__(self, F, identity=(), defer_field=None):
        self.F = F
        self.identity = tuple(identity)        # callee keys treated as having no effect (reviewed exemptions)
        self.defer_field = defer_field         # (owner, field): the true-edge of a test of this bool resets to CLEAN
        self.summ = {}                          # path -> (f(CLEAN), f(UNSYNCED))
        self.deferred_edges = 0
        self.effect_sites = 0
        self._eff = {}
        self._defer = {}

    def effects(self, fn):
        e = self._eff.get(fn.path)
        if e is None:
            e = {}
            for c in fn.calls():
                fe = file_effect(fn, c)
                if fe and fe[1] in ('M', 'P'):
                    e[c.bb] = fe[0]
            self._eff[fn.path] = e
            self.effect_sites += len(e)
        return e

    def defer_edges(self, fn):
        d = self._defer.get(fn.path)
        if d is None:
            d = set()
            if self.defer_field is not None:
                for bs in lib.bool_switches(fn):
                    sl = lib.slice_back(fn, [bs['local']], through_calls=False)
                    if self.defer_field in sl.fields:
                        # `if !skip { sync }` : find which edge means skip == true
                        neg = 'Not' in sl.ops
                        d.add((bs['bb'], bs['t_false'] if neg else bs['t_true']))
            self._defer[fn.path] = d
        return d

    def reachable_fns(self, roots):
        seen = {}
        st = list(roots)
        while st:
            f = st.pop()
            if f.path in seen:
                continue
            seen[f.path] = f
            for c in f.calls():
                lc = c.local_callee
                if lc and lc in self.F.fns and lc not in seen:
                    st.append(self.F.fns[lc])
            for cl in self.F.closures_of(f):
                if cl.path not in seen:
                    st.append(cl)
        return seen

    def solve(self, roots):
        fns = self.reachable_fns(roots)
        for p in fns:
            self.summ[p] = (CLEAN, CLEAN)      # bottom
        changed = True
        rounds = 0
        while changed and rounds < 50:
            changed = False
            rounds += 1
            for p, f in fns.items():
                new = (self.run(f, CLEAN)[0], self.run(f, UNSYNCED)[0])
                if new != self.summ[p]:
                    self.summ[p] = new
                    changed = True
        self.rounds = rounds
        return fns

    def transfer_call(self, fn, c, state):
        eff = self.effects(fn).get(c.bb)
        if eff == 'W':
            return UNSYNCED
        if eff == 'S':
            return CLEAN
        if c.is_(self.identity):
            return state
        lc = c.local_callee
        if lc and lc in self.summ:
            return self.summ[lc][state]
        if c.t.get('indirect') or (not c.t.get('res') and c.name in ('call_once', 'call_mut', 'call')):
            # a caller-supplied closure: assume it may write
            return UNSYNCED
        return state

    def run(self, fn, init):
        """returns (state joined over Ok exits, per-block entry states, exit detail list)"""
        n = len(fn.blocks)
        ent = [None] * n
        ent[0] = init
        work = [0]
        defer = self.defer_edges(fn)
        while work:
            b = work.pop()
            s = ent[b]
            t = fn.blocks[b]['t']
            if t['k'] == 'call':
                c = fn.call_at(b)
                if c is not None:
                    s = self.transfer_call(fn, c, s)
            for nx in fn.succs(b):
                ns = s
                if (b, nx) in defer:
                    ns = CLEAN
                    self.deferred_edges += 1
                old = ent[nx]
                new = ns if old is None else max(old, ns)
                if new != old:
                    ent[nx] = new
                    work.append(nx)
        out = CLEAN
        detail = []
        any_exit = False
        for ex in fn.ok_exits():
            st = ent[ex['bb']]
            if st is None:
                continue
            # state *after* the block's own call if the exit is that call's result
            if ex['kind'] == 'call':
                st = self.transfer_call(fn, ex['call'], st)
            any_exit = True
            detail.append((ex, st))
            out = max(out, st)
        if not fn.returns_result():
            # non-Result functions: every return counts
            for rb in fn.return_blocks():
                if ent[rb] is not None:
                    out = max(out, ent[rb])
                    any_exit = True
        return out, ent, detail
