"""C06 — frame identity is dense, ordered, predictable and stable.

Decided:
  WMC-C06a  the only structural mutation of Toc.frames in the crate is Vec::push in apply_records (exactly one site);
            every other `&mut toc.frames` use is element access (get_mut / iter_mut / index_mut); no store replaces
            the vector; Frame values are constructed only at the reviewed sites; Frame.id is never stored to.
  FLOW-C06b in apply_records the `id` of the pushed Frame is `toc.frames.len()` (no arithmetic), read inside the same
            loop iteration as the push (the read dominates the push and lies on the loop).
  MPT-C06c  in put_internal every successful append of an insert entry is followed, before the next append or any Ok
            exit, by the increment of pending_frame_inserts; the counter is reset (to 0) only where apply_records
            ran; next_frame_id = toc.frames.len() (+) pending_frame_inserts and nothing else.
Not decided: equality of next_frame_id() with the id later assigned across auto-checkpoints (value reasoning)."""
from . import lib
from .facts import Place, op_place

ELEMENT_ACCESS = ('get_mut', 'iter_mut', 'index_mut', 'first_mut', 'last_mut', 'into_iter', 'get', 'iter', 'len', 'is_empty', 'as_mut_slice')
FRAME_CTORS = {
    'Memvid::apply_records': 'materialises a WAL insert (the pushed frame)',
    'Memvid::put_internal': 'temporary frame for the instant index; never stored in toc.frames',
}
RESETTERS = {'Memvid::commit_from_records', 'Memvid::commit_skip_indexes_inner', 'Memvid::recover_wal', 'Memvid::commit_parallel_inner'}


def counting_appenders(F):
    """wrappers of append_wal_entry whose every Ok exit has passed an increment of pending_frame_inserts after the append"""
    c = getattr(F, '_counting_appenders', None)
    if c is not None:
        return c
    c = set()
    for p in lib.wrappers_of(F, ('Memvid::append_wal_entry',)):
        g = F.fns[p]
        apps = lib.op_calls(F, g, ('Memvid::append_wal_entry',), max_wrapper_depth=0)
        incs = [st for st in lib.field_stores(g, 'Memvid', 'pending_frame_inserts')
                if lib.slice_back(g, lib.rv_operands(st['rv'])).has_field('Memvid', 'pending_frame_inserts')]
        if apps and incs and all(any(lib.call_success_dominates(g, a, st['bb']) and g.dominates(st['bb'], ex['bb']) for a in apps for st in incs) for ex in g.ok_exits()):
            c.add(p)
    F._counting_appenders = c
    return c


def run(ctx):
    ctx.rule('WMC-C06a', 'Toc.frames is only pushed to, exactly once, in apply_records; other &mut uses are element access; Frame constructed only at reviewed sites; Frame.id never stored')
    ctx.rule('FLOW-C06b', 'pushed Frame.id == toc.frames.len() read in the same loop iteration')
    ctx.rule('MPT-C06c', 'pending_frame_inserts incremented after each insert append before the next append/Ok; reset only with apply_records; next_frame_id reads only len + counter')
    F = ctx.facts()
    pushes = []
    n_uses = 0
    for f in F.fns.values():
        if f.r.get('derive'):
            continue
        mb = lib.mut_borrows(f)
        for c in f.calls():
            for a in c.args:
                p = op_place(a)
                if p is None or p.p or p.l not in mb:
                    continue
                for t in mb[p.l]:
                    fo = t.field_owners()
                    if not fo or fo[-1] != ('Toc', 'frames'):
                        continue
                    n_uses += 1
                    if c.is_('Vec::push'):
                        pushes.append(c)
                    elif c.name == 'deref_mut':
                        # what is done with the slice?
                        users = [u for u in f.calls() if any((op_place(x) is not None and op_place(x).l in lib.root_of(f, c.dest.l) | {c.dest.l}) or
                                                             (op_place(x) is not None and c.dest.l in lib.root_of(f, op_place(x).l)) for x in u.args) and u is not c]
                        badu = [u for u in users if u.name not in ELEMENT_ACCESS]
                        if badu:
                            ctx.bad('WMC-C06a', f, 'toc.frames is restructured through its slice: %s' % ', '.join(sorted({u.key for u in badu})),
                                    line=c.line, detail='frames-slice-mutation:' + ','.join(sorted({u.key for u in badu})))
                        else:
                            ctx.ok('WMC-C06a', f, '&mut toc.frames used for element access only (%s)' % ', '.join(sorted({u.name for u in users})), line=c.line)
                    elif c.name in ELEMENT_ACCESS:
                        ctx.ok('WMC-C06a', f, '&mut toc.frames used for element access (%s)' % c.name, line=c.line)
                    else:
                        ctx.bad('WMC-C06a', f, 'structural mutation of toc.frames via %s' % c.key, line=c.line, detail='frames-mutation:' + c.key)
        for st in lib.field_stores(f, 'Toc', 'frames'):
            if st['lhs'].field_owners()[-1] == ('Toc', 'frames'):
                ctx.bad('WMC-C06a', f, 'toc.frames is replaced wholesale', line=st['line'], detail='frames-replaced')
        for st in lib.field_stores(f, 'Frame', 'id'):
            if st['lhs'].field_owners()[-1] == ('Frame', 'id'):
                ctx.bad('WMC-C06a', f, 'Frame.id is overwritten', line=st['line'], detail='frame-id-store')
        for bb, idx, s in f.stmts():
            rv = s['rv']
            if rv['k'] == 'agg' and rv.get('adt') == 'Frame' and rv.get('ak') == 'adt':
                k = f.key
                if k in FRAME_CTORS:
                    ctx.ok('WMC-C06a', f, 'reviewed Frame construction: ' + FRAME_CTORS[k], line=s.get('l'))
                else:
                    ctx.bad('WMC-C06a', f, 'unreviewed construction of a Frame value', line=s.get('l'), detail='frame-ctor')
    ctx.evaluations += len(F.fns)
    ctx.floors['WMC-C06a:push'] = [len(pushes), 1]
    if len(pushes) != 1 or pushes[0].fn.key != 'Memvid::apply_records':
        ctx.bad('WMC-C06a', pushes[0].fn if pushes else None, 'expected exactly one push into toc.frames, in apply_records; found %s' % [
            (p.fn.key, p.line) for p in pushes], detail='push-sites')
        return
    push = pushes[0]
    ar = push.fn
    ctx.touch(ar, len(ar.blocks))
    ctx.ok('WMC-C06a', ar, 'the single push into toc.frames', line=push.line)
    ctx.floor('WMC-C06a:uses', n_uses, 2, '&mut uses of toc.frames')
    # ---- C06b
    sl = lib.slice_back(ar, [push.args[1]], through_calls=False)
    frame_aggs = [s for bb, i, s in ar.stmts() if s['rv']['k'] == 'agg' and s['rv'].get('adt') == 'Frame' and s['lhs']['l'] in sl.locals]
    if not frame_aggs:
        ctx.lost('FLOW-C06b', 'the Frame aggregate pushed in apply_records was not found')
    for s in frame_aggs:
        rv = s['rv']
        idop = rv['ops'][rv['fields'].index('id')]
        isl = lib.slice_back(ar, [idop], through_calls=True, stop_at_calls=('Vec::len',))
        lens = [c for c in isl.calls if c.name == 'len' and lib.slice_back(ar, c.args, through_calls=False).has_field('Toc', 'frames')]
        arith = isl.ops - {'Not'}
        ctx.evaluations += 1
        if not lens or arith or any(c.name not in ('len', 'try_from', 'from', 'into', 'unwrap_or', 'try_into') for c in isl.calls):
            ctx.bad('FLOW-C06b', ar, 'Frame.id is not exactly toc.frames.len() (ops %s, via %s)' % (sorted(arith), sorted({c.key for c in isl.calls})),
                    line=s.get('l'), detail='id-not-len')
            continue
        ln = lens[0]
        on_loop = push.bb in ar.reachable(ln.bb) and ln.bb in ar.reachable(push.bb)
        if ar.dominates(ln.bb, push.bb) and on_loop:
            ctx.ok('FLOW-C06b', ar, 'pushed Frame.id = toc.frames.len(), read in the same loop iteration as the push', line=s.get('l'))
        else:
            ctx.bad('FLOW-C06b', ar, 'toc.frames.len() is not re-read for every pushed frame (dominates push: %s, on loop: %s)' % (
                ar.dominates(ln.bb, push.bb), on_loop), line=ln.line, detail='id-len-stale')
    # ---- C06c
    put = ctx.need('MPT-C06c', 'Memvid::put_internal')
    if put is not None:
        ctx.touch(put, len(put.blocks))
        apps = lib.op_calls(F, put, ('Memvid::append_wal_entry',))
        incs = [st for st in lib.field_stores(put, 'Memvid', 'pending_frame_inserts')]
        ctx.floor('MPT-C06c:appends', len(apps), 2, 'WAL append sites in put_internal (parent, chunk)')
        exits = {ex['bb'] for ex in put.ok_exits()}
        for a in apps:
            ctx.evaluations += 1
            sb, how = put.success_block(a)
            if sb is None:
                ctx.bad('MPT-C06c', put, 'append result is not checked', line=a.line, detail='append-unchecked')
                continue
            # a wrapper that appends *and* counts (every Ok exit of the wrapper passes an increment after its append)
            if a.local_callee in counting_appenders(F):
                ctx.ok('MPT-C06c', put, 'append through %s, which increments pending_frame_inserts after its append on every Ok path' % a.key.split('::')[-1], line=a.line)
                continue
            # the increment: a store whose value derives from the counter itself (x = x (+) 1), right after this append
            cands = [st for st in incs if put.dominates(sb, st['bb']) and
                     lib.slice_back(put, lib.rv_operands(st['rv'])).has_field('Memvid', 'pending_frame_inserts')]
            ok = False
            for st in cands:
                seen = put.reachable(sb, avoid={st['bb']})
                others = {o.bb for o in apps if o is not a}
                # a loop back to the same append is fine only through the store
                if not (seen & exits) and not (seen & others) and a.bb not in seen:
                    ok = True
                    line = st['line']
            if ok:
                ctx.ok('MPT-C06c', put, 'pending_frame_inserts incremented after this append before the next append / Ok', line=a.line)
            else:
                ctx.bad('MPT-C06c', put, 'a successful insert append can reach the next append or an Ok exit without incrementing pending_frame_inserts',
                        line=a.line, detail='append-without-increment')
    # the counter counts *inserts*: a tombstone is a WAL record but not a frame, so the delete path must not advance it
    dele = ctx.need('MPT-C06c', 'Memvid::delete_frame')
    if dele is not None:
        ctx.touch(dele, len(dele.blocks))
        culprit = None
        for st in lib.field_stores(dele, 'Memvid', 'pending_frame_inserts'):
            if lib.slice_back(dele, lib.rv_operands(st['rv'])).has_field('Memvid', 'pending_frame_inserts'):
                culprit = ('delete_frame itself', st['line'])
        for c in lib.op_calls(F, dele, ('Memvid::append_wal_entry',)):
            if c.local_callee in counting_appenders(F):
                culprit = (c.key, c.line)
        ctx.evaluations += 1
        if culprit:
            ctx.bad('MPT-C06c', dele, 'the tombstone append advances pending_frame_inserts (via %s): next_frame_id() overshoots by one per pending delete, so ids predicted for later '
                    'puts (and the data derived with them) name the wrong frame' % culprit[0], line=culprit[1], detail='tombstone-counted-as-insert')
        else:
            ctx.ok('MPT-C06c', dele, 'the tombstone append does not advance pending_frame_inserts')
    # resets
    n_reset = 0
    for f in F.fns.values():
        for st in lib.field_stores(f, 'Memvid', 'pending_frame_inserts'):
            k = st['rv'].get('a', {}).get('k') if st['rv']['k'] == 'use' else None
            if k is not None and 'v' in k:
                n_reset += 1
                ctx.evaluations += 1
                ars = f.calls_to('Memvid::apply_records')
                if f.key in RESETTERS and ars and any(lib.call_success_dominates(f, a, st['bb']) for a in ars) and k['v'] == 0:
                    ctx.ok('MPT-C06c', f, 'pending_frame_inserts reset to 0 after apply_records materialised the inserts', line=st['line'])
                else:
                    ctx.bad('MPT-C06c', f, 'pending_frame_inserts is set to a constant without apply_records having run', line=st['line'], detail='counter-reset')
    ctx.floor('MPT-C06c:resets', n_reset, 2, 'resets of pending_frame_inserts')
    # converse: whoever materialises the pending inserts (apply_records) resets the counter before returning Ok - otherwise
    # next_frame_id() = len + counter counts the same frames twice
    n_apply = 0
    for f in sorted(F.fns.values(), key=lambda x: x.path):
        if f.is_closure:
            continue
        for a in f.calls_to('Memvid::apply_records'):
            n_apply += 1
            ctx.evaluations += 1
            ctx.touch(f, 1)
            sb, _ = f.success_block(a)
            resets = {st['bb'] for st in lib.field_stores(f, 'Memvid', 'pending_frame_inserts')
                      if st['rv']['k'] == 'use' and (st['rv'].get('a', {}).get('k') or {}).get('v') == 0 and sb is not None and f.dominates(sb, st['bb'])}
            exits = {ex['bb'] for ex in f.ok_exits()}
            if sb is not None and not (f.reachable(sb, avoid=resets) & exits):
                ctx.ok('MPT-C06c', f, 'every Ok path after apply_records resets pending_frame_inserts', line=a.line)
            else:
                ctx.bad('MPT-C06c', f, 'apply_records materialises the pending inserts but an Ok exit is reachable without pending_frame_inserts being reset: next_frame_id() (= frames.len() + counter) '
                        'counts those frames twice until some other commit path resets it', line=a.line, sink='Memvid.pending_frame_inserts', detail='counter-not-reset-after-apply')
    ctx.floor('MPT-C06c:applies', n_apply, 2, 'callers of apply_records')
    nf = ctx.need('MPT-C06c', 'Memvid::next_frame_id')
    if nf is not None:
        ctx.touch(nf, len(nf.blocks))
        ops = lib.ret_operands(nf)
        sl = lib.slice_back(nf, ops)
        fields = {(o, f) for o, f in sl.fields if o}
        want = {('Memvid', 'toc'), ('Toc', 'frames'), ('Memvid', 'pending_frame_inserts')}
        calls = {c.name for c in sl.calls}
        ctx.evaluations += 1
        if fields == want and calls <= {'len', 'saturating_add', 'wrapping_add', 'checked_add'} and not (sl.ops - {'Add', 'AddWithOverflow'}):
            ctx.ok('MPT-C06c', nf, 'next_frame_id = toc.frames.len() + pending_frame_inserts')
        else:
            ctx.bad('MPT-C06c', nf, 'next_frame_id reads %s via %s' % (sorted(fields), sorted(calls)), detail='next-frame-id-shape')
