"""C10 — every search hit is a valid answer to the query.

Decided (per engine path: try_tantivy_search, search_with_lex_fallback, search_with_filters_only):
  MPT-C10a   a candidate is accepted (pushed into the list hits are built from) only on the true edge of
             ParsedQuery::evaluate applied to that frame; in the Tantivy and lex-fallback paths request.uri and
             request.scope each reach either the candidate producer's filter arguments (search_documents /
             compute_matches) or a comparison (uri_matches / starts_with) that every acceptance passes.
  GUARD-C10b a SearchHit is pushed only on the edge where hits.len() differs from (is below) the effective top_k,
             and the hit's rank derives from hits.len().
  FLOW-C10c  where a hit's text is a slice `chunk_text[s..e]`, its `range` is (chunk_start + s, chunk_start + e) with
             the same two bounds, in that order, and chunk_range is the chunk's own (start, end).
  UNIT-C10d  byte offsets and character offsets are different units: the ranges of TextChunkManifest (TextChunkRange
             start/end, produced by the chunk planner) count characters, while ChunkInfo.start/end and
             SearchHit.range/chunk_range index bytes of the document text. No TextChunkRange field may flow into a
             ChunkInfo / SearchHit offset (with multi-byte text the range no longer selects the hit's text).
Not decided: that the text satisfies the query semantics (values); the rarely-taken filters-only path ignores
request.uri/scope (recorded in DESIGN.md as an untriaged candidate, not armed)."""
from . import lib
from .facts import Place, op_place

ENGINES = ('memvid::search::tantivy::try_tantivy_search', 'memvid::search::fallback::search_with_lex_fallback',
           'memvid::search::fallback::search_with_filters_only')
FILTERED = ENGINES[:2]


BYTE_SINKS = {'ChunkInfo': ('start', 'end'), 'SearchHit': ('range', 'chunk_range')}


def _units(ctx, F):
    ctx.rule('UNIT-C10d', 'no character offset (TextChunkRange.start/end) flows into a byte offset (ChunkInfo.start/end, SearchHit.range/chunk_range)')
    n = 0
    for f in sorted(F.fns.values(), key=lambda x: x.path):
        if f.r.get('derive'):
            continue
        for bb, i, st in f.stmts():
            rv = st['rv']
            if rv['k'] == 'agg' and rv.get('ak') == 'adt' and rv.get('adt') in BYTE_SINKS:
                for fld in BYTE_SINKS[rv['adt']]:
                    if fld not in rv['fields']:
                        continue
                    n += 1
                    ctx.evaluations += 1
                    sl = lib.slice_back(f, [rv['ops'][rv['fields'].index(fld)]], through_calls=True, at=(bb, i))
                    ctx.touch(f, 1)
                    if sl.has_field('TextChunkRange', 'start') or sl.has_field('TextChunkRange', 'end'):
                        ctx.bad('UNIT-C10d', f, '%s.%s (a byte offset into the document text) is computed from TextChunkRange.start/end, which count characters: with multi-byte text the range '
                                'no longer selects the text of the hit' % (rv['adt'], fld), line=st.get('l'), sink='%s.%s' % (rv['adt'], fld), detail='char-offset-as-byte-offset:%s.%s' % (rv['adt'], fld))
                    else:
                        ctx.ok('UNIT-C10d', f, '%s.%s does not derive from a character offset' % (rv['adt'], fld), line=st.get('l'))
    ctx.floor('UNIT-C10d', n, 3, 'byte-offset sinks (ChunkInfo / SearchHit constructions)')


def run(ctx):
    _units(ctx, ctx.facts())
    ctx.rule('MPT-C10a', 'candidate acceptance only on the true edge of ParsedQuery::evaluate; uri/scope reach a producer filter or a dominating comparison')
    ctx.rule('GUARD-C10b', 'SearchHit pushed only while hits.len() != effective top_k; rank from hits.len()')
    ctx.rule('FLOW-C10c', 'hit.text = chunk_text[s..e] and hit.range = (chunk_start+s, chunk_start+e) use the same bounds in order')
    F = ctx.facts()
    n_slices = 0
    for key in ENGINES:
        fn = ctx.need('MPT-C10a', key)
        if fn is None:
            continue
        ctx.touch(fn, len(fn.blocks))
        ev = fn.calls_to('ParsedQuery::evaluate')
        if len(ev) != 1:
            ctx.lost('MPT-C10a', '%s must call ParsedQuery::evaluate exactly once (found %d)' % (key, len(ev)))
            continue
        ev = ev[0]
        # the boolean test of its result
        true_edges = set()
        for bs in lib.bool_switches(fn):
            sl = lib.slice_back(fn, [bs['local']], through_calls=False, at=(bs['bb'], None))
            if ev in sl.calls:
                neg = 'Not' in sl.ops
                true_edges.add((bs['bb'], bs['t_false'] if neg else bs['t_true']))
        if not true_edges:
            ctx.bad('MPT-C10a', fn, 'the result of ParsedQuery::evaluate is not tested', line=ev.line, detail='evaluate-untested')
            continue
        # pushes reachable from the evaluate call inside the loop iteration (before the next evaluate)
        start = ev.target
        seen = set()
        st = [start]
        reached_without = set()
        while st:
            b = st.pop()
            if b in seen or b == ev.bb:
                continue
            seen.add(b)
            for s in fn.succs(b):
                if (b, s) not in true_edges:
                    st.append(s)
        # all pushes in the same loop: reachable from ev and reaching ev again
        loop_pushes = [c for c in fn.calls() if c.is_('Vec::push') and c.bb in fn.reachable(ev.target) and ev.bb in fn.reachable(c.bb)]
        ctx.evaluations += len(loop_pushes) + 1
        if not loop_pushes:
            ctx.lost('MPT-C10a', '%s: no candidate push in the evaluation loop' % key)
        for p in loop_pushes:
            if p.bb in seen:
                ctx.bad('MPT-C10a', fn, 'a candidate is accepted without passing the true edge of ParsedQuery::evaluate', line=p.line, detail='accept-without-evaluate')
            else:
                ctx.ok('MPT-C10a', fn, 'candidate accepted only after ParsedQuery::evaluate returned true', line=p.line)
        # evaluate is applied to the candidate's own frame and text
        sctx = lib.slice_back(fn, ev.args[1:2], through_calls=True, at=(ev.bb, None))
        if 'EvaluationContext::EvaluationContext' not in sctx.aggs:
            ctx.bad('MPT-C10a', fn, 'evaluate is not given an EvaluationContext built for the candidate', line=ev.line, detail='evaluate-context')
        if key.endswith('try_tantivy_search'):
            # the Tantivy document's stored text can be stale or keyed to another frame (re-indexing, provisional
            # instant-index ids): the authoritative text is the frame's own (TOC search_text | chunk text)
            ectx = [(bb, i, s) for bb, i, s in fn.stmts() if s['rv']['k'] == 'agg' and s['rv'].get('adt') == 'EvaluationContext']
            for bb, i, s in ectx:
                ops = dict(zip(s['rv']['fields'], s['rv']['ops']))
                tsl = lib.slice_back(fn, [ops['content_lower']], through_calls=True, at=(bb, i))
                own = tsl.has_field('Frame', 'search_text') or bool(tsl.calls_matching('Memvid::resolve_chunk_context'))
                stored = tsl.has_field('TantivyDocHit', 'content')
                ctx.evaluations += 1
                if own and not stored:
                    ctx.ok('MPT-C10a', fn, 'evaluate runs on the frame\'s own text (TOC search_text | chunk text)', line=s.get('l'))
                else:
                    ctx.bad('MPT-C10a', fn, 'evaluate runs on the text stored in the Tantivy document (hit.content), not on the frame\'s own searchable text: '
                            'a re-indexed or mis-keyed document makes a frame a hit for text it does not contain', line=s.get('l'), detail='evaluate-on-index-text')
        if key in FILTERED:
            for fld in ('uri', 'scope'):
                used = []
                for c in fn.calls():
                    if c.name in ('compute_matches', 'search_documents', 'uri_matches', 'starts_with', 'eq_ignore_ascii_case'):
                        for a in c.args:
                            if lib.slice_back(fn, [a], through_calls=True, at=(c.bb, None)).has_field('SearchRequest', fld):
                                used.append(c.name)
                                break
                ctx.evaluations += 1
                if used:
                    ctx.ok('MPT-C10a', fn, 'request.%s reaches %s' % (fld, ', '.join(sorted(set(used)))))
                else:
                    ctx.bad('MPT-C10a', fn, 'request.%s is not used to restrict candidates on this engine path (dead filter)' % fld, detail='dead-request-filter:' + fld)
        # ---- C10b
        hit_pushes = [c for c in fn.calls() if c.is_('Vec::push') and 'SearchHit::SearchHit' in lib.slice_back(fn, c.args[1:2], through_calls=False, at=(c.bb, None)).aggs]
        if not hit_pushes:
            ctx.lost('GUARD-C10b', '%s: no SearchHit push' % key)
        for p in hit_pushes:
            ctx.evaluations += 1
            hv = lib.root_of(fn, op_place(p.args[0]).l)

            def is_len(s):
                return any(c.name == 'len' and (lib.root_of(fn, op_place(c.args[0]).l) & hv) for c in s.calls if c.args and op_place(c.args[0]) is not None)

            def is_topk(s):
                return s.has_field('SearchRequest', 'top_k') or s.has_field('SearchParams', 'top_k')
            g = lib.find_guard(fn, p.bb, '!=', is_len, is_topk) or lib.find_guard(fn, p.bb, '<', is_len, is_topk)
            if g is None:
                ctx.bad('GUARD-C10b', fn, 'a SearchHit is pushed without the hits.len() vs top_k test on its path', line=p.line, detail='topk-guard')
            else:
                ctx.ok('GUARD-C10b', fn, 'SearchHit pushed only while hits.len() is below top_k (test at line %s)' % g.line, line=p.line)
            # ---- C10c on the aggregate
            for bb, idx, s in fn.stmts():
                rv = s['rv']
                if rv['k'] == 'agg' and rv.get('adt') == 'SearchHit' and s['lhs']['l'] in lib.slice_back(fn, p.args[1:2], through_calls=False, at=(p.bb, None)).locals:
                    ops = dict(zip(rv['fields'], rv['ops']))
                    rk = lib.slice_back(fn, [ops['rank']], through_calls=True, at=(bb, idx))
                    if not any(c.name == 'len' for c in rk.calls):
                        ctx.bad('GUARD-C10b', fn, 'hit.rank does not derive from hits.len()', line=s.get('l'), detail='rank-source')
                    tx = lib.slice_back(fn, [ops['text']], through_calls=True, at=(bb, idx), stop_at_calls=('Index::index',))
                    idxc = [c for c in tx.calls if c.name == 'index' and len(c.args) == 2]
                    if not idxc:
                        continue
                    n_slices += 1
                    rng = lib.slice_back(fn, [idxc[0].args[1]], through_calls=False, at=(idxc[0].bb, None))
                    bounds = None
                    for bb2, i2, s2 in fn.stmts():
                        r2 = s2['rv']
                        if r2['k'] == 'agg' and r2.get('adt') == 'Range' and s2['lhs']['l'] in rng.locals:
                            bounds = [op_place(o) for o in r2['ops']]
                    if not bounds or any(b is None for b in bounds):
                        ctx.lost('FLOW-C10c', '%s: slice bounds of hit.text not found' % key)
                        continue
                    S = lib.slice_back(fn, [bounds[0]], through_calls=False, at=(idxc[0].bb, None)).locals
                    E = lib.slice_back(fn, [bounds[1]], through_calls=False, at=(idxc[0].bb, None)).locals
                    s_only, e_only = S - E, E - S
                    rt = lib.slice_back(fn, [ops['range']], through_calls=False, at=(bb, idx))
                    tup = [s3 for bb3, i3, s3 in fn.stmts() if s3['rv']['k'] == 'agg' and s3['rv'].get('ak') == 'tuple' and s3['lhs']['l'] in rt.locals and len(s3['rv']['ops']) == 2]
                    ctx.evaluations += 1
                    if not tup:
                        ctx.lost('FLOW-C10c', '%s: hit.range tuple not found' % key)
                        continue
                    t = tup[0]
                    a0 = lib.slice_back(fn, [t['rv']['ops'][0]], through_calls=False, at=(bb, idx))
                    a1 = lib.slice_back(fn, [t['rv']['ops'][1]], through_calls=False, at=(bb, idx))
                    # same two bounds, same order; an offset (chunk start) may be added to both, but then to both alike
                    add0, add1 = bool({'Add', 'AddWithOverflow'} & a0.ops), bool({'Add', 'AddWithOverflow'} & a1.ops)
                    ok = bool(a0.locals & s_only) and not (a0.locals & e_only) and bool(a1.locals & e_only) and not (a1.locals & s_only) and add0 == add1
                    shared = ((a0.locals & a1.locals) - S - E) if add0 else {0}
                    ls, le = s_only, e_only
                    if ok and shared:
                        ctx.ok('FLOW-C10c', fn, 'hit.text is sliced with the same two bounds, in order, that form hit.range (offset by the chunk start where the chunk text is sliced)', line=s.get('l'))
                    else:
                        ctx.bad('FLOW-C10c', fn, 'hit.range is not (chunk_start + s, chunk_start + e) for the bounds [s..e] that slice hit.text', line=s.get('l'), detail='range-text-bounds')
                    cr = lib.slice_back(fn, [ops['chunk_range']], through_calls=False, at=(bb, idx))
                    if (cr.locals & ls) or (cr.locals & le):
                        ctx.bad('FLOW-C10c', fn, 'chunk_range is built from the snippet bounds instead of the chunk bounds', line=s.get('l'), detail='chunk-range')
    ctx.floor('FLOW-C10c', n_slices, 2, 'engine paths that slice hit.text out of the chunk text')
