"""C05 — embedded log never loses or resurrects records (ring typestate).

Decided:
  GUARD-C05a  a ring position is reset to 0 (constant-0 definition that reaches EmbeddedWal.write_head or the position
              argument of a ring write) only where `pending_bytes == 0` is established: by a dominating comparison edge,
              by a dominating `pending_bytes = 0` store, or — failing that in the function itself — at every call
              site up the EmbeddedWal call chain. Degenerate-ring paths (`region_size == 0` edge) are exempt by rule.
  MPT-C05b    append_entry: write_record success is followed on every Ok path by maybe_write_sentinel.
  GUARD-C05c  append_entry: write_record is dominated by the rejecting comparisons (entry vs region, pending+entry vs
              region) whose failing edges construct CheckpointFailed.
  AGREE-C05d  record_checkpoint stores exactly the reviewed field set; header fields derive from write_head/sequence.
  GUARD-C05e  scan_records pushes a record only after the checksum equality edge and the length-bounds edge.
  GUARD-C05f  records_after returns only entries passing `entry.sequence > <its parameter>`; pending_records passes
              checkpoint_sequence.
  GUARD-C05g  a zero sentinel needs a free slot: maybe_write_sentinel reaches write_zero_header only on an edge where
              pending_bytes < region_size holds (strictly). When pending records fill the ring to its last byte the
              write head has wrapped onto the header of the oldest pending record, and a sentinel there makes the
              scan stop at offset 0: every pending record is lost.
  FLOW-C05h   a WAL opened from a header continues numbering after the checkpoint: every value that open_internal (or
              an EmbeddedWal helper it calls) puts into EmbeddedWal.sequence derives from Header.wal_sequence, from the
              handle's own checkpoint_sequence/sequence (fallbacks), and at least one of them from the header. With an
              empty region and a counter restarted below wal_sequence, the next acknowledged record carries a sequence
              <= checkpoint_sequence and every scan (pending_records, recovery) filters it out: the record is lost.
  FLOW-C05i   the pending byte count a reopened WAL starts with is the sum of the scanned records newer than the
              checkpoint: the value placed in EmbeddedWal.pending_bytes on the open path derives from the records
              returned by scan_records - their total_size, selected by a comparison of their sequence (inline, in a
              closure, or in a private helper the value passes through). A count derived from the head positions
              (write_head - checkpoint_head) is 0 after the ring wrapped with records pending, which switches off both
              append guards: the next append overwrites acknowledged records.
  GUARD-C05j  the sentinel never lands on offset 0 while records are pending: maybe_write_sentinel reaches
              write_zero_header only past an edge establishing write_head != 0 or pending_bytes == 0. Appends never
              wrap over pending records, so "head at 0 with records pending" means the last record ended exactly on the
              region boundary ((head + size) % region == 0); a sentinel written there zeroes the header of the first
              record and every scan (which starts at 0) reports an empty log: the acknowledged records are lost.
Not decided: the exhaustive state-space claim over operation sequences."""
from . import lib
from .facts import Place, op_place

WAL = 'EmbeddedWal'
RING_WRITERS = ('EmbeddedWal::seek_and_write', 'EmbeddedWal::write_record', 'EmbeddedWal::write_zero_header')
CHECKPOINT_FIELDS = {('EmbeddedWal', 'checkpoint_head'), ('EmbeddedWal', 'pending_bytes'), ('EmbeddedWal', 'appends_since_checkpoint'),
                     ('EmbeddedWal', 'checkpoint_sequence'), ('Header', 'wal_checkpoint_pos'), ('Header', 'wal_sequence')}


def wal_fns(F):
    return [f for f in F.fns.values() if f.r.get('impl_self', '').endswith('::EmbeddedWal') and not f.is_closure and not f.r.get('derive')]


def zero_defs(fn, locals_):
    """definitions `_x = const 0` (integer) of locals in `locals_`"""
    out = []
    d = lib.defs(fn)
    for l in locals_:
        for s in d.get(l, ()):
            if s['kind'] == 'stmt' and not s['lhs'].p and s['rv']['k'] == 'use':
                k = s['rv']['a'].get('k')
                if k is not None and k.get('v') == 0 and k.get('v') is not False and k.get('ty', '').startswith('u'):
                    out.append(s)
    return out


def pending_zero_established(fn, bb):
    """is `pending_bytes == 0` established at block bb of fn (comparison edge or dominating const-0 store)?
    returns a description or None"""
    g = lib.find_guard(fn, bb, '==', lambda s: s.has_field(WAL, 'pending_bytes'), lambda s: 0 in s.const_vals() and not s.fields and not s.args)
    if g is None:
        # unsigned: `pending_bytes > 0` false edge  ==  pending_bytes <= 0
        g = lib.find_guard(fn, bb, '<=', lambda s: s.has_field(WAL, 'pending_bytes'), lambda s: 0 in s.const_vals() and not s.fields and not s.args)
    if g is not None:
        return 'comparison on pending_bytes at line %s' % g.line
    stores = lib.field_stores(fn, WAL, 'pending_bytes')
    for st in stores:
        k = st['rv'].get('a', {}).get('k') if st['rv']['k'] == 'use' else None
        if k is None or k.get('v') != 0:
            continue
        if not fn.dominates(st['bb'], bb):
            continue
        # no other store to pending_bytes, and no &mut self call, between the store and bb
        between = fn.reachable(st['bb']) & {b for b in fn.live_blocks() if bb in fn.reachable(b)}
        bad = False
        for o in stores:
            if o is not st and o['bb'] in between and not (o['bb'] == st['bb'] and o['idx'] < st['idx']):
                bad = True
        for c in fn.calls():
            if c.bb in between and c.bb != bb and c.bb != st['bb']:
                for a in c.args:
                    p = op_place(a)
                    if p is not None and not p.p and p.l in lib.mut_borrows(fn) and 1 in lib.root_of(fn, p.l):
                        bad = True
        if not bad:
            return '`pending_bytes = 0` at line %s' % st['line']
    return None


def degenerate_ring(fn, bb):
    g = lib.find_guard(fn, bb, '==', lambda s: s.has_field(WAL, 'region_size'), lambda s: 0 in s.const_vals() and not s.fields)
    return g is not None


def returns_slice(fn):
    """slice of everything the function's Ok value derives from"""
    ops = []
    for ex in fn.ok_exits():
        if ex['kind'] == 'ok':
            ops += ex['rv']['ops']
        elif ex['kind'] == 'other':
            ops += lib.rv_operands(ex['rv'])
    return lib.slice_back(fn, ops, through_calls=False)


def check_wrap(ctx, F):
    fns = wal_fns(F)
    by_path = {f.path: f for f in fns}
    callers = {}
    for f in fns:
        for c in f.calls():
            if c.local_callee in by_path:
                callers.setdefault(c.local_callee, []).append(c)
    n_sinks = 0
    zero_sites = []   # (fn, def site, how it reaches the ring position)
    for f in fns:
        ctx.touch(f, len(f.blocks))
        sinks = []
        for st in lib.field_stores(f, WAL, 'write_head'):
            sinks.append(('store write_head', st['line'], lib.rv_operands(st['rv'])))
            # a direct constant-0 store
            k = st['rv'].get('a', {}).get('k') if st['rv']['k'] == 'use' else None
            if k is not None and k.get('v') == 0:
                zero_sites.append((f, dict(bb=st['bb'], line=st['line']), 'write_head = 0'))
        for c in f.calls_to(RING_WRITERS):
            sinks.append(('position of ' + c.key, c.line, c.args[1:2]))
        # values returned to a caller that stores them into write_head (write_zero_header -> maybe_write_sentinel)
        for c in callers.get(f.path, []):
            user = c.fn
            dest = c.dest
            for st in lib.field_stores(user, WAL, 'write_head'):
                if dest.l in lib.slice_back(user, lib.rv_operands(st['rv']), through_calls=False).locals:
                    sl = returns_slice(f)
                    for z in zero_defs(f, sl.locals):
                        zero_sites.append((f, z, 'returned to %s which stores it into write_head' % user.key))
                    break
        n_sinks += len(sinks)
        for what, line, ops in sinks:
            sl = lib.slice_back(f, ops, through_calls=False)
            for z in zero_defs(f, sl.locals):
                zero_sites.append((f, z, what))
    ctx.floor('GUARD-C05a:sinks', n_sinks, 3, 'ring-position sinks (write_head stores + ring writer positions)')
    seen = set()
    for f, z, what in zero_sites:
        k = (f.path, z['bb'], z.get('idx'))
        if k in seen:
            continue
        seen.add(k)
        ctx.evaluations += 1
        if degenerate_ring(f, z['bb']):
            ctx.ok('GUARD-C05a', f, 'zero position only on the region_size == 0 path (infeasible: header rejects wal_size 0)', line=z['line'])
            continue
        how = pending_zero_established(f, z['bb'])
        if how:
            ctx.ok('GUARD-C05a', f, 'ring position reset to 0 (%s) under %s' % (what, how), line=z['line'])
            continue
        # look up the call chain: every call site must establish pending_bytes == 0
        unguarded = []
        okc = []
        work = [(f.path, [f.key])]
        visited = set()
        while work:
            p, chain = work.pop()
            if p in visited:
                continue
            visited.add(p)
            cs = callers.get(p, [])
            if not cs:
                unguarded.append('<-'.join(chain) + ' (entry)')
                continue
            for c in cs:
                ctx.evaluations += 1
                if degenerate_ring(c.fn, c.bb):
                    continue
                h = pending_zero_established(c.fn, c.bb)
                if h:
                    okc.append('%s (%s)' % (c.fn.key, h))
                elif c.fn.r.get('exported') and c.fn.r.get('pub') or len(chain) > 5:
                    unguarded.append('<-'.join(chain + [c.fn.key]))
                else:
                    # not established here: keep climbing, but a caller that is itself public is a root
                    if callers.get(c.fn.path):
                        work.append((c.fn.path, chain + [c.fn.key]))
                    else:
                        unguarded.append('<-'.join(chain + [c.fn.key]))
        if unguarded:
            ctx.bad('GUARD-C05a', f, 'ring position reset to 0 (%s) while records may be pending: no `pending_bytes == 0` guard here nor on call chain(s) %s'
                    % (what, '; '.join(sorted(set(unguarded)))), line=z['line'], sink='write_head',
                    detail='zero-wrap-unguarded via ' + ','.join(sorted({u.split('<-')[-1].replace(' (entry)', '') for u in unguarded})))
        else:
            ctx.ok('GUARD-C05a', f, 'ring position reset to 0 (%s): every caller establishes pending_bytes == 0: %s' % (what, '; '.join(okc)), line=z['line'])
    if not zero_sites:
        ctx.lost('GUARD-C05a', 'no constant-0 ring position found (the ring must wrap somewhere)')


def check_append(ctx, F):
    fn = ctx.need('MPT-C05b', 'EmbeddedWal::append_entry')
    if fn is None:
        return
    ctx.touch(fn, len(fn.blocks))
    wr = fn.calls_to('EmbeddedWal::write_record')
    sen = fn.calls_to('EmbeddedWal::maybe_write_sentinel')
    if len(wr) != 1 or not sen:
        ctx.lost('MPT-C05b', 'append_entry must call write_record once and maybe_write_sentinel')
        return
    wr = wr[0]
    ok, why = lib.ordered_on_all_ok_paths(fn, [wr, sen[-1]])
    if ok:
        ctx.ok('MPT-C05b', fn, 'every Ok exit passes write_record(ok) -> maybe_write_sentinel(ok)', line=wr.line)
    else:
        ctx.bad('MPT-C05b', fn, 'sentinel is not written after every successful append: ' + why, line=wr.line, detail='sentinel-after-append')
    # bookkeeping after the write: pending_bytes += entry_size, sequence += 1 dominate Ok
    for fld in ('pending_bytes', 'sequence', 'write_head'):
        sts = [s for s in lib.field_stores(fn, WAL, fld) if lib.call_success_dominates(fn, wr, s['bb'])]
        ctx.evaluations += 1
        if sts and all(fn.dominates(sts[0]['bb'], ex['bb']) for ex in fn.ok_exits() if ex['kind'] != 'err'):
            ctx.ok('MPT-C05b', fn, '%s is updated after the record write on every Ok path' % fld, line=sts[0]['line'])
        else:
            ctx.bad('MPT-C05b', fn, '%s is not updated on every acknowledged append' % fld, detail='bookkeeping:' + fld)
    # C05c: rejection instead of overwrite
    need = [
        ('entry<=region', lambda s: s.has_field(WAL, 'region_size') and not s.has_field(WAL, 'pending_bytes'),
         lambda s: not s.has_field(WAL, 'pending_bytes') and not s.has_field(WAL, 'region_size') and 2 in s.args),
        ('pending+entry<=region', lambda s: s.has_field(WAL, 'region_size') and not s.has_field(WAL, 'pending_bytes'),
         lambda s: s.has_field(WAL, 'pending_bytes') and 2 in s.args),
    ]
    for name, pa, pb in need:
        ctx.evaluations += 1
        g = lib.find_guard(fn, wr.bb, '>=', pa, pb)
        if g is None:
            ctx.bad('GUARD-C05c', fn, 'write_record is not dominated by the capacity test %s' % name, line=wr.line, detail='capacity-guard:' + name)
            continue
        # the rejecting edge builds CheckpointFailed
        rej = [t for t, rel in g.edges() if not lib.edge_dominates(fn, g.bb, t, wr.bb)]
        errs = lib.enum_constructions(fn, 'MemvidError', 'CheckpointFailed')
        if rej and any(fn.dominates(rej[0], e['bb']) for e in errs):
            ctx.ok('GUARD-C05c', fn, 'capacity test %s dominates the write; failing edge returns CheckpointFailed' % name, line=g.line)
        else:
            ctx.bad('GUARD-C05c', fn, 'capacity test %s does not reject with CheckpointFailed' % name, line=g.line, detail='capacity-reject:' + name)


def check_checkpoint(ctx, F):
    fn = ctx.need('AGREE-C05d', 'EmbeddedWal::record_checkpoint')
    if fn is None:
        return
    ctx.touch(fn, len(fn.blocks))
    stored = set()
    for bb, idx, s in fn.stmts():
        lhs = Place(s['lhs'])
        fo = lhs.field_owners()
        if fo and lhs.has_deref():
            stored.add(fo[-1])
    ctx.evaluations += len(stored)
    if stored == CHECKPOINT_FIELDS:
        ctx.ok('AGREE-C05d', fn, 'stores exactly %s' % sorted(f for _, f in stored))
    else:
        ctx.bad('AGREE-C05d', fn, 'checkpoint field set differs from the reviewed set: missing %s, extra %s' % (
            sorted(CHECKPOINT_FIELDS - stored), sorted(stored - CHECKPOINT_FIELDS)), detail='field-set')
    want = {('Header', 'wal_checkpoint_pos'): 'write_head', ('Header', 'wal_sequence'): 'sequence',
            ('EmbeddedWal', 'checkpoint_head'): 'write_head', ('EmbeddedWal', 'checkpoint_sequence'): 'sequence'}
    for (o, f), src in want.items():
        for st in lib.field_stores(fn, o, f):
            sl = lib.slice_back(fn, lib.rv_operands(st['rv']), through_calls=False)
            # allow one hop through the sibling field (header.x = self.checkpoint_x which was set from src)
            names = {n for ow, n in sl.fields if ow == WAL}
            ok = src in names or (('checkpoint_head' in names and src == 'write_head') or ('checkpoint_sequence' in names and src == 'sequence'))
            ctx.evaluations += 1
            if ok:
                ctx.ok('AGREE-C05d', fn, '%s.%s derives from %s' % (o, f, src), line=st['line'])
            else:
                ctx.bad('AGREE-C05d', fn, '%s.%s does not derive from %s (derives from %s)' % (o, f, src, sorted(names)), line=st['line'], detail='derive:' + f)


def check_scan(ctx, F):
    fn = ctx.need('GUARD-C05e', 'EmbeddedWal::scan_records')
    if fn is None:
        return
    ctx.touch(fn, len(fn.blocks))
    pushes = [c for c in fn.calls() if c.is_('Vec::push') and 'ScannedRecord' in fn.local_ty(op_place(c.args[0]).l)]
    if not ctx.floor('GUARD-C05e', len(pushes), 1, 'pushes of scanned records'):
        return
    for p in pushes:
        ctx.evaluations += 2
        # checksum: comparison (== / != via slice PartialEq) one side from blake3::hash(payload), other from the header bytes
        chk = None
        for c, rel in lib.guards_holding_at(fn, p.bb):
            if rel != '==':
                continue
            a, b = c.sa(), c.sb()
            for x, y in ((a, b), (b, a)):
                if x.calls_matching('blake3::hash') and not y.calls_matching('blake3::hash'):
                    chk = c
        if chk is None:
            ctx.bad('GUARD-C05e', fn, 'a record is reported without its stored checksum having been compared with blake3(payload)', line=p.line, detail='checksum-guard')
        else:
            ctx.ok('GUARD-C05e', fn, 'record reported only on the checksum-equal edge (line %s)' % chk.line, line=p.line)
        # bounds: cursor + header + length <= size  (the `>` test's false edge)
        bnd = lib.find_guard(fn, p.bb, '<=', lambda s: 'Add' in s.ops or 'AddWithOverflow' in s.ops, lambda s: 3 in s.args and not s.ops)
        if bnd is None:
            ctx.bad('GUARD-C05e', fn, 'a record is reported without the length-bounds test against the region size', line=p.line, detail='bounds-guard')
        else:
            ctx.ok('GUARD-C05e', fn, 'record reported only inside the region bounds (line %s)' % bnd.line, line=p.line)


def check_records_after(ctx, F):
    fn = ctx.need('GUARD-C05f', 'EmbeddedWal::records_after')
    pr = ctx.need('GUARD-C05f', 'EmbeddedWal::pending_records')
    if fn is None or pr is None:
        return
    ctx.touch(fn, len(fn.blocks))
    ctx.touch(pr, len(pr.blocks))
    # the returned vector derives from a filter whose closure compares ScannedRecord.sequence > captured parameter
    ops = []
    for ex in fn.ok_exits():
        if ex['kind'] == 'ok':
            ops += ex['rv']['ops']
    sl = lib.slice_back(fn, ops)
    good = False
    for cdef in sl.closures:
        cl = F.fns.get(cdef)
        if cl is None or cl.local_ty(0) != 'bool':
            continue
        for bb, idx, s in cl.stmts():
            rv = s['rv']
            if s['lhs']['l'] == 0 and rv['k'] == 'bin' and rv['op'] in ('Gt', 'Lt'):
                a = lib.slice_back(cl, [rv['a']], through_calls=False)
                b = lib.slice_back(cl, [rv['b']], through_calls=False)
                if rv['op'] == 'Lt':
                    a, b = b, a
                if a.has_field('ScannedRecord', 'sequence') and ('{closure}', 'sequence') in b.fields:
                    good = True
    ctx.evaluations += len(sl.closures)
    if good and sl.calls_matching('Iterator::filter'):
        ctx.ok('GUARD-C05f', fn, 'returned records pass `entry.sequence > sequence` (strict)')
    else:
        ctx.bad('GUARD-C05f', fn, 'returned records are not filtered by `entry.sequence > <parameter>`', detail='after-filter')
    c = pr.calls_to('EmbeddedWal::records_after')
    if c and lib.slice_back(pr, c[0].args[1:2]).has_field(WAL, 'checkpoint_sequence'):
        ctx.ok('GUARD-C05f', pr, 'pending_records = records_after(checkpoint_sequence)', line=c[0].line)
    else:
        ctx.bad('GUARD-C05f', pr, 'pending_records does not scan from checkpoint_sequence', detail='pending-from-checkpoint')


def _sentinel_slot(ctx, F):
    ctx.rule('GUARD-C05g', 'maybe_write_sentinel writes the zero sentinel only where pending_bytes < region_size (a full ring has no free slot)')
    fn = ctx.need('GUARD-C05g', 'EmbeddedWal::maybe_write_sentinel')
    if fn is None:
        return
    ctx.touch(fn, len(fn.blocks))
    zs = fn.calls_to('EmbeddedWal::write_zero_header')
    if not zs:
        ctx.lost('GUARD-C05g', 'maybe_write_sentinel no longer calls write_zero_header')
        return
    for z in zs:
        ctx.evaluations += 1
        g = lib.find_guard(fn, z.bb, '<', lambda s_: s_.has_field('EmbeddedWal', 'pending_bytes'), lambda s_: s_.has_field('EmbeddedWal', 'region_size'))
        if g is not None:
            ctx.ok('GUARD-C05g', fn, 'sentinel written only where pending_bytes < region_size (test at line %s)' % g.line, line=z.line)
        else:
            ctx.bad('GUARD-C05g', fn, 'the zero sentinel can be written while pending_bytes == region_size: the ring is full, the write head sits on the oldest pending record\'s header, '
                    'and the sentinel erases it (the scan then stops at offset 0 and every pending record is lost)', line=z.line, sink='write_zero_header', detail='sentinel-on-full-ring')


def _open_sequence(ctx, F, R='FLOW-C05h'):
    ctx.rule(R, 'open_internal seeds EmbeddedWal.sequence from Header.wal_sequence (directly or as the fallback of the scan)')
    fn = ctx.need(R, 'EmbeddedWal::open_internal')
    if fn is None:
        return
    mine = {f.path: f for f in wal_fns(F)}
    reach = {p: f for p, f in lib.reachable_fns(F, [fn]).items() if p in mine or p == fn.path}
    sources = []      # (fn, slice, line, what)
    ckpt_from_header = False
    for f in reach.values():
        ctx.touch(f, len(f.blocks))
        for body in [f] + F.closures_of(f):
            for bb, i, st in body.stmts():
                rv = st['rv']
                if rv['k'] == 'agg' and rv.get('ak') == 'adt' and rv.get('adt') == WAL and 'sequence' in (rv.get('fields') or []):
                    sources.append((body, lib.slice_back(body, [rv['ops'][rv['fields'].index('sequence')]], through_calls=True, at=(bb, i)), st.get('l'), 'initialiser'))
                    if 'checkpoint_sequence' in rv['fields'] and lib.slice_back(body, [rv['ops'][rv['fields'].index('checkpoint_sequence')]], through_calls=True, at=(bb, i)).has_field('Header', 'wal_sequence'):
                        ckpt_from_header = True
            for stx in lib.field_stores(body, WAL, 'sequence'):
                if stx['lhs'].field_owners()[-1] != (WAL, 'sequence'):
                    continue
                sources.append((body, lib.slice_back(body, lib.rv_operands(stx['rv']), through_calls=True, at=(stx['bb'], stx['idx'])), stx['line'], 'store'))
    if not sources:
        ctx.lost(R, 'open_internal: no construction of EmbeddedWal.sequence found')
        return
    seeded = False
    bad = []
    for body, sl, line, what in sources:
        ctx.evaluations += 1
        hdr = sl.has_field('Header', 'wal_sequence') or (ckpt_from_header and sl.has_field(WAL, 'checkpoint_sequence'))
        seeded = seeded or hdr
        if not (hdr or sl.has_field(WAL, 'sequence') or sl.has_field(WAL, 'checkpoint_sequence')):
            bad.append((body, line, what))
    if bad or not seeded:
        body, line, what = bad[0] if bad else (sources[0][0], sources[0][2], sources[0][3])
        ctx.bad(R, body, 'the %s of EmbeddedWal.sequence on the open path does not derive from Header.wal_sequence: when the region scans empty after a checkpoint the counter restarts '
                'below the checkpoint sequence, the next acknowledged record is numbered <= checkpoint_sequence and every later scan filters it out (lost record)' % what,
                line=line, sink='EmbeddedWal.sequence', detail='open-sequence-not-from-header')
    else:
        ctx.ok(R, fn, 'all %d value(s) placed in EmbeddedWal.sequence on the open path derive from Header.wal_sequence or the handle\'s own counters' % len(sources))


def _deep_fields(F, fn, ops, at, depth=2):
    """fields read anywhere the value passes: the slice itself, closures on it, and the bodies of local callees it goes through"""
    sl = lib.slice_back(fn, ops, through_calls=True, at=at)
    fields = set(sl.fields)
    calls = list(sl.calls)
    bodies = [F.fns[c] for c in sl.closures if c in F.fns]
    if depth > 0:
        for c in sl.calls:
            h = F.fns.get(c.local_callee) if c.local_callee else None
            if h is not None and not c.is_('EmbeddedWal::scan_records'):
                bodies.append(h)
                bodies += F.closures_of(h)
    for b in bodies:
        for bb, i, st in b.stmts():
            for o in lib.rv_operands(st['rv']):
                q = op_place(o)
                if q is not None:
                    fields |= set(q.field_owners())
        calls += list(b.calls())
    return fields, calls


def _open_pending(ctx, F, R='FLOW-C05i'):
    ctx.rule(R, 'open_internal: pending_bytes = sum of total_size over scanned records with sequence > checkpoint')
    fn = ctx.need(R, 'EmbeddedWal::open_internal')
    if fn is None:
        return
    ctx.touch(fn, len(fn.blocks))
    srcs = []
    for bb, i, st in fn.stmts():
        rv = st['rv']
        if rv['k'] == 'agg' and rv.get('ak') == 'adt' and rv.get('adt') == WAL and 'pending_bytes' in (rv.get('fields') or []):
            srcs.append(([rv['ops'][rv['fields'].index('pending_bytes')]], (bb, i), st.get('l')))
    mine = {f.path for f in wal_fns(F)}
    for f in lib.reachable_fns(F, [fn]).values():
        if f.path in mine or f.path == fn.path:
            for stx in lib.field_stores(f, WAL, 'pending_bytes'):
                if stx['lhs'].field_owners()[-1] == (WAL, 'pending_bytes') and f.path == fn.path:
                    srcs.append((lib.rv_operands(stx['rv']), (stx['bb'], stx['idx']), stx['line']))
    if not srcs:
        ctx.lost(R, 'open_internal: no initialiser of EmbeddedWal.pending_bytes found')
        return
    for ops, at, line in srcs:
        ctx.evaluations += 1
        fields, calls = _deep_fields(F, fn, ops, at)
        scanned = any(c.is_('EmbeddedWal::scan_records') for c in calls)
        if scanned and ('ScannedRecord', 'total_size') in fields and ('ScannedRecord', 'sequence') in fields:
            ctx.ok(R, fn, 'pending_bytes on open derives from the scanned records (total_size selected by sequence)', line=line)
        else:
            ctx.bad(R, fn, 'pending_bytes on open is not the sum of the scanned records newer than the checkpoint (it derives from %s): after the ring wrapped with records pending the '
                    'count is too low, the append guards are off and the next append overwrites acknowledged records' % (', '.join(sorted('%s.%s' % x for x in fields if x[0])[:4]) or 'constants'),
                    line=line, sink='EmbeddedWal.pending_bytes', detail='open-pending-not-from-scan')


def _sentinel_not_on_live_origin(ctx, F):
    ctx.rule('GUARD-C05j', 'maybe_write_sentinel writes the sentinel only where write_head != 0 or pending_bytes == 0 (no sentinel over the first record while records are pending)')
    fn = ctx.need('GUARD-C05j', 'EmbeddedWal::maybe_write_sentinel')
    if fn is None:
        return
    zs = fn.calls_to('EmbeddedWal::write_zero_header')
    if not zs:
        ctx.lost('GUARD-C05j', 'maybe_write_sentinel no longer calls write_zero_header')
        return
    zero = lambda s_: 0 in s_.const_vals() and not s_.fields and not s_.args
    cut = set()
    for c in lib.comparisons(fn):
        for x, y, flip in ((c.sa(), c.sb(), False), (c.sb(), c.sa(), True)):
            if not zero(y):
                continue
            for tgt, rel in c.edges():
                r = lib.FLIP[rel] if flip else rel
                if x.has_field(WAL, 'write_head') and not x.has_field(WAL, 'pending_bytes') and r in ('!=', '>'):
                    cut.add((c.bb, tgt))
                if x.has_field(WAL, 'pending_bytes') and not x.has_field(WAL, 'write_head') and r in ('==', '<='):
                    cut.add((c.bb, tgt))
    for z in zs:
        ctx.evaluations += 1
        if cut and not lib.reachable_without_edges(fn, z.bb, cut):
            ctx.ok('GUARD-C05j', fn, 'sentinel written only where write_head != 0 or pending_bytes == 0', line=z.line)
        else:
            ctx.bad('GUARD-C05j', fn, 'the zero sentinel can be written at offset 0 while records are pending: when an acknowledged record ends exactly on the region boundary the head becomes 0, '
                    'the sentinel zeroes the header of the first record and every later scan (in this session and after reopen) reports an empty log', line=z.line,
                    sink='write_zero_header', detail='sentinel-on-origin-while-pending')


def run(ctx):
    _sentinel_slot(ctx, ctx.facts())
    _sentinel_not_on_live_origin(ctx, ctx.facts())
    _open_pending(ctx, ctx.facts())
    _open_sequence(ctx, ctx.facts())
    ctx.rule('GUARD-C05a', 'a ring position becomes 0 only where pending_bytes == 0 is established (edge, dominating store, or every caller)')
    ctx.rule('MPT-C05b', 'append_entry: write_record ok -> bookkeeping -> maybe_write_sentinel ok on every Ok path')
    ctx.rule('GUARD-C05c', 'append_entry: capacity comparisons dominate the write and reject with CheckpointFailed')
    ctx.rule('AGREE-C05d', 'record_checkpoint stores exactly the reviewed fields, derived from write_head/sequence')
    ctx.rule('GUARD-C05e', 'scan_records reports a record only after checksum equality and length bounds')
    ctx.rule('GUARD-C05f', 'records_after filters by sequence > parameter; pending_records passes checkpoint_sequence')
    F = ctx.facts()
    check_wrap(ctx, F)
    check_append(ctx, F)
    check_checkpoint(ctx, F)
    check_scan(ctx, F)
    check_records_after(ctx, F)
