"""C09 — lexical search finds every matching document (recall).

Decided:
  FLOW-C09a  a candidate set produced under a similarity threshold and a max_candidates truncation (the sketch
             pre-filter, find_sketch_candidates) must not become the hard candidate filter of the exact engines on
             the default path. (On the pinned tree it does: known finding.)
  MPT-C09b   the sketch stage is entered only on the edge where request.no_sketch is false (the documented escape
             hatch really disables it) and only when the query has text terms.
  MPT-C09c   recall safety nets of the Tantivy path: empty Tantivy results / empty evaluation fall through to
             search_with_lex_fallback with the same filter (the calls exist and are dominated by the emptiness tests).
  ERR-C09d   silent candidate loss: try_tantivy_search drops a candidate (`continue`) when resolve_chunk_context
             fails, so every error that function propagates is a way for a matching frame to vanish from the result.
             The propagated error sources (`?` on a local callee), per arm of its match on the frame's role, are the
             reviewed table below; in particular the DocumentChunk arm tolerates a failing lookup of the *parent's*
             chunk manifest and falls back to the chunk's own text. A new propagated source is reported.
  COVER-C09e recall after reopen needs the persisted lexical index where the TOC says it is: the file offsets of every
             lexical manifest collection in the Toc type graph (anchors whose name contains `lex` or `tantivy`:
             IndexManifests.lex, IndexManifests.lex_segments, SegmentCatalog.lex_segments, SegmentCatalog.tantivy_segments)
             are moved by adjust_offsets_after_wal_growth. (Shares the anchor computation of COVER-C02d; decided here
             for the lexical collections only.)
Not decided: recall itself (what the engines return)."""
from . import lib
from .facts import op_place

ENGINES = ('memvid::search::tantivy::try_tantivy_search', 'memvid::search::fallback::search_with_lex_fallback',
           'memvid::search::fallback::search_with_filters_only')


# resolve_chunk_context: role arm -> local callees whose error is propagated with `?` (reviewed on the pinned tree)
RESOLVE_ERR_SOURCES = {
    'Document': {'Memvid::document_chunk_payloads', 'Memvid::frame_canonical_bytes'},
    'DocumentChunk': {'Memvid::frame_canonical_bytes'},
    'ExtractedImage': {'Memvid::frame_canonical_bytes'},
    '*': {'Memvid::frame_canonical_bytes'},
}


def candidate_loss(ctx, F):
    ctx.rule('ERR-C09d', 'errors that make try_tantivy_search drop a candidate: per-role propagated error sources of resolve_chunk_context are the reviewed set')
    eng = ctx.need('ERR-C09d', 'memvid::search::tantivy::try_tantivy_search')
    fn = ctx.need('ERR-C09d', 'Memvid::resolve_chunk_context')
    if eng is None or fn is None:
        return
    ctx.touch(fn, len(fn.blocks))
    rc = eng.calls_to('Memvid::resolve_chunk_context')
    if not rc:
        ctx.lost('ERR-C09d', 'try_tantivy_search no longer calls resolve_chunk_context')
        return
    # is the failure still swallowed (not returned)? if it is returned with `?` the search fails loudly: out of this rule
    d = lib.defs(fn)
    roles = [v for v in lib.variant_switches(fn) if v.get('enum') == 'FrameRole']
    if len(roles) != 1:
        ctx.lost('ERR-C09d', 'resolve_chunk_context: expected one match on the frame role, found %d' % len(roles))
        return
    role = roles[0]
    n = 0
    for c in fn.calls():
        if c.name != 'branch' or 'QuestionMark' not in str(c.t.get('mac')):
            continue
        p = op_place(c.args[0])
        srcs = [x['call'] for x in d.get(p.l, []) if x['kind'] == 'call'] if p is not None else []
        for sc in srcs:
            if not sc.local_callee:
                continue
            n += 1
            arm = '*'
            for var, tb in role['arms'].items():
                if lib.edge_dominates(fn, role['bb'], tb, c.bb):
                    arm = var
            ctx.evaluations += 1
            if sc.key in RESOLVE_ERR_SOURCES.get(arm, set()):
                ctx.ok('ERR-C09d', fn, 'reviewed error source on the %s arm: %s' % (arm, sc.key.split('::')[-1]), line=sc.line)
            else:
                ctx.bad('ERR-C09d', fn, 'new propagated error source on the %s arm: a failure of %s now makes try_tantivy_search silently drop the matching frame '
                        '(the reviewed code tolerates it and falls back to the frame\'s own text)' % (arm, sc.key), line=sc.line, sink=sc.key, detail='candidate-dropped-on-error:%s:%s' % (arm, sc.key))
    ctx.floor('ERR-C09d', n, 3, 'propagated error sources in resolve_chunk_context')


def lex_offsets_moved(ctx, F):
    offsets_moved(ctx, F, 'COVER-C09e', lambda a: 'lex' in a[1] or 'tantivy' in a[1], 'lexical', 4,
                  'after the growth and a reopen the engine is loaded from delta bytes before its data (or not at all) and keyword queries lose documents', 'lex-offset-not-shifted')


def offsets_moved(ctx, F, rule, pred, what, floor, consequence, key):
    """the file offsets of every manifest collection selected by pred (anchors of the Toc type graph, see COVER-C02d) are moved by
    adjust_offsets_after_wal_growth"""
    from . import c02
    ctx.rule(rule, 'the offsets of every %s index manifest collection in the TOC are moved when the embedded WAL grows' % what)
    adj = ctx.need(rule, 'Memvid::adjust_offsets_after_wal_growth')
    if adj is None:
        return
    ctx.touch(adj, len(adj.blocks))
    c02.toc_offset_fields(F)
    c02.adjusted_fields(F, adj)
    sel = sorted({a for anchors in c02.toc_offset_fields.anchors.values() for a in anchors if pred(a)})
    ctx.floor(rule, len(sel), floor, '%s manifest collections holding file offsets in the Toc type graph' % what)
    for a in sel:
        ctx.evaluations += 1
        if a in c02.adjusted_fields.anchors:
            ctx.ok(rule, adj, '%s.%s offsets are moved by delta' % a)
        else:
            ctx.bad(rule, adj, 'the %s index descriptors held in %s.%s are not moved when the embedded WAL grows: %s' % (what, a[0], a[1], consequence), sink='%s.%s' % a, detail='%s:%s.%s' % (key, a[0], a[1]))


def run(ctx):
    candidate_loss(ctx, ctx.facts())
    lex_offsets_moved(ctx, ctx.facts())
    ctx.rule('FLOW-C09a', 'the lossy sketch candidate set does not become the engines\' hard candidate filter')
    ctx.rule('MPT-C09b', 'sketch stage only on the no_sketch == false edge')
    ctx.rule('MPT-C09c', 'Tantivy path falls back to the lex engine on empty results/evaluation')
    F = ctx.facts()
    fn = ctx.need('FLOW-C09a', 'Memvid::search')
    if fn is not None:
        ctx.touch(fn, len(fn.blocks))
        sk = fn.calls_to('Memvid::find_sketch_candidates')
        if not sk:
            ctx.ok('FLOW-C09a', fn, 'no sketch pre-filter on the search path')
        tainted, clean = [], []
        for c in fn.calls():
            if c.is_(ENGINES):
                ctx.evaluations += 1
                sl = lib.slice_back(fn, c.args[-1:], through_calls=True, at=(c.bb, None))
                (tainted if any(x in sl.calls for x in sk) else clean).append(c)
        if tainted:
            ctx.bad('FLOW-C09a', fn, 'the candidate filter given to %s derives from find_sketch_candidates (Hamming threshold + max_candidates truncation): '
                    'documents that contain the query word but miss the sketch cut are never evaluated on the default path' % ', '.join(
                        c.key.split('::')[-1] for c in tainted), line=tainted[0].line, sink='candidate_filter', detail='sketch-set-is-hard-filter')
        elif clean:
            ctx.ok('FLOW-C09a', fn, 'engine filters are independent of the sketch candidates', line=clean[0].line)
        else:
            ctx.lost('FLOW-C09a', 'no engine call found in Memvid::search')
        for s in sk:
            ctx.evaluations += 1
            cut_ok = False
            for bs in lib.bool_switches(fn):
                sl = lib.slice_back(fn, [bs['local']], through_calls=True, at=(bs['bb'], None))
                if sl.has_field('SearchRequest', 'no_sketch'):
                    neg = 'Not' in sl.ops
                    edge = (bs['bb'], bs['t_true'] if neg else bs['t_false'])   # edge on which no_sketch == false
                    if lib.edge_dominates(fn, edge[0], edge[1], s.bb):
                        cut_ok = True
            if cut_ok:
                ctx.ok('MPT-C09b', fn, 'find_sketch_candidates runs only when request.no_sketch is false', line=s.line)
            else:
                ctx.bad('MPT-C09b', fn, 'the sketch pre-filter is not disabled by request.no_sketch', line=s.line, detail='no-sketch-ignored')
    tv = ctx.need('MPT-C09c', ENGINES[0])
    if tv is not None:
        ctx.touch(tv, len(tv.blocks))
        fb = lib.op_calls(F, tv, (ENGINES[1],))       # direct calls, or calls of a thin private wrapper of the fallback engine
        ctx.floor('MPT-C09c', len(fb), 3, 'fallbacks from the Tantivy path to the lex engine')
        params = [i for i in range(1, tv.r['argc'] + 1) if 'HashSet<u64>' in tv.local_ty(i)]
        for c in fb:
            ctx.evaluations += 1
            sl = lib.slice_back(tv, c.args[-1:], through_calls=False, at=(c.bb, None))
            through = True
            if not c.is_(ENGINES[1]):
                # the wrapper must hand its own filter parameter on to the engine
                h = F.fns[c.local_callee]
                ctx.touch(h, len(h.blocks))
                hp = [i for i in range(1, h.r['argc'] + 1) if 'HashSet<u64>' in h.local_ty(i)]
                through = bool(hp) and all(hp[0] in lib.slice_back(h, x.args[-1:], through_calls=False, at=(x.bb, None)).args for x in h.calls_to(ENGINES[1]))
            if params and params[0] in sl.args and through:
                ctx.ok('MPT-C09c', tv, 'fallback to the lex engine keeps the candidate filter', line=c.line)
            else:
                ctx.bad('MPT-C09c', tv, 'fallback drops the candidate filter', line=c.line, detail='fallback-filter')
