"""C09 — lexical search finds every matching document (recall).

Decided:
  FLOW-C09a  a candidate set produced under a similarity threshold and a max_candidates truncation (the sketch
             pre-filter, find_sketch_candidates) must not become the hard candidate filter of the exact engines on
             the default path. (On the pinned tree it does: known finding.)
  MPT-C09b   the sketch stage is entered only on the edge where request.no_sketch is false (the documented escape
             hatch really disables it) and only when the query has text terms.
  MPT-C09c   recall safety nets of the Tantivy path: empty Tantivy results / empty evaluation fall through to
             search_with_lex_fallback with the same filter (the calls exist and are dominated by the emptiness tests).
Not decided: recall itself (what the engines return)."""
from . import lib
from .facts import op_place

ENGINES = ('memvid::search::tantivy::try_tantivy_search', 'memvid::search::fallback::search_with_lex_fallback',
           'memvid::search::fallback::search_with_filters_only')


def run(ctx):
    ctx.rule('FLOW-C09a', 'the lossy sketch candidate set does not become the engines\' hard candidate filter')
    ctx.rule('MPT-C09b', 'sketch stage only on the no_sketch == false edge')
    ctx.rule('MPT-C09c', 'Tantivy path falls back to the lex engine on empty results/evaluation')
    F = ctx.facts()
    fn = ctx.need('FLOW-C09a', 'Memvid::search')
    if fn is not None:
        ctx.touch(fn, len(fn.blocks))
        sk = fn.calls_to('Memvid::find_sketch_candidates')
        if not sk:
            ctx.ok('FLOW-C09a', fn, 'no sketch pre-filter on the search path')
        tainted, clean = [], []
        for c in fn.calls():
            if c.is_(ENGINES):
                ctx.evaluations += 1
                sl = lib.slice_back(fn, c.args[-1:], through_calls=True, at=(c.bb, None))
                (tainted if any(x in sl.calls for x in sk) else clean).append(c)
        if tainted:
            ctx.bad('FLOW-C09a', fn, 'the candidate filter given to %s derives from find_sketch_candidates (Hamming threshold + max_candidates truncation): '
                    'documents that contain the query word but miss the sketch cut are never evaluated on the default path' % ', '.join(
                        c.key.split('::')[-1] for c in tainted), line=tainted[0].line, sink='candidate_filter', detail='sketch-set-is-hard-filter')
        elif clean:
            ctx.ok('FLOW-C09a', fn, 'engine filters are independent of the sketch candidates', line=clean[0].line)
        else:
            ctx.lost('FLOW-C09a', 'no engine call found in Memvid::search')
        for s in sk:
            ctx.evaluations += 1
            cut_ok = False
            for bs in lib.bool_switches(fn):
                sl = lib.slice_back(fn, [bs['local']], through_calls=True, at=(bs['bb'], None))
                if sl.has_field('SearchRequest', 'no_sketch'):
                    neg = 'Not' in sl.ops
                    edge = (bs['bb'], bs['t_true'] if neg else bs['t_false'])   # edge on which no_sketch == false
                    if lib.edge_dominates(fn, edge[0], edge[1], s.bb):
                        cut_ok = True
            if cut_ok:
                ctx.ok('MPT-C09b', fn, 'find_sketch_candidates runs only when request.no_sketch is false', line=s.line)
            else:
                ctx.bad('MPT-C09b', fn, 'the sketch pre-filter is not disabled by request.no_sketch', line=s.line, detail='no-sketch-ignored')
    tv = ctx.need('MPT-C09c', ENGINES[0])
    if tv is not None:
        ctx.touch(tv, len(tv.blocks))
        fb = tv.calls_to(ENGINES[1])
        ctx.floor('MPT-C09c', len(fb), 3, 'fallbacks from the Tantivy path to the lex engine')
        params = [i for i in range(1, tv.r['argc'] + 1) if 'HashSet<u64>' in tv.local_ty(i)]
        for c in fb:
            ctx.evaluations += 1
            sl = lib.slice_back(tv, c.args[-1:], through_calls=False, at=(c.bb, None))
            if params and params[0] in sl.args:
                ctx.ok('MPT-C09c', tv, 'fallback to the lex engine keeps the candidate filter', line=c.line)
            else:
                ctx.bad('MPT-C09c', tv, 'fallback drops the candidate filter', line=c.line, detail='fallback-filter')
