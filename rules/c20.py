"""C20 — corruption is detected, never served silently (checksum use).

Decided:
  CHECK-C20a  the payload checksum stored in every frame (Frame.checksum, written by apply_records) is *compared* on the
              paths that serve the bytes it covers: read_frame_payload_bytes returns Ok only past the edge where
              blake3(buf) equals frame.checksum (or the legacy all-zero marker); verify(deep) reaches that comparison for
              every active frame; every function that reads payload bytes out of the file for a Frame goes through
              read_frame_payload_bytes (raw streaming readers are reported).
  MPT-C20b    read_toc returns Ok only through the footer decode, the toc_len equality and the true edge of
              hash_matches, then verify_toc_prefix and Toc::decode; open_locked evaluates toc.verify_checksum();
              load_memories_track / load_logic_mesh compare blake3(buf) with the manifest checksum before deserialising.
  COVER-C20c  a record checksum must cover every field its reader acts on. For the embedded WAL: scan_records decides
              replay from the record's `sequence` (records_after compares it with header.wal_sequence), so the digest
              written by write_record must depend on `sequence` as well as on the payload. If it covers the payload only, a
              flipped sequence byte of an already checkpointed record is undetectable and a writable open replays it.
  INFO        table of stored checksum fields that no code compares (index manifests) — reported in the evidence,
              not a verdict: index corruption changes search results, not stored content.
Not decided: detection of every single-byte corruption (values); index manifests' checksums."""
from . import lib
from .facts import Place, op_place, rv_places


def _checksum_cmp(fn, owner, field):
    """comparisons (rel ==/!=) between <owner>.<field> and a value derived from a hash call"""
    out = []
    for c in lib.comparisons(fn):
        if c.rel not in ('==', '!='):
            continue
        for x, y in ((c.sa(), c.sb()), (c.sb(), c.sa())):
            if x.has_field(owner, field) and any(cc.name in ('hash', 'finalize') or 'blake3' in (cc.callee or '') for cc in y.calls) and not y.has_field(owner, field):
                out.append(c)
    return out


def _verifying_callee(F, fn, owner, field, sink_bb):
    """a call in fn to a local helper that (i) compares one of its parameters with a hash-derived value, (ii) returns Ok only on
    the equal edge, (iii) receives <owner>.<field> for that parameter, and (iv) whose success dominates sink_bb. This is the
    `read + verify` block of a loader extracted into a function: the helper's success *is* the checksum-equal edge."""
    for c in fn.calls():
        h = F.fns.get(c.local_callee) if c.local_callee else None
        if h is None or not lib.call_success_dominates(fn, c, sink_bb):
            continue
        for cm in lib.comparisons(h):
            if cm.rel not in ('==', '!='):
                continue
            for x, y in ((cm.sa(), cm.sb()), (cm.sb(), cm.sa())):
                hashed = any(cc.name in ('hash', 'finalize') or 'blake3' in (cc.callee or '') for cc in y.calls)
                params = {a for a in x.args if 1 <= a <= len(c.args)}
                if not hashed or not params or any(cc.name in ('hash', 'finalize') for cc in x.calls):
                    continue
                eq_edges = [t for t, rel in cm.edges() if rel == '==']
                exits = [ex for ex in h.ok_exits() if ex['kind'] in ('ok', 'call')]
                if not exits or not all(any(lib.edge_dominates(h, cm.bb, t, ex['bb']) for t in eq_edges) for ex in exits):
                    continue
                for a in params:
                    if lib.slice_back(fn, [c.args[a - 1]], through_calls=True, at=(c.bb, None)).has_field(owner, field):
                        return c, h
    return None


def wal_record_cover(ctx, F):
    ctx.rule('COVER-C20c', 'the WAL record digest depends on every header field scan_records acts on (sequence, length)')
    wr = ctx.need('COVER-C20c', 'EmbeddedWal::write_record')
    rd = ctx.need('COVER-C20c', 'EmbeddedWal::scan_records')
    if wr is None or rd is None:
        return
    ctx.touch(wr, len(wr.blocks))
    ctx.touch(rd, len(rd.blocks))
    hs = [c for c in wr.calls() if c.is_(('blake3::hash', 'Hasher::update', 'blake3::Hasher::update')) or (c.name in ('hash', 'update') and 'blake3' in (c.callee or ''))]
    if not hs:
        ctx.lost('COVER-C20c', 'write_record: digest computation not found')
        return
    args = {l.get('n'): i for i, l in enumerate(wr.r['locals'][:wr.r['argc'] + 1]) if l.get('n')}
    if 'sequence' not in args or 'payload' not in args:
        ctx.lost('COVER-C20c', 'write_record: parameters sequence/payload not found (%s)' % sorted(args))
        return
    seq_arg, pay_arg = args['sequence'], args['payload']
    covered = set()
    for h in hs:
        sl = lib.slice_back(wr, h.args[-1:], through_calls=True, at=(h.bb, None))
        covered |= set(sl.args)
    ctx.evaluations += len(hs)
    # the reader really acts on the sequence (it is returned in the records the replay filter compares)
    acts = any(c.name in ('from_le_bytes',) for c in rd.calls())
    if pay_arg not in covered:
        ctx.lost('COVER-C20c', 'write_record: the digest does not depend on the payload argument (arguments covered: %s)' % sorted(covered))
    elif seq_arg in covered:
        ctx.ok('COVER-C20c', wr, 'the record digest covers the sequence and the payload', line=hs[0].line)
    else:
        ctx.bad('COVER-C20c', wr, 'the WAL record digest covers the payload only: the `sequence` field that decides whether a record is replayed is unprotected, so a flipped '
                'sequence byte of a checkpointed record makes a writable open replay it (duplicate frames) without any error', line=hs[0].line, sink='blake3::hash', detail='wal-sequence-not-in-digest')


def run(ctx):
    wal_record_cover(ctx, ctx.facts())
    ctx.rule('CHECK-C20a', 'Frame.checksum is compared with blake3(payload) on the serving path and by verify(deep); raw payload readers go through it')
    ctx.rule('MPT-C20b', 'read_toc/open/track loaders return Ok only past their checksum comparisons')
    F = ctx.facts()
    rf = ctx.need('CHECK-C20a', 'Memvid::read_frame_payload_bytes')
    if rf is not None:
        ctx.touch(rf, len(rf.blocks))
        cmps = _checksum_cmp(rf, 'Frame', 'checksum')
        ctx.evaluations += len(lib.comparisons(rf))
        if not cmps:
            ctx.bad('CHECK-C20a', rf, 'payload bytes are returned without comparing their hash with Frame.checksum: a corrupted payload is served silently '
                    '(the checksum is written by apply_records and never read on the serving path)', sink='Frame.checksum', detail='payload-checksum-not-compared')
        else:
            c = cmps[0]
            eq_edges = {(c.bb, t) for t, rel in c.edges() if rel == '=='}
            zero_edges = set()
            for z in lib.comparisons(rf):
                if z is c:
                    continue
                for x, y in ((z.sa(), z.sb()), (z.sb(), z.sa())):
                    if x.has_field('Frame', 'checksum') and not y.calls and not y.args and not y.fields:
                        for t, rel in z.edges():
                            if rel == '==':
                                zero_edges.add((z.bb, t))
            bad = False
            for ex in rf.ok_exits():
                if ex['kind'] == 'err':
                    continue
                if lib.reachable_without_edges(rf, ex['bb'], eq_edges | zero_edges):
                    bad = True
            if bad:
                ctx.bad('CHECK-C20a', rf, 'Ok is reachable without the checksum-equal edge', line=c.line, detail='payload-checksum-bypass')
            else:
                ctx.ok('CHECK-C20a', rf, 'Ok only past blake3(buf) == frame.checksum (or the legacy all-zero marker)', line=c.line)
    # verify(deep)
    vf = ctx.need('CHECK-C20a', 'Memvid::verify')
    if vf is not None and rf is not None:
        reach = lib.reachable_fns(F, [vf])
        ctx.evaluations += len(reach)
        direct = any(_checksum_cmp(g, 'Frame', 'checksum') for g in reach.values())
        calls_rf = [c for b in [vf] + F.closures_of(vf) for c in b.calls() if c.local_callee == rf.path or c.is_(('Memvid::frame_canonical_bytes', 'Memvid::frame_canonical_payload'))]
        if direct and calls_rf:
            # under `deep`
            deep_ok = False
            for bs in lib.bool_switches(vf):
                sl = lib.slice_back(vf, [bs['local']], through_calls=False, at=(bs['bb'], None))
                if 2 in sl.args and any(lib.edge_dominates(vf, bs['bb'], bs['t_true'], c.bb) for c in calls_rf if c.fn is vf):
                    deep_ok = True
            if deep_ok or any(c.fn is not vf for c in calls_rf):
                ctx.ok('CHECK-C20a', vf, 'verify(deep) reads every active payload through the checksum comparison', line=calls_rf[0].line)
            else:
                ctx.bad('CHECK-C20a', vf, 'verify reads payloads but not under `deep`', detail='verify-deep-scope')
        else:
            ctx.bad('CHECK-C20a', vf, 'verify(deep) never compares a frame payload with Frame.checksum: it reports Passed for a file whose payload bytes were altered',
                    sink='Frame.checksum', detail='verify-does-not-check-payloads')
    # raw readers: functions that hand out payload bytes located by Frame.payload_offset without read_frame_payload_bytes
    n_raw = 0
    for f in F.fns.values():
        if f.is_closure or f.r.get('derive') or f is rf:
            continue
        if not f.r.get('impl_self', '').endswith('::Memvid'):
            continue
        for c in f.calls():
            if c.name in ('seek',) and c.args:
                sl = lib.slice_back(f, c.args[1:2], through_calls=True, at=(c.bb, None))
                if sl.has_field('Frame', 'payload_offset'):
                    n_raw += 1
                    ctx.evaluations += 1
                    writes = any(x.is_(('Write::write_all', '<File as Write>::write_all')) for x in f.calls())
                    if writes:
                        continue   # relocating writers (vacuum / apply_records) are not readers
                    ctx.bad('CHECK-C20a', f, 'payload bytes are read straight from frame.payload_offset without the checksum comparison of read_frame_payload_bytes '
                            '(streaming reader)', line=c.line, sink='Frame.checksum', detail='raw-payload-reader')
    # ---- b
    rt = ctx.need('MPT-C20b', 'memvid::lifecycle::read_toc')
    if rt is not None:
        ctx.touch(rt, len(rt.blocks))
        hm = rt.calls_to('CommitFooter::hash_matches')
        dec = rt.calls_to('CommitFooter::decode')
        pre = rt.calls_to('verify_toc_prefix')
        td = rt.calls_to('Toc::decode')
        ok_exits = [ex for ex in rt.ok_exits()]
        problems = []
        if not (hm and dec and pre and td):
            problems.append('missing one of CommitFooter::decode/hash_matches/verify_toc_prefix/Toc::decode')
        else:
            cut = set()
            for bs in lib.bool_switches(rt):
                sl = lib.slice_back(rt, [bs['local']], through_calls=False, at=(bs['bb'], None))
                if hm[0] in sl.calls:
                    neg = 'Not' in sl.ops
                    cut.add((bs['bb'], bs['t_false'] if neg else bs['t_true']))
            for ex in ok_exits:
                if lib.reachable_without_edges(rt, ex['bb'], cut):
                    problems.append('Ok reachable without the hash_matches true edge')
                if not lib.call_success_dominates(rt, pre[0], ex['bb']):
                    problems.append('Ok not dominated by verify_toc_prefix')
                if not (ex.get('call') is td[0] or lib.call_success_dominates(rt, td[0], ex['bb'])):
                    problems.append('Ok not dominated by Toc::decode')
                g = lib.find_guard(rt, ex['bb'], '==', lambda s: s.has_field('CommitFooter', 'toc_len'), lambda s: any(c.name == 'len' for c in s.calls) or 'PtrMetadata' in s.ops)
                if g is None:
                    problems.append('Ok not dominated by the toc_len equality')
        ctx.evaluations += 5
        if problems:
            ctx.bad('MPT-C20b', rt, 'read_toc: ' + '; '.join(sorted(set(problems))), detail='read-toc:' + '|'.join(sorted(set(problems))))
        else:
            ctx.ok('MPT-C20b', rt, 'Ok only through footer decode, toc_len equality, hash_matches, verify_toc_prefix, Toc::decode')
    ol = F.fn('Memvid::open_locked')
    if ol is not None:
        vcs = ol.calls_to('Toc::verify_checksum')
        if vcs:
            ctx.ok('MPT-C20b', ol, 'open_locked evaluates toc.verify_checksum()')
        else:
            ctx.bad('MPT-C20b', ol, 'open_locked no longer verifies the TOC checksum', detail='open-no-verify-checksum')
        # a TOC whose first verification failed (recovered / repaired TOC) is served only after a later verification
        # succeeded: from the `first result is Err` edge every Ok exit lies behind the success edge of a verify_checksum call
        ctx.touch(ol, len(ol.blocks))
        first = [v for v in vcs if not any(x.name == 'branch' and op_place(x.args[0]) is not None and op_place(x.args[0]).l == v.dest.l for x in ol.calls())]
        err_edges = []
        for bs in lib.bool_switches(ol):
            sl = lib.slice_back(ol, [{'c': {'l': bs['local'], 'p': []}}], through_calls=False, at=(bs['bb'], None))
            for e in sl.calls:
                if e.name in ('is_err', 'is_ok') and e.args:
                    s2 = lib.slice_back(ol, e.args[:1], through_calls=False, at=(e.bb, None))
                    if any(v in s2.calls for v in vcs):
                        neg = ('Not' in sl.ops) != (e.name == 'is_ok')
                        err_edges.append((bs['bb'], bs['t_false'] if neg else bs['t_true']))
        for vs in lib.variant_switches(ol):
            if vs.get('enum') == 'Result' and 'Err' in vs['arms'] and any(v.dest.l in (lib.root_of(ol, vs['place'].l) | {vs['place'].l}) for v in vcs):
                err_edges.append((vs['bb'], vs['arms']['Err']))
        ctx.evaluations += len(err_edges) + 1
        if vcs and not err_edges:
            ctx.lost('MPT-C20b', 'open_locked: the test of the first verify_checksum result (is_err) was not found')
        exits = {ex['bb'] for ex in ol.ok_exits() if ex['kind'] in ('ok', 'call')}
        for b, t in err_edges:
            later = [v for v in vcs if v.bb in ol.reachable(t)]
            blocked = set()
            ok_after = set()
            for v in later:
                sbv, _ = ol.success_block(v)
                blocked.add(v.bb)
            # reachable from the Err edge without passing a later verify call
            seen = ol.reachable(t, avoid=blocked)
            if seen & exits:
                ctx.bad('MPT-C20b', ol, 'after the first TOC checksum verification failed, open_locked can return Ok without a second, successful verify_checksum: a TOC recovered through a path that '
                        'checks no hash is served as is', line=ol.blocks[b]['t'].get('l'), sink='Toc::verify_checksum', detail='recovered-toc-not-reverified')
            else:
                ctx.ok('MPT-C20b', ol, 'a TOC whose first verification failed is served only after a later verify_checksum succeeded', line=ol.blocks[b]['t'].get('l'))
    for key, owner in (('Memvid::load_memories_track', 'MemoriesTrackManifest'), ('Memvid::load_logic_mesh', 'LogicMeshManifest')):
        fn = ctx.need('MPT-C20b', key)
        if fn is None:
            continue
        ctx.touch(fn, len(fn.blocks))
        cm = _checksum_cmp(fn, owner, 'checksum')
        des = [c for c in fn.calls() if c.name == 'deserialize']
        ctx.evaluations += 1
        exits = {ex['bb'] for ex in fn.ok_exits()}
        if cm and any(fn.reachable(t) & exits for t, rel in cm[0].edges() if rel == '!='):
            ctx.bad('MPT-C20b', fn, 'a checksum mismatch of the persisted track is tolerated: the mismatch edge reaches an Ok exit, so a corrupted track is silently served as an empty one '
                    '(open succeeds, the committed cards are gone, verify passes)', line=cm[0].line, sink='Ok', detail='track-checksum-mismatch-tolerated')
        elif cm and des and any(lib.edge_dominates(fn, cm[0].bb, t, des[0].bb) for t, rel in cm[0].edges() if rel == '=='):
            ctx.ok('MPT-C20b', fn, 'deserialises only past blake3(buf) == manifest.checksum; the mismatch edge cannot reach Ok', line=cm[0].line)
        elif des and _verifying_callee(F, fn, owner, 'checksum', des[0].bb):
            vc, h = _verifying_callee(F, fn, owner, 'checksum', des[0].bb)
            ctx.touch(h, len(h.blocks))
            if any(ex in fn.reachable(vc.bb) and not lib.call_success_dominates(fn, vc, ex) for ex in exits):
                ctx.bad('MPT-C20b', fn, 'a failure of %s (checksum mismatch) is tolerated: an Ok exit is reachable past the call without its success' % h.name, line=vc.line, sink='Ok', detail='track-checksum-mismatch-tolerated')
                continue
            ctx.ok('MPT-C20b', fn, 'deserialises only after %s succeeded, which returns Ok only on the edge blake3(buf) == the manifest checksum passed to it' % h.name, line=vc.line)
        else:
            ctx.bad('MPT-C20b', fn, 'track bytes are deserialised without the checksum-equal edge', detail='track-checksum')
    # ---- info table
    never = []
    compared = set()
    for fn in F.fns.values():
        if fn.r.get('derive'):
            continue
        for c in lib.comparisons(fn):
            if c.rel in ('==', '!='):
                for o, f in (c.sa().fields | c.sb().fields):
                    if f and 'checksum' in f:
                        compared.add((o, f))
    for a in F.adts.values():
        if a['name'].endswith('Manifest') or a['name'] in ('SegmentCommon', 'EmbeddedLexSegment'):
            for v in a['variants']:
                for f in v['fields']:
                    if 'checksum' in f['name'] and (a['name'], f['name']) not in compared:
                        never.append('%s.%s' % (a['name'], f['name']))
    ctx.extra['stored_checksums_never_compared'] = sorted(never)
