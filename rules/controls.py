"""Positive controls: every rule family must fire on the deliberately broken fixture crate."""
def run_all():
    return 0
