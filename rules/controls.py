"""Positive controls: the engine primitives the property rules are built from must report every `bad_*` function of
fixtures/positive and stay silent on its `good_*` twin. Run by `./check --setup` and by every thorough run; a
failure means the engine (extractor, CFG, slices, typestate, ...) is broken, so no verdict of that run is believed.

The controls exercise engines, not the memvid-specific tables: the property modules name memvid functions, the
fixture crate cannot stand in for those. What is validated here is that a rule *can* fire (expected-zero rules
otherwise pass vacuously) and does not fire on the conforming twin."""
import os, sys
from . import extract, lib, effects, monotone, hirtree
from .facts import Facts, op_place

FIX = os.path.join(extract.VERIF, 'fixtures', 'positive')


def _facts():
    out = os.path.join(extract.BUILD, 'facts', 'positive.jsonl')
    os.makedirs(os.path.dirname(out), exist_ok=True)
    src = os.path.join(FIX, 'src', 'lib.rs')
    drv = max(os.path.getmtime(p) for p in [src] + [os.path.join(extract.DRIVER_DIR, 'src', f) for f in os.listdir(os.path.join(extract.DRIVER_DIR, 'src'))])
    if not os.path.exists(out) or os.path.getmtime(out) < drv:
        for stale in (out, out + '.pkl'):
            if os.path.exists(stale):
                os.remove(stale)
        with extract.Lock('fixture-lock'):
            extract.extract_crate(FIX, 'positive', out)
    return Facts(out)


# ---------------------------------------------------------------- the controls: name -> predicate "is reported"
def c_mpt(F, fn):
    """an Ok exit not dominated by the success edge of append"""
    apps = fn.calls_to('Store::append')
    return any(not (ex.get('call') in apps) and not any(lib.call_success_dominates(fn, a, ex['bb']) for a in apps) for ex in fn.ok_exits())


def c_sync(F, fn):
    ts = effects.SyncTypestate(F)
    ts.solve([fn])
    return bool(ts.summ[fn.path][0])


def c_flow(F, fn):
    """the value returned by append (a sequence) reaches make_hit's id argument"""
    app = fn.calls_to('Store::append')
    for c in fn.calls_to('Store::make_hit'):
        sl = lib.slice_back(fn, c.args[1:2], through_calls=True, at=(c.bb, None))
        if any(a in sl.calls for a in app):
            return True
    return False


def c_alloc(F, fn):
    """an allocation sized by bytes read from the file without an upper-bound comparison on its path"""
    for c in fn.calls():
        if c.name in ('from_elem', 'with_capacity'):
            size = c.args[1] if c.name == 'from_elem' else c.args[0]

            def is_size(s, size=size, c=c):
                return bool(s.locals & lib.slice_back(fn, [size], through_calls=True, at=(c.bb, None)).locals)
            g = lib.find_guard(fn, c.bb, '<=', lambda s: any(x.name == 'from_le_bytes' for x in s.calls), lambda s: True)
            if g is None:
                return True
    return False


def c_capacity(F, fn):
    """the capacity comparison must involve the incoming payload (its len) together with the usage counter"""
    for cmp_ in lib.comparisons(fn):
        a, b = cmp_.sa(), cmp_.sb()
        if (a.has_field('Store', 'used') or b.has_field('Store', 'used')) and (a.has_field('Store', 'limit') or b.has_field('Store', 'limit')):
            side = a if a.has_field('Store', 'used') else b
            return not any(c.name == 'len' for c in side.calls)
    return True


def c_acl(F, fn):
    """a hit is constructed before (not dominated by) the successful ACL call"""
    acl = fn.calls_to('Store::acl')
    return any(not any(lib.call_success_dominates(fn, a, c.bb) for a in acl) for c in fn.calls_to('Store::make_hit'))


def c_shift(F, fn):
    r = monotone.move_direction(fn, effects.is_memory_handle)
    return len(r) == 1 and r[0]['ok'] is False


def c_shift_good(F, fn):
    r = monotone.move_direction(fn, effects.is_memory_handle)
    return not (len(r) == 1 and r[0]['ok'] is True)


def c_staged(F, fn):
    """inner_commit called outside a closure passed to with_staging"""
    staged = set()
    for f in F.fns.values():
        for c in f.calls_to('Store::with_staging'):
            staged |= lib.slice_back(f, c.args[1:2], through_calls=False, at=(c.bb, None)).closures
    bodies = [fn] + F.closures_of(fn)
    return any(c.is_('Store::inner_commit') and not (b.is_closure and b.path in staged) for b in bodies for c in b.calls())


def c_assert(F, fn):
    from .c22 import ASSERT_MACROS
    for c in fn.calls():
        if set(c.t.get('mac') or c.t.get('macros') or []) & set(ASSERT_MACROS):
            return True
        if any(m.split('::')[-1].rstrip('!') in ASSERT_MACROS for m in (c.t.get('mac') or c.t.get('macros') or [])):
            return True
    return False


def c_sorted(F, fn):
    """partition_point on a vector pushed to after its last sort"""
    st = None
    order = sorted(fn.calls(), key=lambda c: c.bb)
    for c in order:
        if c.name.startswith('sort'):
            st = 'sorted'
        elif c.name == 'push':
            st = 'unsorted'
        elif c.name == 'partition_point':
            return st != 'sorted'
    return True


def c_create(F, fn):
    from .c19 import SIDECAR_MAKERS
    for c in fn.calls():
        if c.is_(('File::create', 'OpenOptions::open')):
            sl = lib.slice_back(fn, [c.args[-1]], through_calls=True, at=(c.bb, None))
            if any(x.name in SIDECAR_MAKERS for x in sl.calls):
                return True
    return False


def c_variant(F, fn):
    """an arm of the match on self's variant never reads the variant's payload"""
    for vs in lib.variant_switches(fn):
        for var, tb in vs['arms'].items():
            used = False
            for b in fn.reachable(tb) - {x for v2, t2 in vs['arms'].items() if v2 != var for x in ()}:
                for s in fn.blocks[b]['s']:
                    for o in lib.rv_operands(s['rv']):
                        p = op_place(o)
                        if p is not None and var in p.downcasts():
                            used = True
            # restrict to blocks only this arm reaches first: approximate by the arm's own block chain
            own = fn.reachable(tb) - set().union(*[fn.reachable(t2) for v2, t2 in vs['arms'].items() if v2 != var] or [set()])
            used_own = any(var in (op_place(o).downcasts() if op_place(o) is not None else ()) for b in own | {tb} for s in fn.blocks[b]['s'] for o in lib.rv_operands(s['rv']))
            if not used_own:
                return True
    return False


def c_sibling(F, fn):
    ref = F.fn('sib_current')
    return not hirtree.same(hirtree.norm(ref.r['hir']), hirtree.norm(fn.r['hir']))


def c_rec(F, fn):
    """self-recursion whose call site is not dominated by an edge of a comparison of the depth argument with a constant"""
    for c in fn.calls():
        if c.local_callee == fn.path:
            for g, rel in lib.guards_holding_at(fn, c.bb):
                a, b = g.sa(), g.sb()
                if (2 in a.args and b.const_vals()) or (2 in b.args and a.const_vals()):
                    return False
            return True
    return False


def c_stamp(F, fn):
    """the clock reaches written bytes other than as the default of the caller's Option"""
    from .c23 import NONDET
    for c in fn.calls():
        if c.name == 'write_all':
            sl = lib.slice_back(fn, c.args[1:2], through_calls=True, at=(c.bb, None))
            if any(x.is_(NONDET) for x in sl.calls):
                return True
    return False


def c_matches(F, fn):
    """the write is not on an edge where rec.status == Active holds (== / match / matches!)"""
    for c in fn.calls():
        if c.name == 'write_all':
            return not lib.holds_variant_at(fn, c.bb, 'Rec', 'status', 'Status', 'Active')
    return True


def c_wrapper(F, fn):
    """an Ok exit not dominated by an append, where a thin wrapper of append counts as the append"""
    apps = lib.op_calls(F, fn, ('Store::append',))
    return not apps or any(not (ex.get('call') in apps) and not any(lib.call_success_dominates(fn, a, ex['bb']) for a in apps) for ex in fn.ok_exits())


def c_loop_exit(F, fn):
    """the loop can be left other than through the exhausted arm of its iterator"""
    loops = monotone.natural_loops(fn)
    for nx in [c for c in fn.calls() if c.name == 'next']:
        body = min([b for h, b in loops.items() if nx.bb in b] or [set()], key=len)
        allowed = set()
        for vs in lib.variant_switches(fn):
            if vs.get('enum') == 'Option' and vs['bb'] in body and 'None' in vs['arms']:
                allowed.add((vs['bb'], vs['arms']['None']))
        if any(x not in body and (b, x) not in allowed and fn.blocks[x]['t']['k'] != 'unreachable' for b in body for x in fn.succs(b)):
            return True
    return False


CONTROLS = [
    ('MPT  ok-exit dominance', 'Store::bad_ack', 'Store::good_ack', c_mpt),
    ('FLOW sequence-to-frame-id', 'Store::bad_flow', 'Store::good_flow', c_flow),
    ('GUARD acl-before-hit', 'Store::bad_acl', 'Store::good_acl', c_acl),
    ('MONO memmove direction', 'Store::bad_shift', None, c_shift),
    ('MONO memmove direction (twin)', None, 'Store::good_shift', c_shift_good),
    ('WMC  closure provenance', 'Store::bad_staged', 'Store::good_staged', c_staged),
    ('PROV sidecar path', 'bad_create', 'good_create', c_create),
    ('AGREE sibling HIR trees', 'sib_different', 'sib_same', c_sibling),
    ('FLOW clock-to-bytes', 'bad_stamp', 'good_stamp', c_stamp),
    ('SYNC typestate (unsynced Ok)', 'Store::bad_sync', 'Store::good_sync', c_sync),
    ('ALLOC file-derived size unbounded', 'Store::bad_alloc', 'Store::good_alloc', c_alloc),
    ('PANIC assertion macro provenance', 'Store::bad_probe', 'Store::good_probe', c_assert),
    ('TYPESTATE sorted at binary search', 'Store::bad_sorted', 'Store::good_sorted', c_sorted),
    ('AGREE variant payload ignored', 'Index::bad_ids', 'Index::good_ids', c_variant),
    ('REC  unbounded recursion', 'bad_rec', 'good_rec', c_rec),
    ('GUARD variant test via matches!', 'Store::bad_matches', 'Store::good_matches', c_matches),
    ('WMC  thin wrapper is the operation', None, 'Store::good_wrapped_ack', c_wrapper),
    ('LOOP exit only on exhaustion', 'bad_insert_some', 'good_insert_all', c_loop_exit),
    ('COUPLE capacity uses incoming len', 'Store::bad_capacity', 'Store::good_capacity', c_capacity),
]


def run_all(verbose=True):
    F = _facts()
    bad = 0
    n = 0
    for name, b, g, pred in CONTROLS:
        for key, want in ((b, True), (g, False)):
            if key is None:
                continue
            n += 1
            try:
                fn = F.fn(key)
                got = bool(pred(F, fn))
            except Exception as e:            # an engine crash is a failed control
                got = 'error: %r' % (e,)
            okay = got is want
            if not okay:
                bad += 1
            if verbose or not okay:
                print('CONTROL %-36s %-22s expected %-8s got %-8s %s' % (name, key, 'report' if want else 'silent', {True: 'report', False: 'silent'}.get(got, got), 'ok' if okay else 'FAILED'))
    print('CONTROLS %d/%d ok' % (n - bad, n))
    return bad


if __name__ == '__main__':
    sys.exit(1 if run_all() else 0)
