"""C12 — ACL enforcement never leaks a denied frame.

Decided (all CFG paths):
  WMC-C12a  retrieval entry points are discovered by signature (public Memvid methods that take an
            AclEnforcementMode / AclContext or a request struct containing them); floor 4.
  MPT-C12b  in each entry point every Ok exit whose value can carry hits is dominated by a *clean event* on the
            returned object: success of apply_acl_to_search_hits (or of another ACL entry point) called with the
            entry point's own acl context and mode (never a constant mode). Every producer of derived output
            (build_context, build_citations, synthesize_answer, AskContextFragment/AskCitation construction, response
            aggregates, stores to total_hits/context) that can see hits is dominated by the clean event, or is
            re-executed on the Enforce edge after it; and no hit is added to the cleaned list afterwards.
  MPT-C12c  apply_acl_to_search_hits: the Enforce arm passes validate_enforce_acl_context (?), `*hits = filtered`
            is dominated by the mode==Enforce edge, a hit is kept only via the decision.allowed edge or the
            mode==Audit edge, the decision comes from evaluate_acl_metadata / deny on lookup failure.
  GUARD-C12d evaluate_acl_metadata: every allow() other than the no-context one is dominated by parse success and
            by the tenant-equality edge, and either by the visibility==Public edge or is unreachable once the
            principal/role/group true-edges are cut; parse failure reaches only deny; allowed=true is constructed
            only in AclDecision::allow; validate_enforce_acl_context returns Ok only through both presence tests.
Not decided: the value-level matching of principals/roles/groups (set semantics), normalisation of strings."""
from . import lib
from .facts import Place, op_place

ACL_APPLY = 'Memvid::apply_acl_to_search_hits'
EMPTY_PRODUCERS = ('empty_search_response', 'AdaptiveResult::empty', 'Vec::new', 'Vec::with_capacity')
PRODUCER_CALLS = ('build_context', 'build_citations', 'synthesize_answer')
PRODUCER_AGGS = ('AskContextFragment', 'AskCitation')
RESPONSE_AGGS = ('SearchResponse', 'AskResponse', 'AdaptiveResult')
DERIVED_FIELDS = ('context', 'total_hits')     # SearchResponse fields computed from the hit list
REVIEWED_SEARCHRESPONSE_FIELDS = {'query', 'elapsed_ms', 'total_hits', 'params', 'hits', 'context', 'next_cursor', 'engine', 'stale_index_skips'}
GROWTH = ('Vec::push', 'Vec::extend', 'Vec::append', 'Vec::insert', 'Vec::extend_from_slice', 'Vec::resize', 'Vec::splice',
          'Extend::extend', '<Vec as Extend>::extend')
HIT_TYPES = ('SearchHit', 'SearchResponse')


def discover_entries(F):
    out = {}
    for f in F.fns.values():
        if f.is_closure or not f.r.get('exported') or not f.r.get('impl_self', '').endswith('::Memvid'):
            continue
        mode = ctx_ = None
        req = None
        for i in range(1, f.r['argc'] + 1):
            ty = f.local_ty(i)
            if 'AclEnforcementMode' in ty:
                mode = ('arg', i)
            elif 'AclContext' in ty:
                ctx_ = ('arg', i)
            else:
                name = ty.split('::')[-1]
                adt = F.adts_by_name.get(name)
                if adt and len(adt) == 1 and not adt[0]['is_enum']:
                    fl = adt[0]['variants'][0]['fields']
                    mf = [x['name'] for x in fl if 'AclEnforcementMode' in x['ty']]
                    cf = [x['name'] for x in fl if 'AclContext' in x['ty']]
                    if mf and cf:
                        req = name
                        mode = ('field', name, mf[0])
                        ctx_ = ('field', name, cf[0])
        if mode and ctx_:
            out[f.key] = dict(fn=f, mode=mode, ctx=ctx_, req=req)
    return out


def _is_entry_src(sl, src):
    if src[0] == 'arg':
        return src[1] in sl.args
    return sl.has_field(src[1], src[2])


def _no_const_mode(sl):
    return not any(a.startswith('AclEnforcementMode::') for a in sl.aggs)


def clean_events(ctx, E, entries):
    """calls in entry E that filter a hit list with E's own ACL context and mode"""
    fn = E['fn']
    evs = []
    for c in fn.calls():
        if c.is_(ACL_APPLY):
            if len(c.args) < 4:
                continue
            s_ctx = lib.slice_back(fn, [c.args[2]])
            s_mode = lib.slice_back(fn, [c.args[3]])
            good = _is_entry_src(s_ctx, E['ctx']) and _is_entry_src(s_mode, E['mode']) and _no_const_mode(s_mode)
            roots = set()
            p = op_place(c.args[1])
            if p is not None:
                roots |= lib.root_of(fn, p.l)
            if good:
                evs.append(dict(call=c, roots=roots, kind='apply'))
            else:
                ctx.bad('MPT-C12b', fn, 'apply_acl_to_search_hits is not called with the entry point\'s own acl context and mode '
                        '(context from entry: %s, mode from entry: %s, constant mode: %s)' % (
                            _is_entry_src(s_ctx, E['ctx']), _is_entry_src(s_mode, E['mode']), not _no_const_mode(s_mode)),
                        line=c.line, detail='acl-args-not-from-entry')
        else:
            k = c.key
            if k in entries and entries[k]['fn'] is not fn:
                callee = entries[k]
                sl = lib.slice_back(fn, c.args)
                # per-argument check when the callee takes mode/context as parameters
                good = True
                if callee['mode'][0] == 'arg':
                    sm = lib.slice_back(fn, [c.args[callee['mode'][1] - 1]])
                    sc = lib.slice_back(fn, [c.args[callee['ctx'][1] - 1]])
                    good = _is_entry_src(sm, E['mode']) and _no_const_mode(sm) and _is_entry_src(sc, E['ctx'])
                else:
                    good = _is_entry_src(sl, E['mode']) and _is_entry_src(sl, E['ctx']) and _no_const_mode(sl)
                if good:
                    evs.append(dict(call=c, roots={c.dest.l}, kind='entry:' + k))
    return evs


_CONSTRUCTS = {}


def constructs_hits(F, path, depth=4):
    """does local function `path` (transitively through local callees and its closures) build SearchHit values?"""
    if path in _CONSTRUCTS:
        return _CONSTRUCTS[path]
    _CONSTRUCTS[path] = False   # cycle guard
    fn = F.fns.get(path)
    res = False
    if fn is not None:
        bodies = [fn] + F.closures_of(fn)
        for b in bodies:
            for bb, idx, s in b.stmts():
                rv = s['rv']
                if rv['k'] == 'agg' and rv.get('ak') == 'adt' and rv['adt'] == 'SearchHit':
                    res = True
                    break
            if res:
                break
        if not res and depth > 0:
            for b in bodies:
                for c in b.calls():
                    if c.local_callee and constructs_hits(F, c.local_callee, depth - 1):
                        res = True
                        break
                if res:
                    break
    _CONSTRUCTS[path] = res
    return res


def hit_bearing(fn, sl, clean_calls, F=None):
    """*sources* of hits in the slice: calls to local functions that (transitively) construct SearchHit values and
    return a hit-bearing type. Library calls on hit lists (iter/map/collect/deref…) only derive from their inputs,
    whose own sources are in the slice as well."""
    out = []
    for c in sl.calls:
        if c in clean_calls or c.is_(ACL_APPLY) or c.is_(EMPTY_PRODUCERS):
            continue
        ty = fn.local_ty(c.dest.l)
        if not any(h in ty for h in HIT_TYPES):
            continue
        lc = c.local_callee
        if lc is None:
            continue
        if F is None or constructs_hits(F, lc):
            out.append(c)
    return out


def hit_constructions(fn, F):
    """blocks of `fn` in which a SearchHit is built directly (or a closure building one is created)"""
    out = []
    for bb, idx, s in fn.stmts():
        rv = s['rv']
        if rv['k'] == 'agg' and rv.get('ak') == 'adt' and rv['adt'] == 'SearchHit':
            out.append((bb, s.get('l'), 'SearchHit{…}'))
        elif rv['k'] == 'agg' and rv.get('ak') == 'closure' and constructs_hits(F, rv['def']):
            out.append((bb, s.get('l'), 'closure building SearchHit'))
    return out


def dominated_by_event(fn, evs, bb):
    for e in evs:
        if lib.call_success_dominates(fn, e['call'], bb):
            return e
    return None


def check_entry(ctx, key, E, entries, F):
    fn = E['fn']
    ctx.touch(fn, len(fn.blocks))
    evs = clean_events(ctx, E, entries)
    if not evs:
        ctx.bad('MPT-C12b', fn, 'ACL entry point performs no ACL filtering with its own context/mode', detail='no-clean-event')
        return
    clean_calls = [e['call'] for e in evs]
    # Enforce edges: blocks entered only when mode == Enforce
    enforce_targets = []
    for c in lib.comparisons(fn):
        for (mine, other) in ((c.sa(), c.sb()), (c.sb(), c.sa())):
            if _is_entry_src(mine, E['mode']) and 'AclEnforcementMode::Enforce' in other.aggs:
                for tgt, rel in c.edges():
                    if rel == '==':
                        enforce_targets.append((c.bb, tgt))
    # R1: exits
    n_hit_exits = 0
    for ex in fn.ok_exits():
        ctx.evaluations += 1
        if ex['kind'] == 'ok':
            ops = ex['rv']['ops']
        elif ex['kind'] == 'call':
            ops = ex['call'].args
            if ex['call'] in clean_calls:
                ctx.ok('MPT-C12b', fn, 'exit returns the result of ACL entry point %s directly' % ex['call'].key, line=ex['line'])
                continue
        else:
            ops = lib.rv_operands(ex['rv'])
        sl = lib.slice_back(fn, ops)
        hb = hit_bearing(fn, sl, clean_calls, F)
        direct = hit_constructions(fn, F) if 'SearchHit::SearchHit' in sl.aggs or sl.closures else []
        roots_in = any(r in sl.locals for e in evs for r in e['roots'])
        if not hb and not roots_in and not direct:
            ctx.ok('MPT-C12b', fn, 'Ok exit carries no hits (only empty producers)', line=ex['line'])
            continue
        n_hit_exits += 1
        cands = [e for e in evs if lib.call_success_dominates(fn, e['call'], ex['bb']) and any(r in sl.locals for r in e['roots'])]
        if not cands:
            ctx.bad('MPT-C12b', fn, 'an Ok exit that can carry hits (%s) is not dominated by ACL filtering of the returned hit list' % (
                ', '.join(sorted({c.key for c in hb})) or 'filtered list'), line=ex['line'], detail='exit-not-dominated-by-acl')
            continue
        # every source of hits must lie before (not be reachable after) some dominating clean event
        late = []
        for hbb, hname in [(h.bb, h.key) for h in hb] + [(b, w) for b, l, w in direct]:
            covered = False
            for e in cands:
                sb, _ = fn.success_block(e['call'])
                if sb is not None and hbb not in fn.reachable(sb):
                    covered = True
                    break
            if not covered:
                late.append(hname)
        if late:
            ctx.bad('MPT-C12b', fn, 'hits from %s can enter the returned list after the last ACL filtering that dominates this exit' % (
                ', '.join(sorted(set(late)))), line=ex['line'], detail='hits-after-acl:' + ','.join(sorted(set(late))))
        else:
            ev = cands[0]
            ctx.ok('MPT-C12b', fn, 'Ok exit dominated by %s at line %s; every hit source precedes it' % (ev['kind'], ev['call'].line), line=ex['line'])
    if n_hit_exits == 0:
        ctx.lost('MPT-C12b', '%s: no Ok exit carries hits' % key)
    # R3: producers of derived output
    bodies = [(fn, None)]
    for cl in F.closures_of(fn):
        # creation site of the closure in its parent chain -> block in fn (only direct children handled positionally)
        bodies.append((cl, cl))
    creation = {}
    for bb, idx, s in fn.stmts():
        rv = s['rv']
        if rv['k'] == 'agg' and rv.get('ak') == 'closure':
            creation[rv['def']] = bb
    for body, cl in bodies:
        sites = []
        for c in body.calls():
            if c.is_(PRODUCER_CALLS):
                sites.append((c.bb, c.line, 'call ' + c.key, lib.slice_back(body, c.args)))
        for bb, idx, s in body.stmts():
            rv = s['rv']
            if rv['k'] == 'agg' and rv.get('ak') == 'adt' and (rv['adt'] in PRODUCER_AGGS or rv['adt'] in RESPONSE_AGGS):
                sites.append((bb, s.get('l'), 'construct ' + rv['adt'], lib.slice_back(body, rv['ops'])))
        for bbk, line, what, sl in sites:
            ctx.evaluations += 1
            if cl is None:
                site_bb = bbk
                if not hit_bearing(fn, sl, clean_calls, F) and 'SearchHit::SearchHit' not in sl.aggs and not any(r in sl.locals for e in evs for r in e['roots']):
                    ctx.ok('MPT-C12b', fn, '%s sees no hits' % what, line=line)
                    continue
            else:
                top = cl
                while top.r['parent'] != fn.path and top.r['parent'] in F.fns:
                    top = F.fns[top.r['parent']]
                site_bb = creation.get(top.path)
                if site_bb is None:
                    ctx.lost('MPT-C12b', 'creation site of closure %s not found' % cl.path)
                    continue
            if dominated_by_event(fn, evs, site_bb):
                ctx.ok('MPT-C12b', body, '%s happens after ACL filtering' % what, line=line)
            else:
                ctx.bad('MPT-C12b', body, '%s can see unfiltered hits: not dominated by ACL filtering' % what, line=line,
                        detail='producer-before-acl:' + what)
    # derived fields of a SearchResponse that was filled by a callee before the ACL ran
    for e in evs:
        if e['kind'] != 'apply':
            continue
        group = {r for r in e['roots'] if 'SearchResponse' in fn.local_ty(r)}
        if group:
            for f in DERIVED_FIELDS:
                ctx.evaluations += 1
                stores = [st for st in lib.field_stores(fn, 'SearchResponse', f) if st['lhs'].l in group]
                good = []
                for st in stores:
                    if not lib.call_success_dominates(fn, e['call'], st['bb']):
                        continue
                    on_enforce = any(lib.edge_dominates(fn, src, tgt, st['bb']) for src, tgt in enforce_targets)
                    dom_all = all(fn.dominates(st['bb'], ex['bb']) for ex in fn.ok_exits()
                                  if lib.call_success_dominates(fn, e['call'], ex['bb']))
                    sl = lib.slice_back(fn, lib.rv_operands(st['rv']))
                    if (on_enforce or dom_all) and sl.has_field('SearchResponse', 'hits'):
                        good.append(st)
                if good:
                    ctx.ok('MPT-C12b', fn, 'response.%s recomputed from the filtered hits after the ACL (Enforce edge or all exits)' % f, line=good[0]['line'])
                else:
                    ctx.bad('MPT-C12b', fn, 'response.%s (computed by a callee before the ACL ran) is not recomputed from the filtered hits under Enforce' % f,
                            line=e['call'].line, detail='derived-not-refreshed:' + f, sink=f)
            # stale stores before the ACL are fine only because of the refresh above
    # R2: nothing is added to the cleaned list afterwards
    for e in evs:
        sb, _ = fn.success_block(e['call'])
        if sb is None:
            continue
        after = fn.reachable(sb)
        mb = lib.mut_borrows(fn)
        for c in fn.calls():
            if c.bb not in after or c is e['call']:
                continue
            touches = False
            for a in c.args:
                p = op_place(a)
                if p is not None and not p.p and p.l in mb and any(t.l in e['roots'] or (lib.root_of(fn, t.l) & e['roots']) for t in mb[p.l]):
                    touches = True
            if not touches:
                continue
            ctx.evaluations += 1
            if c.is_(GROWTH):
                s = lib.slice_back(fn, c.args[1:])
                ctx.bad('MPT-C12b', fn, 'hit list is grown (%s) after ACL filtering' % c.key, line=c.line, detail='growth-after-acl:' + c.key)
            elif c.local_callee and _callee_grows_hits(F, c.local_callee, 2):
                ctx.bad('MPT-C12b', fn, 'callee %s can add hits to the list after ACL filtering' % c.key, line=c.line, detail='growth-after-acl:' + c.key)
            else:
                ctx.ok('MPT-C12b', fn, 'post-ACL mutation %s does not grow the hit list' % c.key, line=c.line)


def _callee_grows_hits(F, path, depth):
    fn = F.fns.get(path)
    if fn is None:
        return False
    for c in fn.calls():
        if c.is_(GROWTH):
            # receiver is (a borrow of) a Vec<SearchHit>
            p = op_place(c.args[0]) if c.args else None
            if p is not None and 'SearchHit' in fn.local_ty(p.l):
                roots = lib.root_of(fn, p.l)
                if any(1 <= r <= fn.r['argc'] for r in roots):
                    return True
        elif depth > 0 and c.local_callee and any('SearchHit' in fn.local_ty(op_place(a).l) for a in c.args if op_place(a) is not None):
            if _callee_grows_hits(F, c.local_callee, depth - 1):
                return True
    return False


# --------------------------------------------------------------------------- apply_acl_to_search_hits
def check_apply(ctx, F):
    fn = ctx.need('MPT-C12c', ACL_APPLY)
    if fn is None:
        return
    ctx.touch(fn, len(fn.blocks))
    mode_arg = lib.arg_locals_of_type(fn, 'AclEnforcementMode')
    hits_arg = lib.arg_locals_of_type(fn, 'Vec<types::search::SearchHit>')
    if len(mode_arg) != 1 or len(hits_arg) != 1:
        ctx.lost('MPT-C12c', 'apply_acl_to_search_hits signature changed')
        return
    mode_arg, hits_arg = mode_arg[0], hits_arg[0]
    # mode edges
    enf_edges, audit_edges = [], []
    for c in lib.comparisons(fn):
        for (mine, other) in ((c.sa(), c.sb()), (c.sb(), c.sa())):
            if mode_arg in mine.args:
                for tgt, rel in c.edges():
                    if rel == '==' and 'AclEnforcementMode::Enforce' in other.aggs:
                        enf_edges.append((c.bb, tgt))
                    if rel == '==' and 'AclEnforcementMode::Audit' in other.aggs:
                        audit_edges.append((c.bb, tgt))
    for vs in lib.variant_switches(fn):
        if vs['enum'] == 'AclEnforcementMode' and vs['place'].l == mode_arg:
            if 'Enforce' in vs['arms']:
                enf_edges.append((vs['bb'], vs['arms']['Enforce']))
            if 'Audit' in vs['arms']:
                audit_edges.append((vs['bb'], vs['arms']['Audit']))
    # (1) Enforce arm validates the context with `?`
    val = fn.calls_to('validate_enforce_acl_context')
    ok1 = False
    for v in val:
        if any(lib.edge_dominates(fn, s, t, v.bb) for s, t in enf_edges):
            sb, how = fn.success_block(v)
            # every path from the Enforce edge to the filtering loop passes the success of validate
            ok1 = sb is not None
    if ok1:
        ctx.ok('MPT-C12c', fn, 'Enforce arm requires validate_enforce_acl_context to succeed', line=val[0].line)
    else:
        ctx.bad('MPT-C12c', fn, 'Enforce arm does not pass through validate_enforce_acl_context(?)', detail='enforce-without-validate')
    # no other definition of the normalised context on the Enforce arm
    # (2) `*hits = …` dominated by Enforce edge
    stores = [dict(bb=bb, line=s.get('l')) for bb, idx, s in fn.stmts()
              if s['lhs']['l'] == hits_arg and s['lhs'].get('p') == ['*']]
    ctx.floor('MPT-C12c:replace', len(stores), 1, 'assignments `*hits = filtered`')
    for st in stores:
        ctx.evaluations += 1
        if any(lib.edge_dominates(fn, s, t, st['bb']) for s, t in enf_edges):
            ctx.ok('MPT-C12c', fn, '`*hits = filtered` only on the mode==Enforce edge (Audit leaves hits unchanged)', line=st['line'])
        else:
            ctx.bad('MPT-C12c', fn, '`*hits = …` is not guarded by mode == Enforce', line=st['line'], detail='replace-unguarded')
    # other mutations of *hits (retain/clear/truncate…) must be on the Enforce edge too
    mb = lib.mut_borrows(fn)
    for c in fn.calls():
        for a in c.args:
            p = op_place(a)
            if p is not None and not p.p and p.l in mb and any(t.l == hits_arg for t in mb[p.l]):
                ctx.evaluations += 1
                if any(lib.edge_dominates(fn, s, t, c.bb) for s, t in enf_edges):
                    ctx.ok('MPT-C12c', fn, 'mutation %s of the caller\'s list is on the Enforce edge' % c.key, line=c.line)
                else:
                    ctx.bad('MPT-C12c', fn, 'caller\'s hit list is mutated (%s) outside the Enforce edge' % c.key, line=c.line, detail='mutate-unguarded:' + c.key)
    # (3) keep only via decision.allowed or Audit
    pushes = [c for c in fn.calls() if c.is_('Vec::push') and 'SearchHit' in fn.local_ty(op_place(c.args[0]).l)]
    ctx.floor('MPT-C12c:push', len(pushes), 1, 'pushes into the filtered list')
    allowed_edges = []
    d = lib.defs(fn)
    for bs in lib.bool_switches(fn):
        sl = lib.slice_back(fn, [bs['local']], through_calls=False)
        if sl.has_field('AclDecision', 'allowed'):
            allowed_edges.append((bs['bb'], bs['t_true']))
    if not allowed_edges:
        ctx.lost('MPT-C12c', 'test of decision.allowed not found')
    for pc in pushes:
        ctx.evaluations += 1
        cut = set(allowed_edges) | set(audit_edges)
        if lib.reachable_without_edges(fn, pc.bb, cut):
            ctx.bad('MPT-C12c', fn, 'a hit can be kept without passing the decision.allowed edge or the mode==Audit edge', line=pc.line, detail='keep-unguarded')
        else:
            ctx.ok('MPT-C12c', fn, 'a hit is kept only via decision.allowed or mode==Audit', line=pc.line)
    # (4) the decision tested derives from evaluate_acl_metadata(frame.extra_metadata, normalised context) or a deny
    for bs in lib.bool_switches(fn):
        sl = lib.slice_back(fn, [bs['local']], through_calls=False)
        if not sl.has_field('AclDecision', 'allowed'):
            continue
        prod = {c.key for c in sl.calls}
        ctx.evaluations += 1
        allowed_prod = {'evaluate_acl_metadata', 'AclDecision::deny_missing_metadata', 'memvid::acl::evaluate_acl_metadata'}
        extra = {p for p in prod if not any(p.endswith(a) for a in allowed_prod)}
        if 'memvid::acl::evaluate_acl_metadata' in prod or any(p.endswith('evaluate_acl_metadata') for p in prod):
            if extra:
                ctx.bad('MPT-C12c', fn, 'decision may come from %s' % sorted(extra), line=bs['line'], detail='decision-source')
            else:
                ev = [c for c in sl.calls if c.key.endswith('evaluate_acl_metadata')][0]
                s0 = lib.slice_back(fn, [ev.args[0]])
                s1 = lib.slice_back(fn, [ev.args[1]])
                if s0.has_field('Frame', 'extra_metadata') and s0.calls_matching('Memvid::frame_by_id') and (
                        s1.calls_matching('validate_enforce_acl_context') or s1.calls_matching('normalize_acl_context')):
                    ctx.ok('MPT-C12c', fn, 'decision = evaluate_acl_metadata(frame_by_id(hit.frame_id).extra_metadata, normalised context) | deny', line=ev.line)
                else:
                    ctx.bad('MPT-C12c', fn, 'evaluate_acl_metadata is not applied to the hit frame\'s extra_metadata and the normalised context', line=ev.line, detail='decision-args')
        else:
            # the per-hit decision may be computed by a private helper: decide the same clause inside it
            done = False
            for c in sl.calls:
                h = F.fns.get(c.local_callee) if c.local_callee else None
                if h is None or h.is_closure or 'AclDecision' not in h.local_ty(0):
                    continue
                evs = [x for x in h.calls() if x.key.endswith('evaluate_acl_metadata')]
                others = {x.key for x in h.calls() if 'AclDecision' in (h.local_ty(x.dest.l) if x.dest is not None and not x.dest.p else '')} - {x.key for x in evs}
                if not evs or any(not o.endswith('AclDecision::deny_missing_metadata') for o in others):
                    continue
                ctx.touch(h, len(h.blocks))
                s0 = lib.slice_back(h, [evs[0].args[0]])
                s1 = lib.slice_back(h, [evs[0].args[1]])
                pidx = sorted(a for a in s1.args if 1 <= a <= len(c.args))
                ctxarg = lib.slice_back(fn, [c.args[pidx[0] - 1]]) if pidx else None
                if s0.has_field('Frame', 'extra_metadata') and s0.calls_matching('Memvid::frame_by_id') and ctxarg is not None and (
                        ctxarg.calls_matching('validate_enforce_acl_context') or ctxarg.calls_matching('normalize_acl_context')):
                    ctx.ok('MPT-C12c', fn, 'decision = %s(hit, normalised context), which is evaluate_acl_metadata(frame_by_id(hit.frame_id).extra_metadata, context) | deny' % h.name, line=c.line)
                else:
                    ctx.bad('MPT-C12c', fn, 'evaluate_acl_metadata (in %s) is not applied to the hit frame\'s extra_metadata and the normalised context' % h.name, line=c.line, detail='decision-args')
                done = True
                break
            if not done:
                ctx.bad('MPT-C12c', fn, 'decision does not come from evaluate_acl_metadata', line=bs['line'], detail='decision-source')


# --------------------------------------------------------------------------- evaluate_acl_metadata & friends
def check_evaluate(ctx, F):
    fn = ctx.need('GUARD-C12d', 'memvid::acl::evaluate_acl_metadata')
    if fn is None:
        return
    ctx.touch(fn, len(fn.blocks))
    allows = fn.calls_to('AclDecision::allow')
    ctx.floor('GUARD-C12d:allow', len(allows), 2, 'allow() sites in evaluate_acl_metadata')
    ctx_arg = 2
    none_edges = []
    for vs in lib.variant_switches(fn):
        if vs['enum'] == 'Option' and vs['place'].l == ctx_arg and 'None' in vs['arms']:
            none_edges.append((vs['bb'], vs['arms']['None']))
    parse = fn.calls_to('parse_acl_metadata')
    if len(parse) != 1:
        ctx.lost('GUARD-C12d', 'evaluate_acl_metadata must call parse_acl_metadata once')
        return
    parse = parse[0]
    any_edges = []
    for bs in lib.bool_switches(fn):
        sl = lib.slice_back(fn, [bs['local']])
        names = {c.name for c in sl.calls}
        if names & {'any', 'is_some_and', 'contains', 'is_subset', 'intersection'} and (
                sl.has_field('ParsedFrameAcl', 'principals') or sl.has_field('ParsedFrameAcl', 'roles') or sl.has_field('ParsedFrameAcl', 'groups')):
            any_edges.append((bs['bb'], bs['t_true']))
    for a in allows:
        ctx.evaluations += 1
        if any(lib.edge_dominates(fn, s, t, a.bb) for s, t in none_edges):
            ctx.ok('GUARD-C12d', fn, 'allow() under context == None (no ACL requested)', line=a.line)
            continue
        problems = []
        if not lib.call_success_dominates(fn, parse, a.bb):
            problems.append('parse_acl_metadata success')
        if lib.find_guard(fn, a.bb, '==', lambda s: s.has_field('ParsedFrameAcl', 'tenant_id'),
                          lambda s: s.has_field('NormalizedAclContext', 'tenant_id')) is None:
            problems.append('tenant equality')
        pub = lib.find_guard(fn, a.bb, '==', lambda s: s.has_field('ParsedFrameAcl', 'visibility'),
                             lambda s: 'FrameVisibility::Public' in s.aggs)
        if pub is None and lib.reachable_without_edges(fn, a.bb, set(any_edges)):
            problems.append('visibility==Public or a principal/role/group match')
        if problems:
            ctx.bad('GUARD-C12d', fn, 'allow() reachable without: ' + ', '.join(problems), line=a.line, detail='allow-unguarded:' + '+'.join(problems))
        else:
            ctx.ok('GUARD-C12d', fn, 'allow() dominated by parse success, tenant equality and (Public | principal/role/group match)', line=a.line)
    # all return values are produced by AclDecision constructors
    for ex in fn.ret_assignments():
        ctx.evaluations += 1
        if ex['kind'] == 'call' and ex['call'].key.startswith('AclDecision::'):
            continue
        ctx.bad('GUARD-C12d', fn, 'evaluate_acl_metadata returns a decision not built by an AclDecision constructor', line=ex['line'], detail='decision-literal')
    # constructors: allowed=true only in allow()
    n = 0
    for f in F.fns.values():
        for bb, idx, s in f.stmts():
            rv = s['rv']
            lhs = Place(s['lhs'])
            is_agg = rv['k'] == 'agg' and rv.get('adt') == 'AclDecision'
            is_store = ('AclDecision', 'allowed') in lhs.field_owners()
            if not (is_agg or is_store):
                continue
            n += 1
            if is_agg:
                op = rv['ops'][rv['fields'].index('allowed')]
            else:
                op = lib.rv_operands(rv)[0] if lib.rv_operands(rv) else {}
            const_false = 'k' in op and op['k'].get('v') is False
            if const_false or f.key == 'AclDecision::allow' or f.r.get('derive'):
                continue
            ctx.bad('GUARD-C12d', f, 'AclDecision with allowed != const false is built outside AclDecision::allow', line=s.get('l'), detail='allowed-true-elsewhere')
    ctx.floor('GUARD-C12d:ctor', n, 2, 'AclDecision constructions')
    ctx.evaluations += n
    # validate_enforce_acl_context: Ok only when both options are Some
    v = ctx.need('GUARD-C12d', 'memvid::acl::validate_enforce_acl_context')
    if v is not None:
        ctx.touch(v, len(v.blocks))
        norm = v.calls_to('normalize_acl_context')
        some_ctx = [(vs['bb'], vs['arms']['Some']) for vs in lib.variant_switches(v) if vs['enum'] == 'Option' and vs['place'].l == 1 and 'Some' in vs['arms']]
        some_norm = []
        for vs in lib.variant_switches(v):
            if vs['enum'] == 'Option' and norm and vs['place'].l == norm[0].dest.l and 'Some' in vs['arms']:
                some_norm.append((vs['bb'], vs['arms']['Some']))
        for ex in v.ok_exits():
            ctx.evaluations += 1
            if ex['kind'] == 'err':
                continue
            a = any(lib.edge_dominates(v, s, t, ex['bb']) for s, t in some_ctx)
            b = any(lib.edge_dominates(v, s, t, ex['bb']) for s, t in some_norm)
            if a and b:
                ctx.ok('GUARD-C12d', v, 'Ok only when the context is present and normalises (tenant present)', line=ex['line'])
            else:
                ctx.bad('GUARD-C12d', v, 'validate_enforce_acl_context can return Ok without a context/tenant', line=ex['line'], detail='validate-ok-unguarded')
        for e in lib.enum_constructions(v, 'MemvidError'):
            if e['variant'] != 'InvalidQuery':
                ctx.bad('GUARD-C12d', v, 'rejection is not InvalidQuery', line=e['line'], detail='wrong-error')
    nz = ctx.need('GUARD-C12d', 'memvid::acl::normalize_acl_context')
    if nz is not None:
        ctx.touch(nz, len(nz.blocks))
        ten = [c for c in nz.calls_to('normalize_scalar') if lib.slice_back(nz, c.args).has_field('AclContext', 'tenant_id')]
        somes = [e for e in lib.enum_constructions(nz, 'Option', 'Some') if e['lhs'].l == 0]
        if not ten or not somes:
            ctx.lost('GUARD-C12d', 'normalize_acl_context: tenant normalisation or Some(..) exit not found')
        for e in somes:
            ctx.evaluations += 1
            if any(lib.call_success_dominates(nz, t, e['bb']) for t in ten):
                ctx.ok('GUARD-C12d', nz, 'Some(context) only when tenant_id normalises to a value', line=e['line'])
            else:
                ctx.bad('GUARD-C12d', nz, 'normalize_acl_context can return Some without a tenant', line=e['line'], detail='normalize-without-tenant')
    # parse_acl_metadata / parse_acl_list: JSON error -> Err
    pl = ctx.need('GUARD-C12d', 'memvid::acl::parse_acl_list')
    if pl is not None:
        ctx.touch(pl, len(pl.blocks))
        js = [c for c in pl.calls() if c.name in ('from_str', 'from_slice')]
        if not js:
            ctx.lost('GUARD-C12d', 'parse_acl_list: JSON decode call not found')
        for j in js:
            sb, how = pl.success_block(j)
            ctx.evaluations += 1
            # the inserts must be dominated by decode success
            ins = [c for c in pl.calls() if c.name == 'insert']
            if sb is not None and how != 'infallible' and all(pl.dominates(sb, i.bb) for i in ins) and ins:
                ctx.ok('GUARD-C12d', pl, 'list entries are used only after the JSON decode succeeded (error -> Err -> deny)', line=j.line)
            else:
                ctx.bad('GUARD-C12d', pl, 'JSON decode error of an ACL list is not propagated', line=j.line, detail='json-error-swallowed')
    pm = ctx.need('GUARD-C12d', 'memvid::acl::parse_acl_metadata')
    if pm is not None:
        ctx.touch(pm, len(pm.blocks))
        lists = pm.calls_to('parse_acl_list')
        aggs = lib.enum_constructions(pm, 'ParsedFrameAcl')
        ctx.floor('GUARD-C12d:lists', len(lists), 3, 'parse_acl_list calls (roles, groups, principals)')
        for a in aggs:
            for l in lists:
                ctx.evaluations += 1
                if not lib.call_success_dominates(pm, l, a['bb']):
                    ctx.bad('GUARD-C12d', pm, 'ParsedFrameAcl built without a successful parse of every ACL list', line=a['line'], detail='list-error-ignored')
                    break
            else:
                ctx.ok('GUARD-C12d', pm, 'ParsedFrameAcl built only after all three lists parsed', line=a['line'])


def run(ctx):
    ctx.rule('WMC-C12a', 'ACL entry points discovered by signature (public Memvid methods taking AclEnforcementMode/AclContext or a request containing them); floor 4')
    ctx.rule('MPT-C12b', 'every hit-carrying Ok exit and every derived-output producer of an entry point is dominated by ACL filtering with the entry\'s own context/mode; derived response fields refreshed under Enforce; no growth after filtering')
    ctx.rule('MPT-C12c', 'apply_acl_to_search_hits: Enforce validates context; replace only under Enforce; keep only via allowed|Audit; decision from evaluate_acl_metadata|deny')
    ctx.rule('GUARD-C12d', 'evaluate_acl_metadata: allow dominated by parse success + tenant equality + (Public | match); deny-by-default plumbing in validate/normalize/parse')
    F = ctx.facts()
    entries = discover_entries(F)
    ctx.evaluations += len(F.fns)
    ctx.floor('WMC-C12a', len(entries), 4, 'ACL-taking public retrieval entry points')
    for k in sorted(entries):
        ctx.ok('WMC-C12a', entries[k]['fn'], 'ACL entry point (mode %s, context %s)' % (entries[k]['mode'], entries[k]['ctx']))
    sr = F.adt('SearchResponse')
    if sr is not None:
        fields = {f['name'] for f in sr['variants'][0]['fields']}
        new = fields - REVIEWED_SEARCHRESPONSE_FIELDS
        if new:
            ctx.bad('MPT-C12b', None, 'SearchResponse has unreviewed field(s) %s: decide whether they are hit-derived' % sorted(new), detail='unreviewed-response-field:' + ','.join(sorted(new)))
    for k in sorted(entries):
        check_entry(ctx, k, entries[k], entries, F)
    check_apply(ctx, F)
    check_evaluate(ctx, F)
