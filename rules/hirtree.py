"""HIRTREE — helpers over the HIR expression trees emitted by mvfacts (fn.r['hir'])."""
import json


def walk(n, into_closures=True):
    """pre-order iterator over nodes (dicts)"""
    if not isinstance(n, dict):
        return
    yield n
    if n.get('k') == 'closure' and not into_closures:
        return
    for key in ('path', 'pat', 'guard', 'body'):
        if isinstance(n.get(key), dict):
            yield from walk(n[key], into_closures)
    for c in n.get('params', []) or []:
        yield from walk(c, into_closures)
    for c in n.get('c', []) or []:
        yield from walk(c, into_closures)


def body(fn):
    h = fn.r.get('hir')
    return h.get('body') if h else None


def norm(n, rename=None):
    """structure without line numbers / receiver types / def ids; variables alpha-renamed in order of first binding"""
    rename = {} if rename is None else rename

    def go(x):
        if isinstance(x, list):
            return [go(y) for y in x]
        if not isinstance(x, dict):
            return x
        out = {}
        for k, v in x.items():
            if k in ('l', 'rt', 'def', 'ty'):
                continue
            if k == 'name' and x.get('k') in ('p_bind', 'var'):
                if x['k'] == 'p_bind' and v not in rename:
                    rename[v] = 'v%d' % len(rename)
                out[k] = rename.get(v, v)
            else:
                out[k] = go(v)
        return out
    return go(n)


def same(a, b):
    return json.dumps(norm(a), sort_keys=True) == json.dumps(norm(b), sort_keys=True)


def mcalls(n, name=None, into_closures=True):
    return [x for x in walk(n, into_closures) if x.get('k') == 'mcall' and (name is None or x.get('name') == name)]


def closure_arg(call):
    for c in call.get('c', []):
        if isinstance(c, dict) and c.get('k') == 'closure':
            return c
    return None
