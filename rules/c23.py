"""C23 — determinism: the same calls produce identical bytes (nondeterminism must not reach file bytes).

Decided:
  FLOW-C23a  no nondeterminism source reaches bytes written to the file when the caller supplied the explicit input
             that replaces it. Sources (effect table): SystemTime::now, Instant::now, Uuid::new_v4, OsRng/thread_rng,
             and the Tantivy engine's segment snapshot (Tantivy names its segment files with random UUIDs - trusted-base
             knowledge about the external crate). Sinks: the fields of WalEntryData / Frame aggregates and the arguments
             of writes to the memory file.
             - put_internal: the clock may feed WalEntryData.timestamp only as the default of options.timestamp
               (inside unwrap_or_else/unwrap_or on that option);
             - Tantivy snapshot bytes and segment names are written into the file (known finding: byte identity).
  TYPE-C23b  no type reachable from the persisted roots (Toc, WalEntryData, MemoriesTrack, LogicMesh, Frame, ...) that
             derives serde's Serialize holds a HashMap/HashSet field, unless the field is #[serde(skip)] or has a custom
             serialize_with: serde walks a hash collection in RandomState order, so the bytes differ from run to run.
             (Derive lists and helper attributes are read from the struct's source text: macro expansion removes them
             from the HIR.) Types with hand-written writers are accepted - their writer decides the order.
  ORDER-C23c no loop driven by the iteration of a RandomState collection (HashMap/HashSet iterators) writes to the memory
             file or assigns file positions (Frame.payload_offset / *.bytes_offset): the iteration order differs between
             two runs of the same calls, and with it the layout of the file.
  ORDER-C23d no function whose result reaches a field of the WAL entry built by put_internal (tags, labels, search text,
             ...; local callees followed transitively) lets the iteration order of a HashMap/HashSet decide its
             result: a hash iterator may be reduced commutatively, or collected and then fully sorted, but an
             order-sensitive cut (truncate, take, select_nth_unstable*, first/last, ...) between the iteration and the
             sort - or no sort at all - makes two runs of the same put differ (logical state, not only bytes).
Not decided: byte identity itself (runtime), the logical-state half of the property."""
import os, re
from . import lib, extract
from .facts import Place, op_place

NONDET = ('SystemTime::now', 'Instant::now', 'Uuid::new_v4', 'rand::thread_rng', 'OsRng', 'rand::random', 'fastrand')
TANTIVY_SNAPSHOT = ('TantivyEngine::snapshot_segments',)
ROOT_TYPES = ('Toc', 'WalEntryData', 'MemoriesTrack', 'LogicMesh', 'Frame', 'SegmentCatalog', 'IndexManifests')


def struct_source_info(adt):
    """derive list and per-field attribute text of a struct, read from its source (derive helper attributes such as
    #[serde(skip)] are consumed by macro expansion and are not in the HIR the extractor sees)"""
    out = dict(found=False, serialize=False, fields={})
    path = os.path.join(extract.REPO, adt.get('file') or '')
    try:
        lines = open(path, encoding='utf-8', errors='replace').read().split('\n')
    except OSError:
        return out
    ln = adt.get('line', 0) - 1
    if not (0 <= ln < len(lines)) or adt['name'] not in lines[ln]:
        return out
    out['found'] = True
    i = ln - 1
    head = []
    while i >= 0 and (lines[i].strip().startswith('#[') or lines[i].strip().startswith('///') or lines[i].strip().startswith('//') or lines[i].strip().endswith(')]') or lines[i].strip().endswith(',')):
        head.append(lines[i])
        i -= 1
    out['serialize'] = any('derive' in h and re.search(r'\bSerialize\b', h) for h in head) or bool(re.search(r'derive\([^)]*\bSerialize\b', ' '.join(reversed(head))))
    depth = 0
    pend = []
    for j in range(ln, min(len(lines), ln + 400)):
        t = lines[j]
        if j > ln and depth == 1:
            st = t.strip()
            m = re.match(r'(pub(\([^)]*\))?\s+)?([A-Za-z_][A-Za-z0-9_]*)\s*:', st)
            if st.startswith('#[') or st.startswith('///'):
                pend.append(st)
            elif m:
                out['fields'][m.group(3)] = ' '.join(pend)
                pend = []
        depth += t.count('{') - t.count('}')
        if j > ln and depth <= 0:
            break
    return out


def run(ctx):
    ctx.rule('FLOW-C23a', 'clock/uuid/rng/Tantivy-segment-id sources do not reach bytes written to the file (clock only as default of an absent caller timestamp)')
    ctx.rule('TYPE-C23b', 'no serde-serialised HashMap/HashSet field in types reachable from the persisted roots (skip / serialize_with excepted)')
    F = ctx.facts()
    put = ctx.need('FLOW-C23a', 'Memvid::put_internal')
    if put is not None:
        ctx.touch(put, len(put.blocks))
        n = 0
        for bb, i, s in put.stmts():
            rv = s['rv']
            if rv['k'] == 'agg' and rv.get('adt') == 'WalEntryData':
                for f, op in zip(rv['fields'], rv['ops']):
                    sl = lib.slice_back(put, [op], through_calls=True, at=(bb, i))
                    nd = [c for c in sl.calls if c.is_(NONDET)]
                    nd_cl = []
                    for cdef in sl.closures:
                        cl = F.fns.get(cdef)
                        if cl is not None and any(c.is_(NONDET) for b in [cl] + F.closures_of(cl) for c in b.calls()):
                            nd_cl.append(cl)
                    if not nd and not nd_cl:
                        continue
                    n += 1
                    ctx.evaluations += 1
                    # allowed: default of the caller's option
                    dflt = [c for c in sl.calls if c.name in ('unwrap_or_else', 'unwrap_or', 'map_or_else') and
                            lib.slice_back(put, c.args[:1], through_calls=True, at=(c.bb, None)).has_field('PutOptions', 'timestamp')]
                    if f == 'timestamp' and dflt and not nd:
                        ctx.ok('FLOW-C23a', put, 'the clock reaches WalEntryData.timestamp only as the default of options.timestamp', line=s.get('l'))
                    else:
                        ctx.bad('FLOW-C23a', put, 'a nondeterministic source (%s) reaches WalEntryData.%s even when the caller supplies explicit inputs'
                                % (', '.join(sorted({c.key for c in nd} | {c.key for c in nd_cl})), f), line=s.get('l'), sink='WalEntryData.' + f, detail='nondet-into-wal:' + f)
        ctx.floor('FLOW-C23a:put', n, 1, 'WAL entry fields that can be fed by the clock in put_internal')
    dele = F.fn('Memvid::delete_frame')
    if dele is not None:
        for bb, i, s in dele.stmts():
            rv = s['rv']
            if rv['k'] == 'agg' and rv.get('adt') == 'WalEntryData':
                op = rv['ops'][rv['fields'].index('timestamp')]
                sl = lib.slice_back(dele, [op], through_calls=True, at=(bb, i))
                if any(c.is_(NONDET) for c in sl.calls):
                    ctx.candidate('FLOW-C23a', dele, 'the tombstone record is stamped with SystemTime::now() unconditionally: the WAL bytes of a delete depend on the clock '
                                  '(logical state unaffected; not reproduced as a byte difference)', line=s.get('l'), detail='tombstone-clock')
    # Tantivy snapshot -> file
    n_t = 0
    for f in F.fns.values():
        snaps = [c for c in f.calls() if c.is_(TANTIVY_SNAPSHOT)]
        if not snaps:
            continue
        for c in f.calls():
            lc = c.local_callee
            if lc and lc in F.fns and snaps[0] in lib.slice_back(f, c.args, through_calls=True, at=(c.bb, None)).calls:
                g = F.fns[lc]
                writes = [w for w in g.calls() if w.is_(('Write::write_all', '<File as Write>::write_all'))]
                for w in writes:
                    sl = lib.slice_back(g, w.args[1:2], through_calls=True, at=(w.bb, None))
                    if any(o in ('TantivySnapshot', 'TantivySegmentBlob') for o, _ in sl.fields) or 2 in sl.args:
                        n_t += 1
                        ctx.evaluations += 1
                        ctx.bad('FLOW-C23a', g, 'segment bytes and names produced by the Tantivy engine (random segment UUIDs) are written into the memory file: two runs of the same calls '
                                'give different bytes', line=w.line, sink='file', detail='tantivy-segment-ids-in-file')
                        break
                break
    ctx.extra['tantivy_sinks'] = n_t
    # Uuid / rng in local code that reaches persisted aggregates
    for f in F.fns.values():
        for c in f.calls():
            if c.is_(('Uuid::new_v4',)):
                ctx.evaluations += 1
                ctx.candidate('FLOW-C23a', f, 'Uuid::new_v4() (random) is used here; whether it reaches persisted bytes under explicit inputs was not reproduced', line=c.line, detail='uuid-v4')
    # ---- c
    ctx.rule('ORDER-C23c', 'no file write / file-position assignment inside a loop driven by HashMap/HashSet iteration')
    from . import effects, monotone
    hash_it = re.compile(r'(hash_map|hash_set|hash::map|hash::set)::(Iter|IntoIter|Keys|Values|ValuesMut|IterMut|Drain|IntoKeys|IntoValues)')
    n_loops = 0
    for f in sorted(F.fns.values(), key=lambda x: x.path):
        if f.r.get('derive'):
            continue
        nexts = [c for c in f.calls() if c.name == 'next' and c.args and op_place(c.args[0]) is not None]
        loops = None
        for c in nexts:
            rp = op_place(c.args[0])
            tys = ' '.join(f.local_ty(l) for l in (lib.root_of(f, rp.l) | {rp.l}))
            if not hash_it.search(tys):
                continue
            n_loops += 1
            ctx.evaluations += 1
            if loops is None:
                loops = monotone.natural_loops(f)
            body = set()
            for h, b in loops.items():
                if c.bb in b and (not body or len(b) < len(body)):
                    body = b
            ws = [x for x in f.calls() if x.bb in body and (effects.file_effect(f, x) or (None, None))[0] == 'W' and effects.file_effect(f, x)[1] in ('M', 'P')]
            pos = [st for st in lib.field_stores(f) if st['bb'] in body and st['lhs'].field_owners() and st['lhs'].field_owners()[-1][1] in ('payload_offset', 'bytes_offset', 'segment_offset')]
            ctx.touch(f, len(body))
            if ws or pos:
                what = ws[0].key if ws else '%s.%s' % pos[0]['lhs'].field_owners()[-1]
                ctx.bad('ORDER-C23c', f, 'a loop over a HashMap/HashSet iterator writes the memory file / assigns file positions (%s): the layout follows the RandomState iteration order and '
                        'differs between two runs of the same calls' % what, line=(ws[0].line if ws else pos[0]['line']), sink=what, detail='file-layout-in-hash-order')
            else:
                ctx.ok('ORDER-C23c', f, 'loop over a hash collection neither writes the file nor assigns file positions', line=c.line)
    ctx.floor('ORDER-C23c', n_loops, 3, 'loops driven by HashMap/HashSet iteration')
    # ---- d
    ctx.rule('ORDER-C23d', 'functions feeding the WAL entry of a put do not let HashMap/HashSet iteration order decide their result')
    if put is not None:
        srcs = set()
        for bb, i, st in put.stmts():
            rv = st['rv']
            if rv['k'] == 'agg' and rv.get('adt') == 'WalEntryData':
                for op in rv['ops']:
                    for c in lib.slice_back(put, [op], through_calls=True, at=(bb, i)).calls:
                        if c.local_callee and c.local_callee in F.fns:
                            srcs.add(c.local_callee)
        feed = lib.reachable_fns(F, [F.fns[p] for p in srcs])
        ctx.floor('ORDER-C23d', len(feed), 30, 'functions feeding the WAL entry fields of a put')
        ctx.evaluations += len(feed)
        COMMUTATIVE = ('count', 'sum', 'len', 'any', 'all', 'max', 'min', 'contains', 'contains_key', 'is_empty', 'product')
        CUTS = ('truncate', 'select_nth_unstable', 'select_nth_unstable_by', 'select_nth_unstable_by_key', 'first', 'last', 'pop', 'split_off', 'drain', 'take', 'nth', 'swap_remove', 'split_at')
        n_bad = 0
        for f in sorted(feed.values(), key=lambda x: x.path):
            if f.r.get('derive'):
                continue
            its = [l for l in range(len(f.r['locals'])) if hash_it.search(f.local_ty(l))]
            if not its:
                continue
            ctx.touch(f, len(f.blocks))
            calls = f.calls()
            sorts = [c for c in calls if c.name.startswith('sort')]
            users = [c for c in calls if c.args and op_place(c.args[0]) is not None and op_place(c.args[0]).l in set(its) | set().union(*[lib.root_of(f, l) for l in its])]
            if users and all(c.name in COMMUTATIVE for c in users):
                ctx.ok('ORDER-C23d', f, 'hash iteration reduced commutatively (%s)' % ', '.join(sorted({c.name for c in users})))
                continue
            cuts = [c for c in calls if c.name in CUTS]
            early_cut = [c for c in cuts if not any(lib.call_success_dominates(f, s_, c.bb) or f.dominates(s_.bb, c.bb) for s_ in sorts)]
            if not sorts or early_cut:
                n_bad += 1
                what = ('cut by %s before any sort' % early_cut[0].name) if early_cut else 'never sorted'
                ctx.bad('ORDER-C23d', f, 'a HashMap/HashSet is iterated on the way to a persisted field of the put (%s): its RandomState order decides the result, so two runs of the same put store '
                        'different metadata' % what, line=(early_cut[0].line if early_cut else users[0].line if users else None), sink='WalEntryData', detail='hash-order-decides-persisted-value')
            else:
                ctx.ok('ORDER-C23d', f, 'hash iteration is collected and sorted before any order-sensitive cut')
        if not n_bad:
            ctx.ok('ORDER-C23d', put, 'no function feeding the WAL entry depends on hash iteration order (%d functions examined)' % len(feed))
    # ---- b
    seen = set()
    todo = [a for n in ROOT_TYPES for a in F.adts_by_name.get(n, [])]
    n_fields = 0
    while todo:
        a = todo.pop()
        if a['path'] in seen:
            continue
        seen.add(a['path'])
        info = None
        for v in a['variants']:
            for fl in v['fields']:
                ty = fl['ty']
                if 'HashMap<' in ty or 'HashSet<' in ty:
                    n_fields += 1
                    if info is None:
                        info = struct_source_info(a)
                    cname = ty.split('<')[0].split('::')[-1]
                    what = '%s.%s: %s' % (a['name'], fl['name'], cname)
                    fa = info['fields'].get(fl['name'], '')
                    if not info['found']:
                        ctx.lost('TYPE-C23b', 'definition of %s not found in %s' % (a['name'], a.get('file')))
                    elif not info['serialize']:
                        ctx.ok('TYPE-C23b', None, '%s is not serialised by serde (no derive(Serialize) on %s: its writer decides the order)' % (what, a['name']))
                    elif re.search(r'serde\([^)]*\bskip\b', fa) or re.search(r'serde\([^)]*\bskip_serializing\b(?!_if)', fa):
                        ctx.ok('TYPE-C23b', None, '%s is #[serde(skip)]: not persisted' % what)
                    elif 'serialize_with' in fa:
                        ctx.ok('TYPE-C23b', None, '%s is written by a custom serializer (serialize_with)' % what)
                    else:
                        ctx.bad('TYPE-C23b', None, 'persisted type %s derives Serialize and holds a RandomState-ordered %s in field `%s`: the serialised order, and with it the file bytes, '
                                'differ between two runs of the same calls' % (a['name'], cname, fl['name']), sink='%s.%s' % (a['name'], fl['name']), detail='hash-collection-serialised:%s.%s' % (a['name'], fl['name']))
                for name, lst in F.adts_by_name.items():
                    if len(name) > 3 and ('::' + name) in ty or ty.endswith(name) or ('::' + name + '>') in ty:
                        for b in lst:
                            if b['path'] not in seen and b['path'].split('::')[-1] == name and (b['path'] in ty or ('::' + name) in ty):
                                todo.append(b)
    ctx.evaluations += len(seen)
    ctx.extra['persisted_types_scanned'] = len(seen)
    ctx.floor('TYPE-C23b', len(seen), 20, 'types reachable from the persisted roots')
    if n_fields == 0:
        ctx.ok('TYPE-C23b', None, 'no HashMap/HashSet field in the %d persisted types scanned' % len(seen))
