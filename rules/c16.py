"""C16 — search pagination partitions the result stream (cursor non-interference).

Decided (explicit data flow, flow- and field-sensitive, per engine path):
  FLOW-C16a  request.cursor must not flow into (i) the value stored in SearchResponse.total_hits, (ii) the arguments
             of the candidate producer (search_documents / compute_matches), i.e. the list that is ranked and paged.
  FLOW-C16b  the page offset is parse_cursor(request.cursor, total) on every engine path (the cursor is parsed against
             the same total that is reported). next_cursor depends on the cursor only through control flow
             (`produced < offset` skipping), which explicit-flow analysis does not see; it is not checked.
Not decided: that the concatenation of pages equals the one-shot result (values)."""
from . import lib
from .facts import op_place

ENGINES = ('memvid::search::tantivy::try_tantivy_search', 'memvid::search::fallback::search_with_lex_fallback',
           'memvid::search::fallback::search_with_filters_only')
PRODUCERS = ('search_documents', 'compute_matches')


def run(ctx):
    ctx.rule('FLOW-C16a', 'request.cursor does not flow into total_hits nor into the candidate producer\'s arguments')
    ctx.rule('FLOW-C16b', 'page offset = parse_cursor(request.cursor, total reported)')
    F = ctx.facts()
    n = 0
    for key in ENGINES:
        fn = ctx.need('FLOW-C16a', key)
        if fn is None:
            continue
        ctx.touch(fn, len(fn.blocks))
        aggs = [(bb, i, s) for bb, i, s in fn.stmts() if s['rv']['k'] == 'agg' and s['rv'].get('adt') == 'SearchResponse']
        for bb, i, s in aggs:
            ops = dict(zip(s['rv']['fields'], s['rv']['ops']))
            sl = lib.slice_back(fn, [ops['total_hits']], through_calls=True, at=(bb, i))
            ctx.evaluations += 1
            n += 1
            if sl.has_field('SearchRequest', 'cursor') or sl.has_field('SearchParams', 'cursor'):
                via = sorted({c.name for c in sl.calls if c.name in PRODUCERS + ('parse_cursor', 'parse')})
                ctx.bad('FLOW-C16a', fn, 'total_hits depends on request.cursor (via %s): it differs from page to page' % ', '.join(via),
                        line=s.get('l'), sink='total_hits', detail='cursor-flows-to-total_hits')
            else:
                ctx.ok('FLOW-C16a', fn, 'total_hits is independent of request.cursor', line=s.get('l'))
        for c in fn.calls():
            if c.name in PRODUCERS:
                ctx.evaluations += 1
                sl = lib.slice_back(fn, c.args, through_calls=True, at=(c.bb, None))
                if sl.has_field('SearchRequest', 'cursor') or sl.has_field('SearchParams', 'cursor'):
                    ctx.bad('FLOW-C16a', fn, 'the candidate producer %s is parameterised by request.cursor: different pages rank different candidate lists' % c.name,
                            line=c.line, sink='candidates', detail='cursor-flows-to-producer:' + c.name)
                else:
                    ctx.ok('FLOW-C16a', fn, 'candidate producer %s is independent of request.cursor' % c.name, line=c.line)
        pc = fn.calls_to('parse_cursor')
        if pc:
            s0 = lib.slice_back(fn, pc[0].args[:1], through_calls=True, at=(pc[0].bb, None))
            s1 = lib.slice_back(fn, pc[0].args[1:2], through_calls=False, at=(pc[0].bb, None))
            tot_locals = set()
            for bb, i, s in aggs:
                ops = dict(zip(s['rv']['fields'], s['rv']['ops']))
                tot_locals |= lib.slice_back(fn, [ops['total_hits']], through_calls=False, at=(bb, i)).locals
            if s0.has_field('SearchRequest', 'cursor') and not (s1.locals & tot_locals):
                ctx.bad('FLOW-C16b', fn, 'the cursor is validated against a different total than the one reported as total_hits', line=pc[0].line, detail='parse-cursor-total')
            elif s0.has_field('SearchRequest', 'cursor'):
                ctx.ok('FLOW-C16b', fn, 'page offset = parse_cursor(request.cursor, total)', line=pc[0].line)
            else:
                ctx.bad('FLOW-C16b', fn, 'parse_cursor is not applied to request.cursor', line=pc[0].line, detail='parse-cursor-arg')
        else:
            ctx.bad('FLOW-C16b', fn, 'engine path does not parse the cursor', detail='no-parse-cursor')
    ctx.floor('FLOW-C16a', n, 3, 'SearchResponse constructions on the engine paths')
