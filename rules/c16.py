"""C16 — search pagination partitions the result stream (cursor non-interference).

Decided (explicit data flow, flow- and field-sensitive, per engine path):
  FLOW-C16a  request.cursor must not flow into (i) the value stored in SearchResponse.total_hits, (ii) the arguments
             of the candidate producer (search_documents / compute_matches), i.e. the list that is ranked and paged.
  FLOW-C16b  the page offset is parse_cursor(request.cursor, total) on every engine path (the cursor is parsed against
             the same total that is reported). next_cursor depends on the cursor only through control flow
             (`produced < offset` skipping), which explicit-flow analysis does not see; it is not checked.
  FLOW-C16e  the page size may raise the candidate budget of the sketch pre-filter but never cap it: where
             SearchParams.top_k flows into max_candidates it does so through max(_, constant) - a floor. A min() on that
             flow makes the budget at most c * page_size, so walking small pages can never reach candidates a single
             large request sees (the pages no longer partition the single request's stream).
Not decided: that the concatenation of pages equals the one-shot result (values)."""
from . import lib
from .facts import op_place, Place


def _skip_granularity(ctx, fn):
    """GUARD-C16c: the counter compared with the page offset advances one result unit at a time; a larger step is
    allowed only where a comparison establishes that the whole step still lies before the offset."""
    pc = fn.calls_to('parse_cursor')
    if not pc:
        return
    off_locals = set()
    sb, _ = fn.success_block(pc[0])
    # locals holding the parsed offset
    for l in range(len(fn.locals)):
        if fn.local_ty(l) == 'usize' and fn.local_name(l) == 'offset':
            off_locals.add(l)
    counters = set()
    for c in lib.comparisons(fn):
        for xo, y in ((c.a, c.sb()), (c.b, c.sa())):
            if pc[0] not in y.calls:
                continue
            x = lib.slice_back(fn, [xo], through_calls=False, at=(c.bb, None))
            if pc[0] in x.calls:
                continue
            for l in x.locals:
                if fn.local_ty(l) == 'usize' and fn.local_name(l):
                    counters.add(l)
    d = lib.defs(fn)
    for p in sorted(counters):
        for s in d.get(p, ()):
            if s['kind'] != 'stmt' or s['lhs'].p:
                continue
            sl = lib.slice_back(fn, lib.rv_operands(s['rv']), through_calls=True, at=(s['bb'], s['idx']), stop_locals=(p,))
            if not ({'Add', 'AddWithOverflow'} & sl.ops):
                continue
            ctx.evaluations += 1
            step_consts = [v for v in sl.const_vals() if isinstance(v, int)]
            unit = (step_consts == [1] or set(step_consts) == {1}) and not sl.calls and not (sl.locals - {p} - _tmp_chain(fn, sl.locals, p))
            if unit:
                ctx.ok('GUARD-C16c', fn, 'page counter `%s` advances by exactly one result' % fn.local_name(p), line=s['line'])
                continue
            # larger step: must be dominated by a comparison that involves the step itself and the offset
            step_src = {l for l in sl.locals if fn.local_name(l) and l != p} | {id(cc) for cc in sl.calls}
            g = None
            for c, rel in lib.guards_holding_at(fn, s['bb']):
                # form: (counter + step) <rel> offset — the step must sit on the counter's side of the comparison
                for mine, other in ((c.a, c.b), (c.b, c.a)):
                    xm = lib.slice_back(fn, [mine], through_calls=False, at=(c.bb, None), stop_locals=(p,))
                    xo = lib.slice_back(fn, [other], through_calls=True, at=(c.bb, None))
                    involved = {l for l in xm.locals if fn.local_name(l) and l != p} | {id(cc) for cc in xm.calls}
                    if p in xm.locals and pc[0] in xo.calls and (step_src & involved):
                        g = c
            if g is not None:
                ctx.ok('GUARD-C16c', fn, 'page counter `%s` skips a whole group only where the group is shown to lie before the offset (line %s)' % (fn.local_name(p), g.line), line=s['line'])
            else:
                ctx.bad('GUARD-C16c', fn, 'page counter `%s` is advanced by more than one result without a test that the whole step lies before the cursor offset: '
                        'a page boundary inside a document drops the rest of its hits' % fn.local_name(p), line=s['line'], detail='counter-step-unbounded:' + (fn.local_name(p) or '?'))


def _tmp_chain(fn, locals_, p):
    """unnamed temporaries (no user variable name)"""
    return {l for l in locals_ if not fn.local_name(l)}

ENGINES = ('memvid::search::tantivy::try_tantivy_search', 'memvid::search::fallback::search_with_lex_fallback',
           'memvid::search::fallback::search_with_filters_only')
PRODUCERS = ('search_documents', 'compute_matches')


def _budget(ctx, F):
    ctx.rule('FLOW-C16e', 'top_k reaches the sketch candidate budget only through max(_, const) (floor), never through min (cap)')
    fn = ctx.need('FLOW-C16e', 'Memvid::search')
    if fn is None:
        return
    found = 0
    for bb, i, st in fn.stmts():
        rv = st['rv']
        if rv['k'] == 'agg' and 'max_candidates' in (rv.get('fields') or []):
            found += 1
            op = rv['ops'][rv['fields'].index('max_candidates')]
            sl = lib.slice_back(fn, [op], through_calls=True, at=(bb, i))
            ctx.evaluations += 1
            ctx.touch(fn, 1)
            dep = sl.has_field('SearchParams', 'top_k') or sl.has_field('SearchRequest', 'top_k')
            names = {c.name for c in sl.calls}
            if not dep:
                ctx.ok('FLOW-C16e', fn, 'the sketch candidate budget does not depend on the page size', line=st.get('l'))
            elif names & {'min', 'clamp'}:
                ctx.bad('FLOW-C16e', fn, 'the sketch candidate budget is capped by the page size (top_k flows into max_candidates through %s): small pages can never reach candidates that a '
                        'single large request sees' % '/'.join(sorted(names & {'min', 'clamp'})), line=st.get('l'), sink='max_candidates', detail='budget-capped-by-page-size')
            elif 'max' in names and sl.const_vals():
                ctx.ok('FLOW-C16e', fn, 'top_k only raises the sketch candidate budget above a constant floor (max)', line=st.get('l'))
            else:
                ctx.bad('FLOW-C16e', fn, 'the sketch candidate budget follows the page size without a constant floor', line=st.get('l'), sink='max_candidates', detail='budget-follows-page-size')
    if not found:
        ctx.lost('FLOW-C16e', 'Memvid::search: construction of the sketch search options (max_candidates) not found')


def run(ctx):
    _budget(ctx, ctx.facts())
    ctx.rule('FLOW-C16a', 'request.cursor does not flow into total_hits nor into the candidate producer\'s arguments')
    ctx.rule('GUARD-C16c', 'the page counter advances one result at a time (larger steps only under a bound test against the offset)')
    ctx.rule('FLOW-C16b', 'page offset = parse_cursor(request.cursor, total reported)')
    F = ctx.facts()
    n = 0
    for key in ENGINES:
        fn = ctx.need('FLOW-C16a', key)
        if fn is None:
            continue
        ctx.touch(fn, len(fn.blocks))
        aggs = [(bb, i, s) for bb, i, s in fn.stmts() if s['rv']['k'] == 'agg' and s['rv'].get('adt') == 'SearchResponse']
        for bb, i, s in aggs:
            ops = dict(zip(s['rv']['fields'], s['rv']['ops']))
            sl = lib.slice_back(fn, [ops['total_hits']], through_calls=True, at=(bb, i))
            ctx.evaluations += 1
            n += 1
            if sl.has_field('SearchRequest', 'cursor') or sl.has_field('SearchParams', 'cursor'):
                via = sorted({c.name for c in sl.calls if c.name in PRODUCERS + ('parse_cursor', 'parse')})
                ctx.bad('FLOW-C16a', fn, 'total_hits depends on request.cursor (via %s): it differs from page to page' % ', '.join(via),
                        line=s.get('l'), sink='total_hits', detail='cursor-flows-to-total_hits')
            else:
                ctx.ok('FLOW-C16a', fn, 'total_hits is independent of request.cursor', line=s.get('l'))
        for c in fn.calls():
            if c.name in PRODUCERS:
                ctx.evaluations += 1
                sl = lib.slice_back(fn, c.args, through_calls=True, at=(c.bb, None))
                if sl.has_field('SearchRequest', 'cursor') or sl.has_field('SearchParams', 'cursor'):
                    ctx.bad('FLOW-C16a', fn, 'the candidate producer %s is parameterised by request.cursor: different pages rank different candidate lists' % c.name,
                            line=c.line, sink='candidates', detail='cursor-flows-to-producer:' + c.name)
                else:
                    ctx.ok('FLOW-C16a', fn, 'candidate producer %s is independent of request.cursor' % c.name, line=c.line)
        pc = fn.calls_to('parse_cursor')
        if pc:
            s0 = lib.slice_back(fn, pc[0].args[:1], through_calls=True, at=(pc[0].bb, None))
            s1 = lib.slice_back(fn, pc[0].args[1:2], through_calls=False, at=(pc[0].bb, None))
            tot_locals = set()
            for bb, i, s in aggs:
                ops = dict(zip(s['rv']['fields'], s['rv']['ops']))
                tot_locals |= lib.slice_back(fn, [ops['total_hits']], through_calls=False, at=(bb, i)).locals
            if s0.has_field('SearchRequest', 'cursor') and not (s1.locals & tot_locals):
                ctx.bad('FLOW-C16b', fn, 'the cursor is validated against a different total than the one reported as total_hits', line=pc[0].line, detail='parse-cursor-total')
            elif s0.has_field('SearchRequest', 'cursor'):
                ctx.ok('FLOW-C16b', fn, 'page offset = parse_cursor(request.cursor, total)', line=pc[0].line)
            else:
                ctx.bad('FLOW-C16b', fn, 'parse_cursor is not applied to request.cursor', line=pc[0].line, detail='parse-cursor-arg')
        else:
            ctx.bad('FLOW-C16b', fn, 'engine path does not parse the cursor', detail='no-parse-cursor')
        _skip_granularity(ctx, fn)
    ctx.floor('FLOW-C16a', n, 3, 'SearchResponse constructions on the engine paths')
