"""C40 — bulk-ingestion paths are equivalent to plain puts.

Decided:
  FLOW-C40a  in every caller of apply_records the `inserted_embeddings` of the returned IngestionDelta flow, after
             the apply succeeded, into rebuild_indexes / build_vec_artifact (or are stored in self): the embeddings of
             applied records exist nowhere else once the WAL is checkpointed.
  AGREE-C40b the in-band string protocol between EmbeddedWal::append_entry (which rejects with
             CheckpointFailed{reason}) and Memvid::append_wal_entry (whose growth arm matches on `reason`): every
             no-space reason the WAL can produce is matched by the growth arm, and the arm matches only reasons the
             WAL produces. Batch mode with auto-checkpoint disabled depends on growth.
  MPT-C40c   end_batch: every Ok exit has passed a successful flush, the skip_sync reset and batch_opts = None (no order
             among them is demanded: flush syncs unconditionally);
             begin_batch stores the options it was given; commit_skip_indexes_inner and finalize_indexes persist
             TOC + header + sync before Ok (typestate is C03).
  AGREE-C40d the two WAL-growth siblings (grow_wal_region: on-demand growth; ensure_wal_capacity: batch pre-sizing)
             perform the same ordered step sequence: shift the data region while header.wal_size still holds the OLD
             size (the shift computes the start of the data from it), then store wal_size / footer_offset / data_end,
             adjust the TOC offsets, rewrite the TOC, persist the header, sync, reopen the WAL. A sibling that reorders
             the shift behind the wal_size store moves the wrong byte range.
Not decided: equality of frames/timeline/search results between the paths (values)."""
from . import lib
from .facts import Place, op_place

APPLY = 'Memvid::apply_records'
VEC_SINKS = ('Memvid::rebuild_indexes', 'Memvid::build_vec_artifact', 'Memvid::publish_vec_delta', 'Memvid::publish_parallel_delta')


def str_consts(fn, ops_pos):
    """string literals reaching the given operands: [(text)]"""
    out = set()
    for op, pos in ops_pos:
        sl = lib.slice_back(fn, [op], through_calls=True, at=pos)
        for k in sl.consts:
            s = k.get('s')
            if s and s.startswith('const "'):
                s = s[len('const '):]
            if s and len(s) >= 2 and s[0] == '"' and s[-1] == '"':
                out.add(s[1:-1])
    return out


GROWTH_CALLS = ('Memvid::shift_data_for_wal_growth', 'Memvid::adjust_offsets_after_wal_growth', 'Memvid::rewrite_toc_footer', 'persist_header', 'File::sync_all', 'EmbeddedWal::open')
GROWTH_STORES = (('Header', 'wal_size'), ('Memvid', 'data_end'))


def growth_steps(fn):
    """ordered (by dominance) list of the growth protocol's steps in fn"""
    ev = []
    for c in fn.calls():
        if c.is_(GROWTH_CALLS):
            ev.append((c.bb, 10 ** 6, c.key.split('::')[-1], c.line))
    for owner, fld in GROWTH_STORES:
        for st in lib.field_stores(fn, owner, fld):
            if st['lhs'].field_owners()[-1] == (owner, fld):
                ev.append((st['bb'], st['idx'], 'store %s.%s' % (owner, fld), st['line']))
    def before(a, b):
        return (a[0] == b[0] and a[1] < b[1]) or (a[0] != b[0] and fn.dominates(a[0], b[0]))
    return sorted(ev, key=lambda e: sum(1 for o in ev if o is not e and before(o, e)))


def growth_siblings(ctx, F):
    ctx.rule('AGREE-C40d', 'grow_wal_region and ensure_wal_capacity run the same ordered growth steps; the data shift precedes the wal_size store')
    a = ctx.need('AGREE-C40d', 'Memvid::grow_wal_region')
    b = ctx.need('AGREE-C40d', 'Memvid::ensure_wal_capacity')
    if a is None or b is None:
        return
    from .c02 import growth_host
    a, b = growth_host(F, a), growth_host(F, b)     # a tail shared through one private helper agrees with itself
    sa, sb = growth_steps(a), growth_steps(b)
    ctx.touch(a, len(a.blocks))
    ctx.touch(b, len(b.blocks))
    ctx.evaluations += len(sa) + len(sb)
    na, nb = [e[2] for e in sa], [e[2] for e in sb]
    ctx.floor('AGREE-C40d', min(len(na), len(nb)), 4, 'growth steps per sibling')
    if na == nb:
        ctx.ok('AGREE-C40d', b, 'same step sequence in both siblings: ' + ' -> '.join(na))
    else:
        k = next((i for i, (x, y) in enumerate(zip(na, nb)) if x != y), min(len(na), len(nb)))
        ctx.bad('AGREE-C40d', b, 'the growth siblings disagree at step %d: grow_wal_region does [%s], ensure_wal_capacity does [%s]' % (k + 1, ' -> '.join(na), ' -> '.join(nb)),
                line=(sb[k][3] if k < len(sb) else None), detail='growth-sibling-order')
    for fn, seq in ((a, sa), (b, sb)):
        names = [e[2] for e in seq]
        if 'shift_data_for_wal_growth' in names and 'store Header.wal_size' in names:
            if names.index('shift_data_for_wal_growth') < names.index('store Header.wal_size'):
                ctx.ok('AGREE-C40d', fn, 'the data shift runs while header.wal_size still holds the old size')
            else:
                ctx.bad('AGREE-C40d', fn, 'header.wal_size is updated before shift_data_for_wal_growth, which derives the start of the data region from it: the bytes between the old and the new '
                        'WAL end (committed payloads) are not moved', line=seq[names.index('shift_data_for_wal_growth')][3], detail='shift-after-wal-size-store')
        else:
            ctx.lost('AGREE-C40d', '%s: shift / wal_size store not found' % fn.key)


def run(ctx):
    ctx.rule('FLOW-C40a', 'IngestionDelta.inserted_embeddings of every apply_records caller reaches the vector index builder')
    ctx.rule('AGREE-C40b', 'WAL no-space reasons == reasons matched by append_wal_entry\'s growth arm')
    ctx.rule('MPT-C40c', 'batch protocol: end_batch Ok => flushed, skip_sync cleared, batch_opts = None; begin_batch installs the options')
    F = ctx.facts()
    growth_siblings(ctx, F)
    callers = [f for f in F.fns.values() if f.calls_to(APPLY)]
    ctx.floor('FLOW-C40a', len(callers), 3, 'callers of apply_records')
    for fn in callers:
        ctx.touch(fn, len(fn.blocks))
        ap = fn.calls_to(APPLY)[0]
        sinks = [c for c in fn.calls() if c.is_(VEC_SINKS)]
        good = None
        for c in sinks:
            if not lib.call_success_dominates(fn, ap, c.bb):
                continue
            sl = lib.slice_back(fn, c.args[1:], through_calls=True, at=(c.bb, None))
            if ap in sl.calls and (sl.has_field('IngestionDelta', 'inserted_embeddings') or c.is_(('Memvid::publish_vec_delta', 'Memvid::publish_parallel_delta'))):
                good = c
        ctx.evaluations += 1 + len(sinks)
        if good:
            ctx.ok('FLOW-C40a', fn, 'delta.inserted_embeddings -> %s' % good.key.split('::')[-1], line=good.line)
        else:
            ctx.bad('FLOW-C40a', fn, 'the embeddings of the applied records (IngestionDelta.inserted_embeddings) are dropped: they reach neither rebuild_indexes nor '
                    'build_vec_artifact, and the WAL that carried them is checkpointed', line=ap.line, sink='vec_index', detail='delta-embeddings-dropped')
    # ---- C40b
    ae = ctx.need('AGREE-C40b', 'EmbeddedWal::append_entry')
    aw = ctx.need('AGREE-C40b', 'Memvid::append_wal_entry')
    if ae is not None and aw is not None:
        ctx.touch(ae, len(ae.blocks))
        ctx.touch(aw, len(aw.blocks))
        produced = {}
        for e in lib.enum_constructions(ae, 'MemvidError', 'CheckpointFailed'):
            rv = e['rv']
            op = rv['ops'][rv['fields'].index('reason')]
            lits = str_consts(ae, [(op, (e['bb'], e['idx']))])
            # no-space rejections are those decided by a comparison involving region_size / pending_bytes
            nospace = False
            for c, rel in lib.guards_holding_at(ae, e['bb']):
                f = c.sa().fields | c.sb().fields
                if ('EmbeddedWal', 'region_size') in f or ('EmbeddedWal', 'pending_bytes') in f:
                    nospace = True
            for l in lits:
                produced[l] = produced.get(l, False) or nospace
        matched = set()
        # the comparisons may sit in append_wal_entry or in a predicate helper it calls (`is_wal_out_of_space(&err)`)
        hosts = [aw] + [F.fns[c.local_callee] for c in aw.calls() if c.local_callee in F.fns and not F.fns[c.local_callee].is_closure
                        and F.fns[c.local_callee].local_ty(0) == 'bool']
        for h in hosts:
            if h is not aw:
                ctx.touch(h, len(h.blocks))
            for c in h.calls():
                if c.name in ('eq', 'ne') and len(c.args) == 2:
                    matched |= str_consts(h, [(c.args[0], (c.bb, None)), (c.args[1], (c.bb, None))])
        nospace = {l for l, ns in produced.items() if ns}
        ctx.evaluations += len(produced) + len(matched)
        ctx.floor('AGREE-C40b', len(nospace), 2, 'no-space rejection reasons produced by EmbeddedWal::append_entry')
        if not aw.calls_to('Memvid::grow_wal_region'):
            ctx.bad('AGREE-C40b', aw, 'append_wal_entry no longer grows the WAL', detail='no-growth')
        miss = nospace - matched
        extra = matched - set(produced)
        if miss:
            ctx.bad('AGREE-C40b', aw, 'no-space reason(s) %s produced by the WAL are not matched by the growth arm: such appends fail instead of growing the log' % sorted(miss),
                    detail='reason-not-matched:' + '|'.join(sorted(miss)))
        if extra:
            ctx.bad('AGREE-C40b', aw, 'the growth arm matches reason(s) %s that the WAL never produces' % sorted(extra), detail='reason-never-produced:' + '|'.join(sorted(extra)))
        if not miss and not extra:
            ctx.ok('AGREE-C40b', aw, 'growth arm matches exactly the WAL\'s no-space reasons %s' % sorted(nospace))
    # ---- C40c
    eb = ctx.need('MPT-C40c', 'Memvid::end_batch')
    if eb is not None:
        ctx.touch(eb, len(eb.blocks))
        fl = eb.calls_to('EmbeddedWal::flush')
        ss = eb.calls_to('EmbeddedWal::set_skip_sync')
        bo = lib.field_stores(eb, 'Memvid', 'batch_opts')
        # every Ok exit has passed the flush (successfully), the skip_sync reset and the batch_opts = None store; their
        # relative order is immaterial (flush syncs unconditionally), so it is not demanded
        exits = [ex for ex in eb.ok_exits()]
        ok = bool(fl and ss and bo and exits) and \
            all(lib.call_success_dominates(eb, fl[0], ex['bb']) or ex.get('call') is fl[0] for ex in exits) and \
            all(any(eb.dominates(s.bb, ex['bb']) for s in ss) for ex in exits) and \
            all(any(eb.dominates(b['bb'], ex['bb']) for b in bo) for ex in exits) and \
            all('Option::None' in lib.slice_back(eb, lib.rv_operands(b['rv']), through_calls=False).aggs or
                b['rv'].get('variant') == 'None' for b in bo)
        ctx.evaluations += 3
        if ok:
            ctx.ok('MPT-C40c', eb, 'every Ok exit has passed flush(ok), set_skip_sync(false) and batch_opts = None', line=fl[0].line)
        else:
            ctx.bad('MPT-C40c', eb, 'end_batch does not flush before leaving batch mode / does not reset batch_opts', detail='end-batch-protocol')
    bb_ = ctx.need('MPT-C40c', 'Memvid::begin_batch')
    if bb_ is not None:
        ctx.touch(bb_, len(bb_.blocks))
        bo = lib.field_stores(bb_, 'Memvid', 'batch_opts')
        ss = bb_.calls_to('EmbeddedWal::set_skip_sync')
        good = bool(bo) and any(2 in lib.slice_back(bb_, lib.rv_operands(b['rv']), through_calls=False).args for b in bo)
        good2 = bool(ss) and lib.slice_back(bb_, ss[0].args[1:2], through_calls=False).has_field('PutManyOpts', 'skip_sync')
        if good and good2:
            ctx.ok('MPT-C40c', bb_, 'begin_batch installs the caller\'s options and their skip_sync flag')
        else:
            ctx.bad('MPT-C40c', bb_, 'begin_batch does not install the caller\'s options', detail='begin-batch-protocol')
