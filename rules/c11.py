"""C11 — time-travel search never returns frames from the future.

Decided:
  FLOW-C11a (narrowing) in Memvid::search, once the replay set has been folded into the candidate filter, every later
            redefinition of the filter made in the arm where the previous value was `Some(existing)` is data-derived
            from `existing` (the filter can only shrink). The filter variable is found by type + use, not by name.
  MPT-C11b  when as_of_frame / as_of_ts is set, the filter defined at the replay stage derives from
            get_replay_frame_ids in *both* arms; the same filter variable is what all three engine paths receive;
            each engine path uses its candidate_filter parameter as a filter (not dead).
  GUARD-C11c in get_replay_frame_ids a frame id is pushed only via {as_of_frame None edge | frame.id <= cutoff edge}
            and via {as_of_ts None edge | frame.timestamp <= cutoff edge}; the pushed id is frame.id.
  MPT-C11e   in Memvid::search the engines can be reached without get_replay_frame_ids only through the edges that
             establish `as_of_ts is None` and `as_of_frame is None`; any other shortcut around the replay step lets a
             request that carries a cut-off skip it.
  MPT-C11g   the Tantivy engine applies the candidate filter on every request: in the query planner (build_root_query,
             reached from search_documents) every path from entry to an Ok exit passes the test of the frame-filter
             parameter - the filter clause may not hang off the uri/scope chain or any other request-dependent branch.
Not decided: what the engines return beyond honouring the filter (value-level)."""
from . import lib
from .facts import Place, op_place, rv_places as facts_rv_places

FILTER_TY = 'std::option::Option<std::collections::HashSet<u64>>'
ENGINES = ('memvid::search::tantivy::try_tantivy_search', 'memvid::search::fallback::search_with_lex_fallback',
           'memvid::search::fallback::search_with_filters_only')


def run(ctx):
    ctx.rule('FLOW-C11a', 'after the replay stage the candidate filter only narrows: redefinitions in the Some(existing) arm derive from existing')
    ctx.rule('MPT-C11b', 'replay ids reach the filter in both arms; all engine paths receive that filter and use it')
    ctx.rule('GUARD-C11c', 'get_replay_frame_ids pushes frame.id only past the (None | <= cutoff) edges for frame id and timestamp')
    F = ctx.facts()
    fn = ctx.need('FLOW-C11a', 'Memvid::search')
    if fn is not None:
        _search(ctx, F, fn)
    if fn is not None:
        _replay_reached(ctx, F, fn)
    _replay_ids(ctx, F)
    _engines(ctx, F)
    _planner(ctx, F)


def _replay_reached(ctx, F, fn):
    """MPT-C11e: a search engine may run without get_replay_frame_ids only on a path that has *established* that the
    cut-off is absent - i.e. through the false edge of `request.as_of_ts.is_some()` (resp. as_of_frame). Any other way
    around the replay step (a shortcut decided by something else) lets a request that carries a cut-off skip it."""
    ctx.rule('MPT-C11e', 'Memvid::search: engines run without get_replay_frame_ids only past the `as_of_ts is None` and `as_of_frame is None` edges')
    eng = [c for c in fn.calls() if c.is_(ENGINES)]
    rp = fn.calls_to('Memvid::get_replay_frame_ids')
    if not eng or not rp:
        ctx.lost('MPT-C11e', 'Memvid::search: engine calls / get_replay_frame_ids not found')
        return
    for fld in ('as_of_ts', 'as_of_frame'):
        none_edges = set()
        for bs in lib.bool_switches(fn):
            sl = lib.slice_back(fn, [{'c': {'l': bs['local'], 'p': []}}], through_calls=True, at=(bs['bb'], None))
            if sl.has_field('SearchRequest', fld) and any(c.name == 'is_some' for c in sl.calls) and not any(c.name in ('is_some_and', 'map_or', 'is_none_or') for c in sl.calls) and \
                    not (sl.fields - {(o, f) for o, f in sl.fields if f == fld or o != 'SearchRequest'}):
                neg = 'Not' in sl.ops
                none_edges.add((bs['bb'], bs['t_true'] if neg else bs['t_false']))
        for vs in lib.variant_switches(fn):
            if vs.get('enum') == 'Option' and 'None' in vs['arms'] and vs['place'].field_owners() and vs['place'].field_owners()[-1] == ('SearchRequest', fld):
                none_edges.add((vs['bb'], vs['arms']['None']))
        ctx.evaluations += len(eng)
        if not none_edges:
            ctx.lost('MPT-C11e', 'Memvid::search: no test of request.%s being present' % fld)
            continue
        # reachability from entry with the replay call removed and the None-edges cut
        seen, st = set(), [0]
        blocked = {c.bb for c in rp}
        while st:
            b = st.pop()
            if b in seen or b in blocked:
                continue
            seen.add(b)
            for nx in fn.succs(b):
                if (b, nx) not in none_edges:
                    st.append(nx)
        leak = [c for c in eng if c.bb in seen]
        if leak and fld == 'as_of_frame':
            # frame ids are dense and ordered, so a sound shortcut exists (cut-off at or past the newest id): report, do not judge
            ctx.candidate('MPT-C11e', fn, '%s can run without get_replay_frame_ids although request.as_of_frame may be present (sound only if the shortcut proves the cut-off lies at or past '
                          'the newest frame id; not judged statically)' % leak[0].key.split('::')[-1], line=leak[0].line, detail='replay-skipped-with:' + fld)
        elif leak:
            ctx.bad('MPT-C11e', fn, '%s can run without get_replay_frame_ids on a path that never established request.%s to be None: a request carrying that cut-off can skip the '
                    'time-travel filter' % (leak[0].key.split('::')[-1], fld), line=leak[0].line, sink=leak[0].key.split('::')[-1], detail='replay-skipped-with:' + fld)
        else:
            ctx.ok('MPT-C11e', fn, 'engines run without the replay filter only past `request.%s is None`' % fld)


def _search(ctx, F, fn):
    ctx.touch(fn, len(fn.blocks))
    eng_calls = [c for c in fn.calls() if c.is_(ENGINES)]
    ctx.floor('MPT-C11b:engines', len(eng_calls), 3, 'engine calls in Memvid::search')
    # the filter variable: the Option<HashSet<u64>> local every engine's last argument borrows
    fvars = None
    for c in eng_calls:
        sl = lib.slice_back(fn, c.args[-1:], through_calls=True, stop_at_calls=('Option::as_ref',))
        # as_ref(&filter): take the borrow roots
        roots = set()
        for cc in sl.calls:
            if cc.name == 'as_ref':
                p = op_place(cc.args[0])
                if p is not None:
                    roots |= {l for l in lib.root_of(fn, p.l) if fn.local_ty(l) == FILTER_TY}
        fvars = roots if fvars is None else (fvars & roots)
    if not fvars:
        ctx.bad('MPT-C11b', fn, 'the engine paths do not all receive the same candidate filter variable', detail='engines-filter-var')
        return
    fv = sorted(fvars)[0]
    ctx.ok('MPT-C11b', fn, 'all %d engine calls receive `%s` (_%d)' % (len(eng_calls), fn.local_name(fv) or 'filter', fv))
    rep = fn.calls_to('Memvid::get_replay_frame_ids')
    if len(rep) != 1:
        ctx.lost('MPT-C11b', 'Memvid::search must call get_replay_frame_ids exactly once')
        return
    rep = rep[0]
    rsb, _ = fn.success_block(rep)
    # the replay call happens exactly when a cut is requested
    cond_ok = False
    for bs in lib.bool_switches(fn):
        sl = lib.slice_back(fn, [bs['local']], through_calls=True)
        if sl.has_field('SearchRequest', 'as_of_frame') or sl.has_field('SearchRequest', 'as_of_ts'):
            cond_ok = True
    # every definition `fv = …`
    d = lib.defs(fn)
    sites = [s for s in d.get(fv, ()) if s['kind'] == 'stmt' and not s['lhs'].p]
    after = fn.reachable(rsb) if rsb is not None else set()
    # Some(existing) arms: match on fv's discriminant
    some_arms = []
    for vs in lib.variant_switches(fn):
        if vs['enum'] == 'Option' and vs['place'].l == fv and not vs['place'].p and 'Some' in vs['arms']:
            # `existing` = move (fv as Some).0 in the Some arm
            ex_locals = set()
            blk = fn.blocks[vs['arms']['Some']]
            for s in blk['s']:
                if s['rv']['k'] == 'use':
                    p = op_place(s['rv']['a'])
                    if p is not None and p.l == fv and 'Some' in p.downcasts():
                        ex_locals.add(s['lhs']['l'])
            some_arms.append(dict(bb=vs['bb'], arm=vs['arms']['Some'], none=vs['arms'].get('None'), existing=ex_locals, line=vs['line']))
    n_checked = 0
    replay_stage = []
    helper_stage = []
    for s in sites:
        if s['bb'] not in after:
            continue
        # which value is stored? follow `fv = move X` to the Some(..) aggregates defining X
        srcs = _some_sources(fn, s)
        stage_arm = [a for a in some_arms if fn.dominates(a['bb'], s['bb'])]
        nh = _narrowing_call(F, fn, srcs, fv)
        if nh is not None:
            # `filter = Some(narrow(filter, new_set)?)`: the Some/None match lives in a private helper that only narrows
            call, h = nh
            ctx.touch(h, len(h.blocks))
            ctx.evaluations += 2
            n_checked += 2
            ctx.ok('FLOW-C11a', fn, 'filter redefined through %s, which returns the incoming set when there is no filter yet and otherwise a subset derived from the existing one' % h.name, line=s['line'])
            inc = lib.slice_back(fn, call.args[1:2], through_calls=True, at=(call.bb, None), stop_locals=(fv,))
            if rep in inc.calls:
                helper_stage.append(s)
            continue
        if not stage_arm:
            continue
        arm = max(stage_arm, key=lambda a: len(fn.reachable(0)) - len(fn.reachable(a['bb'])))   # innermost
        is_replay_stage = _derives_from_call(fn, srcs, rep, barrier=(fv,))
        if is_replay_stage:
            replay_stage.append((s, srcs, arm))
        for (agg_bb, payload, line) in srcs:
            if payload is None:
                continue
            ctx.evaluations += 1
            n_checked += 1
            in_some = lib.edge_dominates(fn, arm['bb'], arm['arm'], agg_bb)
            sl = lib.slice_back(fn, [payload], through_calls=True, at=(agg_bb, None))
            if in_some:
                if arm['existing'] & sl.locals:
                    ctx.ok('FLOW-C11a', fn, 'filter redefined in the Some(existing) arm from a value derived from `existing`', line=line)
                else:
                    what = ', '.join(sorted({c.key for c in sl.calls if c.local_callee})[:3]) or 'an independent set'
                    ctx.bad('FLOW-C11a', fn, 'after the replay cut the candidate filter is replaced, in the Some(existing) arm, by a set not derived from '
                            '`existing` (derived from %s): frames outside the time-travel view can be returned' % what, line=line,
                            sink='candidate_filter', detail='filter-widened-in-some-arm:' + ('replay-stage' if is_replay_stage else 'post-replay'))
            else:
                # None arm: at the replay stage the new set must be the replay set
                if is_replay_stage:
                    ctx.ok('FLOW-C11a', fn, 'None arm at the replay stage installs the replay set', line=line)
    ctx.floor('FLOW-C11a', n_checked, 2, 'filter redefinitions after the replay call')
    # C11b: replay stage covers both arms
    if helper_stage and not replay_stage:
        store_bbs = {s['bb'] for s in helper_stage}
        ctx.ok('MPT-C11b', fn, 'replay stage: the set derived from get_replay_frame_ids is the incoming set of the narrowing helper in both of its arms', line=helper_stage[0]['line'])
        for c in eng_calls:
            ctx.evaluations += 1
            if rsb is not None and c.bb in fn.reachable(rsb, avoid=store_bbs):
                ctx.bad('MPT-C11b', fn, 'engine call %s reachable from the replay stage without the filter being updated' % c.key, line=c.line, detail='replay-bypass:' + c.key)
            else:
                ctx.ok('MPT-C11b', fn, 'engine call %s is reached from the replay stage only through the filter update' % c.key.split('::')[-1], line=c.line)
    elif not replay_stage:
        ctx.bad('MPT-C11b', fn, 'the ids returned by get_replay_frame_ids never reach the candidate filter', line=rep.line, detail='replay-not-in-filter')
    else:
        for s, srcs, arm in replay_stage:
            somes = [x for x in srcs if x[1] is not None]
            allrep = all(rep in lib.slice_back(fn, [p], through_calls=True, at=(b_, None)).calls for b_, p, _ in somes)
            ctx.evaluations += 1
            if somes and allrep and len(somes) >= 2:
                ctx.ok('MPT-C11b', fn, 'replay stage: every arm stores a set derived from get_replay_frame_ids (%d arms)' % len(somes), line=s['line'])
            else:
                ctx.bad('MPT-C11b', fn, 'replay stage: an arm stores a filter that does not derive from get_replay_frame_ids', line=s['line'], detail='replay-arm-missing')
        # no path from the replay success to an engine call bypasses the store
        store_bbs = {s['bb'] for s, _, _ in replay_stage}
        for c in eng_calls:
            ctx.evaluations += 1
            if rsb is not None and c.bb in fn.reachable(rsb, avoid=store_bbs):
                # allowed only through early empty returns; an engine call reached without the store is a bypass
                ctx.bad('MPT-C11b', fn, 'engine call %s reachable from the replay stage without the filter being updated' % c.key, line=c.line, detail='replay-bypass:' + c.key)
            else:
                ctx.ok('MPT-C11b', fn, 'engine call %s is reached from the replay stage only through the filter update' % c.key.split('::')[-1], line=c.line)
    # the replay stage is entered whenever a cut is requested: the call is dominated only by tests of as_of_*
    if cond_ok:
        ctx.ok('MPT-C11b', fn, 'replay stage is conditioned on request.as_of_frame / as_of_ts', line=rep.line)
    else:
        ctx.bad('MPT-C11b', fn, 'no test of as_of_frame/as_of_ts guards the replay stage', line=rep.line, detail='replay-condition')
    # and no test other than as_of_* / emptiness stands between entry and the replay call
    for bs in lib.bool_switches(fn):
        for tgt in (bs['t_true'], bs['t_false']):
            if lib.edge_dominates(fn, bs['bb'], tgt, rep.bb):
                sl = lib.slice_back(fn, [bs['local']], through_calls=True)
                reqf = {f for o, f in sl.fields if o == 'SearchRequest'}
                if reqf - {'as_of_frame', 'as_of_ts', 'query'} and not (reqf & {'as_of_frame', 'as_of_ts'}):
                    ctx.bad('MPT-C11b', fn, 'the replay stage is skipped depending on request.%s' % sorted(reqf), line=bs['line'], detail='replay-skipped-on:' + ','.join(sorted(reqf)))


def _narrowing_call(F, fn, srcs, fv):
    """the Some(payload) stored into the filter comes from a call H(old filter, incoming) of a local helper that only narrows:
    in H every returned Some(x) is, on the Some(existing) arm of its first parameter, derived from `existing`, and elsewhere derived
    from its second parameter. Returns (call, H) or None."""
    for bb_, payload, _ in srcs:
        if payload is None:
            continue
        sl = lib.slice_back(fn, [payload], through_calls=True, at=(bb_, None), stop_locals=(fv,))
        for c in sl.calls:
            h = F.fns.get(c.local_callee) if c.local_callee else None
            if h is None or h.is_closure or h.r['argc'] != 2 or h.local_ty(1) != FILTER_TY or h.local_ty(0) != FILTER_TY or 'HashSet<u64>' not in h.local_ty(2):
                continue
            if fv not in (lib.slice_back(fn, c.args[:1], through_calls=False, at=(c.bb, None)).locals | {op_place(c.args[0]).l if op_place(c.args[0]) is not None else -1}):
                continue
            arms = [vs for vs in lib.variant_switches(h) if vs['enum'] == 'Option' and vs['place'].l == 1 and 'Some' in vs['arms']]
            if len(arms) != 1:
                continue
            vs = arms[0]
            existing = set()
            for b in h.reachable(vs['arms']['Some']):
                for st in h.blocks[b]['s']:
                    if st['rv']['k'] == 'use':
                        q = op_place(st['rv']['a'])
                        if q is not None and q.l == 1 and 'Some' in q.downcasts():
                            existing.add(st['lhs']['l'])
            good, n = True, 0
            for b2, i2, st in h.stmts():
                rv = st['rv']
                if rv['k'] == 'agg' and rv.get('adt') == 'Option' and rv.get('variant') == 'Some' and FILTER_TY == h.local_ty(st['lhs']['l']):
                    n += 1
                    ps = lib.slice_back(h, rv['ops'][:1], through_calls=True, at=(b2, i2))
                    if lib.edge_dominates(h, vs['bb'], vs['arms']['Some'], b2):
                        good = good and bool(existing & ps.locals)
                    else:
                        good = good and 2 in ps.args and 1 not in ps.args
            if good and n >= 2 and existing:
                return c, h
    return None


def _some_sources(fn, site):
    """for `fv = move X` return [(bb of the aggregate, payload operand | None for Option::None, line)] over X's definitions"""
    out = []
    rv = site['rv']
    d = lib.defs(fn)
    work = []
    if rv['k'] == 'agg':
        work.append(site)
    elif rv['k'] == 'use':
        p = op_place(rv['a'])
        if p is not None and not p.p:
            work += [s for s in d.get(p.l, ()) if s['kind'] == 'stmt']
    seen = set()
    while work:
        s = work.pop()
        key = (s['bb'], s['idx'])
        if key in seen:
            continue
        seen.add(key)
        r = s['rv']
        if r['k'] == 'agg' and r.get('adt') == 'Option':
            out.append((s['bb'], r['ops'][0] if r['variant'] == 'Some' else None, s['line']))
        elif r['k'] == 'use':
            p = op_place(r['a'])
            if p is not None and not p.p:
                work += [x for x in d.get(p.l, ()) if x['kind'] == 'stmt']
    return out


def _derives_from_call(fn, srcs, call, barrier=()):
    for bb_, payload, _ in srcs:
        if payload is not None:
            sl = lib.slice_back(fn, [payload], through_calls=True, at=(bb_, None), stop_at_calls=('Memvid::get_replay_frame_ids',), stop_locals=barrier)
            # the replay call itself must be the *direct* producer (not reached through an older filter value)
            if call in sl.calls:
                return True
    return False


def _replay_ids(ctx, F):
    fn = ctx.need('GUARD-C11c', 'Memvid::get_replay_frame_ids')
    if fn is None:
        return
    ctx.touch(fn, len(fn.blocks))
    pushes = [c for c in fn.calls() if c.is_('Vec::push')]
    # a binary search over toc.frames is only sound on the key the vector is sorted by (the id): flag any other key
    for c in fn.calls():
        if c.name in ('partition_point', 'binary_search_by', 'binary_search_by_key'):
            sl = lib.slice_back(fn, c.args, through_calls=True)
            if sl.has_field('Toc', 'frames'):
                for cdef in sl.closures:
                    cl = F.fns.get(cdef)
                    if cl is None:
                        continue
                    read = {f for bb, i, s in cl.stmts() for p in facts_rv_places(s["rv"]) for o, f in p.field_owners() if o == 'Frame'}
                    if read - {'id'}:
                        ctx.bad('GUARD-C11c', fn, '%s over toc.frames keyed by Frame.%s: frames are ordered by id only, so the cut-off is not applied to every frame'
                                % (c.name, ','.join(sorted(read - {'id'}))), line=c.line, detail='binary-search-on-unsorted-key:' + ','.join(sorted(read - {'id'})))
    if not pushes and _replay_ids_chain(ctx, F, fn):
        return
    if not ctx.floor('GUARD-C11c', len(pushes), 1, 'push of a matching id'):
        return
    cmps = lib.comparisons(fn)
    for axis, reqf, framef in (('frame id', 'as_of_frame', 'id'), ('timestamp', 'as_of_ts', 'timestamp')):
        cut = set()
        found_cmp = False
        for c in cmps:
            a, b = c.sa(), c.sb()
            for x, y, flip in ((a, b, False), (b, a, True)):
                if x.has_field('Frame', framef) and y.has_field('SearchRequest', reqf):
                    found_cmp = True
                    arith = (x.ops | y.ops) & {'Add', 'AddWithOverflow', 'Sub', 'SubWithOverflow', 'Mul', 'MulWithOverflow', 'Div', 'Shl', 'Shr'} or \
                        any(cc.name in ('saturating_add', 'saturating_sub', 'wrapping_add', 'wrapping_sub', 'checked_add', 'checked_sub') for cc in (list(x.calls) + list(y.calls)))
                    if arith:
                        ctx.bad('GUARD-C11c', fn, 'the %s cut-off is not compared as given: frame.%s or request.%s is shifted by arithmetic before the comparison' % (axis, framef, reqf),
                                line=c.line, detail='cutoff-shifted:' + reqf)
                        continue
                    for tgt, rel in c.edges():
                        r = lib.FLIP[rel] if flip else rel
                        if r in ('<=', '<', '=='):       # frame.field <= cutoff holds on this edge
                            cut.add((c.bb, tgt))
        for vs in lib.variant_switches(fn):
            if vs['enum'] == 'Option' and lib.slice_back(fn, [vs['place']], through_calls=False).has_field('SearchRequest', reqf) and 'None' in vs['arms']:
                cut.add((vs['bb'], vs['arms']['None']))
        for p in pushes:
            ctx.evaluations += 1
            if not found_cmp:
                ctx.bad('GUARD-C11c', fn, 'no per-frame comparison of frame.%s with request.%s' % (framef, reqf), line=p.line, detail='no-cutoff-cmp:' + reqf)
            elif lib.reachable_without_edges(fn, p.bb, cut):
                ctx.bad('GUARD-C11c', fn, 'a frame id can be pushed without passing `frame.%s <= %s` (or %s being None)' % (framef, reqf, reqf), line=p.line, detail='cutoff-bypass:' + reqf)
            else:
                ctx.ok('GUARD-C11c', fn, 'id pushed only past (%s None | frame.%s <= cutoff)' % (reqf, framef), line=p.line)
    for p in pushes:
        sl = lib.slice_back(fn, p.args[1:2], through_calls=False)
        if sl.has_field('Frame', 'id') and not sl.ops:
            ctx.ok('GUARD-C11c', fn, 'the value pushed is frame.id', line=p.line)
        else:
            ctx.bad('GUARD-C11c', fn, 'the value pushed is not frame.id', line=p.line, detail='pushed-value')
    # the result is the pushed vector
    for ex in fn.ok_exits():
        if ex['kind'] == 'ok':
            sl = lib.slice_back(fn, ex['rv']['ops'], through_calls=False)
            roots = set()
            for p in pushes:
                roots |= lib.root_of(fn, op_place(p.args[0]).l)
            if not (roots & sl.locals):
                ctx.bad('GUARD-C11c', fn, 'returned vector is not the filtered one', line=ex['line'], detail='returned-vector')


def _replay_ids_chain(ctx, F, fn):
    """iterator form of the same filter: toc.frames.iter().filter(..)...map(|f| f.id).collect(). Per axis a filter closure of the
    chain must return `request.<cutoff>.is_none_or(|c| frame.<field> <= c)` (or map_or(true, ..)): None admits, Some(c) admits
    only frame.field <= c. Returns False when the function is not of this form (the caller then reports the lost anchor)."""
    col = [c for c in fn.calls() if c.name == 'collect']
    if len(col) != 1:
        return False
    chain = lib.slice_back(fn, col[0].args[:1], through_calls=True, at=(col[0].bb, None))
    if not chain.has_field('Toc', 'frames'):
        return False
    filt, maps = [], []
    for c in chain.calls:
        if c.name in ('filter', 'map') and len(c.args) > 1:
            for cp in lib.slice_back(fn, c.args[1:2], through_calls=False, at=(c.bb, None)).closures:
                if cp in F.fns:
                    (filt if c.name == 'filter' else maps).append(F.fns[cp])
    if not filt or any(c.name in ('filter_map', 'flat_map', 'take', 'skip', 'take_while', 'skip_while', 'step_by') for c in chain.calls):
        return False

    def single_cmp(cl):
        outs = [(bb, i, st) for bb, i, st in cl.stmts() if st['lhs']['l'] == 0 and not st['lhs'].get('p')]
        if len(outs) != 1 or outs[0][2]['rv']['k'] != 'bin':
            return None
        bb, i, st = outs[0]
        return st['rv']['op'], lib.slice_back(cl, [st['rv']['a']], through_calls=False, at=(bb, i)), lib.slice_back(cl, [st['rv']['b']], through_calls=False, at=(bb, i)), st.get('l')

    for axis, reqf, framef in (('frame id', 'as_of_frame', 'id'), ('timestamp', 'as_of_ts', 'timestamp')):
        ctx.evaluations += len(filt)
        verdict = None
        for cl in filt:
            ctx.touch(cl, len(cl.blocks))
            for x in cl.calls():
                if x.name not in ('is_none_or', 'map_or') or not x.args:
                    continue
                if not lib.slice_back(cl, x.args[:1], through_calls=False, at=(x.bb, None)).has_field('SearchRequest', reqf):
                    continue
                inner_arg = x.args[1] if x.name == 'is_none_or' else (x.args[2] if len(x.args) > 2 else None)
                if x.name == 'map_or' and not (x.args[1].get('k', {}).get('v') is True):
                    verdict = ('bad', x.line, 'a request without %s does not admit every frame (map_or default is not true)' % reqf, 'cutoff-none-rejects:' + reqf)
                    continue
                if x.dest is None or x.dest.l != 0 or x.dest.p:
                    verdict = verdict or ('lost', x.line, 'the result of %s is post-processed before it is returned' % x.name, None)
                    continue
                inner = [F.fns[q] for q in lib.slice_back(cl, [inner_arg], through_calls=False, at=(x.bb, None)).closures if q in F.fns] if inner_arg is not None else []
                cm = single_cmp(inner[0]) if len(inner) == 1 else None
                if cm is None:
                    verdict = verdict or ('lost', x.line, 'the per-frame predicate of %s is not a single comparison' % reqf, None)
                    continue
                op, a, b, line = cm
                ctx.touch(inner[0], 1)
                fa, fb = a.has_field('Frame', framef), b.has_field('Frame', framef)
                pa, pb = 2 in a.args, 2 in b.args
                arith = (a.ops | b.ops) or any(cc.name.startswith(('saturating_', 'wrapping_', 'checked_')) for cc in list(a.calls) + list(b.calls))
                if arith:
                    verdict = ('bad', line, 'the %s cut-off is not compared as given: frame.%s or the cut-off is shifted by arithmetic before the comparison' % (axis, framef), 'cutoff-shifted:' + reqf)
                elif (fa and pb and op in ('Le', 'Lt', 'Eq')) or (fb and pa and op in ('Ge', 'Gt', 'Eq')):
                    verdict = ('ok', line, 'chain admits a frame only when %s is None or frame.%s <= cutoff' % (reqf, framef), None)
                else:
                    verdict = ('bad', line, 'a frame id can be collected without passing `frame.%s <= %s`' % (framef, reqf), 'cutoff-bypass:' + reqf)
        if verdict is None:
            ctx.bad('GUARD-C11c', fn, 'no per-frame comparison of frame.%s with request.%s' % (framef, reqf), line=col[0].line, detail='no-cutoff-cmp:' + reqf)
        elif verdict[0] == 'ok':
            ctx.ok('GUARD-C11c', fn, verdict[2], line=verdict[1])
        elif verdict[0] == 'bad':
            ctx.bad('GUARD-C11c', fn, verdict[2], line=verdict[1], detail=verdict[3])
        else:
            ctx.lost('GUARD-C11c', 'get_replay_frame_ids (iterator form): ' + verdict[2])
    okmap = len(maps) == 1 and any(st['lhs']['l'] == 0 and lib.slice_back(maps[0], lib.rv_operands(st['rv']), through_calls=False, at=(bb, i)).has_field('Frame', 'id')
                                   and not lib.slice_back(maps[0], lib.rv_operands(st['rv']), through_calls=False, at=(bb, i)).ops for bb, i, st in maps[0].stmts())
    if okmap:
        ctx.ok('GUARD-C11c', fn, 'the value collected is frame.id', line=col[0].line)
    else:
        ctx.bad('GUARD-C11c', fn, 'the value collected is not frame.id', line=col[0].line, detail='pushed-value')
    for ex in fn.ok_exits():
        if ex['kind'] == 'ok' and col[0] not in lib.slice_back(fn, ex['rv']['ops'], through_calls=False).calls:
            ctx.bad('GUARD-C11c', fn, 'returned vector is not the filtered one', line=ex['line'], detail='returned-vector')
    return True


def _option_filter_tests(F, fn, pi):
    """calls `filter.is_some_and(cl)` / `filter.is_none_or(cl)` on the Option<&HashSet> parameter pi whose closure tests
    `set.contains(..)` on its own parameter. Returns [(call, admitted_when_true)]: is_none_or(|s| s.contains(x)) is true exactly when
    the frame is admitted (no filter, or member); is_some_and(|s| !s.contains(x)) is true exactly when it is excluded."""
    out = []
    for c in fn.calls():
        if c.name not in ('is_some_and', 'is_none_or') or len(c.args) < 2:
            continue
        if pi not in lib.slice_back(fn, c.args[:1], through_calls=True, at=(c.bb, None)).args:
            continue
        cls = [F.fns[q] for q in lib.slice_back(fn, c.args[1:2], through_calls=False, at=(c.bb, None)).closures if q in F.fns]
        if len(cls) != 1:
            continue
        cl = cls[0]
        outs = [(bb, i, st) for bb, i, st in cl.stmts() if st['lhs']['l'] == 0 and not st['lhs'].get('p')]
        rets = [x for x in cl.calls() if x.dest is not None and x.dest.l == 0 and not x.dest.p]
        sl = None
        if len(outs) == 1 and not rets:
            sl = lib.slice_back(cl, lib.rv_operands(outs[0][2]['rv']), through_calls=True, at=(outs[0][0], outs[0][1]))
            neg = ('Not' in sl.ops) != (outs[0][2]['rv'].get('k') == 'un' and outs[0][2]['rv'].get('op') == 'Not' and 'Not' not in sl.ops)
            neg = 'Not' in sl.ops or (outs[0][2]['rv'].get('k') == 'un' and outs[0][2]['rv'].get('op') == 'Not')
            cons = [x for x in sl.calls if x.name == 'contains']
        elif len(rets) == 1 and not outs and rets[0].name == 'contains':
            neg, cons = False, rets
        else:
            continue
        if len(cons) != 1 or 2 not in lib.slice_back(cl, cons[0].args[:1], through_calls=True, at=(cons[0].bb, None)).args:
            continue
        if c.name == 'is_none_or' and not neg:
            out.append((c, True))
        elif c.name == 'is_some_and' and neg:
            out.append((c, False))
    return out


def _planner(ctx, F):
    ctx.rule('MPT-C11g', 'Tantivy query planner: the frame-filter parameter is tested on every path to an Ok exit (not only when uri/scope are absent)')
    cands = [f for f in F.fns.values() if f.name == 'build_root_query' and not f.is_closure and any('[u64]' in f.local_ty(i) and 'Option' in f.local_ty(i) for i in range(1, f.r['argc'] + 1))]
    if not cands:
        ctx.lost('MPT-C11g', 'build_root_query(.., frame_filter: Option<&[u64]>) not found')
        return
    n = 0
    for f in sorted(cands, key=lambda x: x.path):
        pi = [i for i in range(1, f.r['argc'] + 1) if '[u64]' in f.local_ty(i) and 'Option' in f.local_ty(i)][0]
        ctx.touch(f, len(f.blocks))
        # a pure forwarder (free function -> method) is decided at its callee
        fw = [c for c in f.calls() if c.local_callee in {x.path for x in cands} and c.local_callee != f.path]
        if fw and all(pi in lib.slice_back(f, c.args, through_calls=False, at=(c.bb, None)).args for c in fw):
            ctx.ok('MPT-C11g', f, 'forwards the frame filter to %s' % fw[0].key.split('::')[-1], line=fw[0].line)
            continue
        tests = set()
        for vs in lib.variant_switches(f):
            if vs['enum'] == 'Option' and vs['place'].l == pi:
                tests.add(vs['bb'])
        for bs in lib.bool_switches(f):
            sl = lib.slice_back(f, [bs['local']], through_calls=True)
            if pi in sl.args and any(c.name in ('is_some', 'is_none') for c in sl.calls):
                tests.add(bs['bb'])
        n += 1
        ctx.evaluations += 1
        exits = {ex['bb'] for ex in f.ok_exits()}
        if not tests:
            ctx.bad('MPT-C11g', f, 'the frame-filter parameter is never tested: the candidate filter of the search (time-travel view, date range) is not applied by the Tantivy engine', detail='planner-ignores-filter')
        elif f.reachable(0, avoid=tests) & exits:
            ctx.bad('MPT-C11g', f, 'an Ok exit is reachable without testing the frame-filter parameter: for some requests (e.g. with uri or scope set) the Tantivy engine ignores the candidate '
                    'filter, so frames outside the time-travel view are returned', line=f.blocks[sorted(tests)[0]]['t'].get('l'), sink='frame_filter', detail='planner-filter-conditional')
        else:
            ctx.ok('MPT-C11g', f, 'every Ok path tests the frame filter')
    ctx.floor('MPT-C11g', n, 1, 'query planners taking a frame filter')


def _engines(ctx, F):
    for key in ENGINES:
        fn = ctx.need('MPT-C11b', key)
        if fn is None:
            continue
        ctx.touch(fn, len(fn.blocks))
        params = [i for i in range(1, fn.r['argc'] + 1) if 'HashSet<u64>' in fn.local_ty(i)]
        if len(params) != 1:
            ctx.lost('MPT-C11b', '%s: candidate_filter parameter not found' % key)
            continue
        pi = params[0]
        used = []
        bodies = [fn] + F.closures_of(fn)
        for b in bodies:
            for c in b.calls():
                if c.name == 'contains' and 'HashSet' in (c.callee or ''):
                    sl = lib.slice_back(b, c.args[:1], through_calls=True)
                    if (b is fn and pi in sl.args) or (b is not fn and any(o == '{closure}' for o, f in sl.fields)):
                        used.append('contains@%s' % c.line)
                if c.is_('TantivyEngine::search_documents') or c.name == 'search_documents':
                    for a in c.args:
                        if pi in lib.slice_back(b, [a], through_calls=True).args and b is fn:
                            used.append('search_documents@%s' % c.line)
                            break
        opt_tests = _option_filter_tests(F, fn, pi)
        used += ['%s@%s' % (c.name, c.line) for c, adm in opt_tests]
        # forwarded to another engine counts for that call only; there must be a real use too
        ctx.evaluations += len(bodies)
        if used:
            ctx.ok('MPT-C11b', fn, 'candidate_filter parameter is used as a filter (%s)' % ', '.join(sorted(set(used))))
        else:
            ctx.bad('MPT-C11b', fn, 'candidate_filter parameter is never used to restrict candidates (dead parameter)', detail='dead-filter-param')
        # lex fallback: evaluated.push only past (filter None | contains true)
        if key.endswith('search_with_lex_fallback'):
            cut = set()
            for vs in lib.variant_switches(fn):
                if vs['enum'] == 'Option' and vs['place'].l == pi and 'None' in vs['arms']:
                    cut.add((vs['bb'], vs['arms']['None']))
            for bs in lib.bool_switches(fn):
                sl = lib.slice_back(fn, [bs['local']], through_calls=True)
                if any(c.name == 'contains' for c in sl.calls) and pi in sl.args:
                    neg = 'Not' in sl.ops
                    cut.add((bs['bb'], bs['t_false'] if neg else bs['t_true']))
                # `filter.is_some_and(|f| !f.contains(id))` (excluded) / `filter.is_none_or(|f| f.contains(id))` (admitted)
                for oc, admitted_when_true in opt_tests:
                    if oc in sl.calls:
                        adm_true = admitted_when_true != ('Not' in sl.ops)
                        cut.add((bs['bb'], bs['t_true'] if adm_true else bs['t_false']))
            pushes = [c for c in fn.calls() if c.is_('Vec::push') and lib.slice_back(fn, c.args[1:2], through_calls=False).calls_matching('compute_snippet_slices')]
            for p in pushes:
                ctx.evaluations += 1
                if cut and not lib.reachable_without_edges(fn, p.bb, cut):
                    ctx.ok('MPT-C11b', fn, 'a match is kept only past (filter None | filter.contains(frame_id))', line=p.line)
                else:
                    ctx.bad('MPT-C11b', fn, 'a match can be kept without the candidate filter test', line=p.line, detail='filter-bypass')
