"""C25 — tickets: strictly increasing sequence, authentic signatures only, rejection leaves no trace.

Decided (structural clauses, all paths of the two ticket entry points):
  GUARD-C25a  every mutation of the memory's state in apply_ticket / apply_signed_ticket is dominated by the
              edge on which `ticket.seq_no > toc.ticket_ref.seq_no` holds (strict).
  MPT-C25b    in apply_signed_ticket every mutation is also dominated by the success edge of
              verify_ticket_signature, by the memory-id equality edge and by the binding-presence success;
              the verifying key derives from MEMVID_TICKET_PUBKEY.
  FLOW-C25c   the arguments of verify_ticket_signature are the ticket's own fields, in parameter order, and
              every ticket field that is stored into ticket_ref is among them; verify_ticket_signature signs
              what ticket_message_bytes serialises, and that function serialises every parameter.
  MPT-C25d    (rejection leaves no trace) is the same dominance fact as a/b applied to *every* store through
              self and every `&mut self…` call except ensure_writable; plus persistence: Ok is reached only
              through rewrite_toc_footer -> persist_header -> sync_all.
  WMC-C25e    the only writers of TicketRef.seq_no in the crate are the two entry points (+ reviewed table).
  MPT-C25f    callers of the ticket entry points inherit "rejection leaves no trace": in every function that calls
              apply_ticket / apply_signed_ticket (bind_memory, ...), no store to the persisted state (Memvid.toc.*,
              header) can be followed by that call - the ticket may still be rejected, and the store would survive
              the rejection (and be persisted by the next ordinary commit).
Not decided: the behaviour over histories (values), Ed25519 itself (external crate)."""
from . import lib
from .facts import Place, op_place

ENTRY = ['Memvid::apply_ticket', 'Memvid::apply_signed_ticket']
TICKET_TY = {'Memvid::apply_ticket': 'Ticket', 'Memvid::apply_signed_ticket': 'SignedTicket'}
ALLOW_BEFORE_GUARD = ('Memvid::ensure_writable',)

# reviewed writers of TicketRef.seq_no other than the two entry points (key -> reason)
SEQ_WRITER_TABLE = {
    'Memvid::unbind_memory': 'documented reset to the free tier; outside the property\'s history alphabet',
    'empty_toc': 'initial TOC of a new file',
}

VERIFY_PARAM_FIELDS = [  # argument index of verify_ticket_signature -> SignedTicket field it must carry
    (1, 'memory_id'), (2, 'issuer'), (3, 'seq_no'), (4, 'expires_in_secs'), (5, 'capacity_bytes'), (6, 'signature')]


def _callers_leave_no_trace(ctx, F):
    ctx.rule('MPT-C25f', 'callers of apply_ticket/apply_signed_ticket do not store persisted state before the (fallible) ticket call')
    n = 0
    for fn in sorted(F.fns.values(), key=lambda x: x.path):
        if fn.key in ENTRY or fn.is_closure:
            continue
        calls = [c for c in fn.calls() if c.is_(tuple(ENTRY))]
        if not calls:
            continue
        n += 1
        ctx.touch(fn, len(fn.blocks))
        stores = [st for st in lib.field_stores(fn) if st['lhs'].field_owners() and st['lhs'].field_owners()[0] in (('Memvid', 'toc'), ('Memvid', 'header'))]
        for c in calls:
            ctx.evaluations += 1
            early = [st for st in stores if c.bb in fn.reachable(st['bb'])]
            if early:
                fo = early[0]['lhs'].field_owners()
                ctx.bad('MPT-C25f', fn, '%s is stored before the call of %s, which can still reject the ticket: the store survives the rejection and the next commit persists it' % (
                    '.'.join(f for o, f in fo), c.key.split('::')[-1]), line=early[0]['line'], sink='.'.join(f for o, f in fo), detail='state-stored-before-ticket-check:' + fo[-1][1])
            else:
                ctx.ok('MPT-C25f', fn, 'no persisted state is stored before %s' % c.key.split('::')[-1], line=c.line)
    ctx.floor('MPT-C25f', n, 1, 'callers of the ticket entry points')


def run(ctx):
    _callers_leave_no_trace(ctx, ctx.facts())
    ctx.rule('GUARD-C25a', 'every state mutation in apply_ticket/apply_signed_ticket is dominated by the strict edge ticket.seq_no > ticket_ref.seq_no')
    ctx.rule('MPT-C25b', 'in apply_signed_ticket every mutation is dominated by verify_ticket_signature success, memory-id equality, binding presence; key from MEMVID_TICKET_PUBKEY')
    ctx.rule('FLOW-C25c', 'verify_ticket_signature receives the ticket fields in parameter order; stored fields are signed; message serialises every parameter')
    ctx.rule('MPT-C25d', 'Ok-return only through rewrite_toc_footer -> persist_header -> File::sync_all (persistence); no mutation before the guards (no trace on rejection)')
    ctx.rule('WMC-C25e', 'writers of TicketRef.seq_no are the two entry points plus a reviewed table')
    F = ctx.facts()
    for key in ENTRY:
        fn = ctx.need('GUARD-C25a', key)
        if fn is None:
            continue
        tty = TICKET_TY[key]
        ctx.touch(fn, len(fn.blocks))
        muts = lib.self_mutations(fn, 1, allow_calls=ALLOW_BEFORE_GUARD)
        tr_stores = [m for m in muts if any(o == 'TicketRef' for o, f in m['fields'])]
        inst = None if tr_stores else _installer(F, fn)
        if inst is not None:
            # the accepting tail (stores + persistence) extracted into a private method only the entry points call: the call is the
            # mutation the guards must dominate; the stores and the persistence chain are decided inside the helper
            icall, h = inst
            ctx.touch(h, len(h.blocks))
            hm = lib.self_mutations(h, 1)
            tr_stores = [m for m in hm if any(o == 'TicketRef' for o, f in m['fields'])]
            n_muts = len(muts) + len(hm)
        else:
            n_muts = len(muts)
        if not ctx.floor('GUARD-C25a:' + fn.name, len(tr_stores), 2, 'stores to TicketRef fields in %s' % key):
            continue
        ctx.floor('MPT-C25d:' + fn.name, n_muts, 4, 'state mutation points in %s' % key)
        # --- C25a: strict sequence guard dominates every mutation
        for m in muts:
            g = lib.find_guard(fn, m['bb'], '>',
                               lambda s: s.has_field(tty, 'seq_no'),
                               lambda s: s.has_field('TicketRef', 'seq_no') and 1 in s.args)
            ctx.evaluations += 1
            if g is None:
                ctx.bad('GUARD-C25a', fn, '%s is not dominated by an edge establishing ticket.seq_no > ticket_ref.seq_no' % m['what'],
                        line=m['line'], detail='unguarded:' + _mkey(m), sink='seq_no')
            else:
                ctx.ok('GUARD-C25a', fn, '%s dominated by strict sequence guard at line %s' % (m['what'], g.line), line=m['line'])
        # --- C25d persistence chain
        if inst is not None and not fn.calls_to('Memvid::rewrite_toc_footer'):
            icall, h = inst
            if all(ex.get('call') is icall or lib.call_success_dominates(fn, icall, ex['bb']) for ex in fn.ok_exits()):
                _persist_chain(ctx, h)
            else:
                ctx.bad('MPT-C25d', fn, 'an Ok exit does not pass the helper that persists the ticket', detail='persist-chain')
        else:
            _persist_chain(ctx, fn)
        if key.endswith('apply_signed_ticket'):
            _signed(ctx, fn, muts, inst)
    _signature_fn(ctx)
    _writers(ctx, F)


def _callers(F, h):
    out = set()
    for f in F.fns.values():
        if any(c.local_callee == h.path for c in f.calls()):
            out.add(f.key if not f.is_closure else f.path)
    return out


def _installer(F, fn):
    """(call, helper) when fn hands the accepted ticket to a private Memvid method that stores the TicketRef fields and that only
    the ticket entry points call"""
    for c in fn.calls():
        h = F.fns.get(c.local_callee) if c.local_callee else None
        if h is None or h.is_closure or not (h.r.get('impl_self') or '').endswith('::Memvid'):
            continue
        if lib.field_stores(h, 'TicketRef') and _callers(F, h) <= set(ENTRY):
            return c, h
    return None


def _mkey(m):
    if m['kind'] == 'call':
        return 'call ' + m['call'].callee
    return 'store ' + '.'.join(f for _, f in m['fields'])


def _persist_chain(ctx, fn):
    steps = []
    for pat in ('Memvid::rewrite_toc_footer', 'persist_header', 'std::fs::File::sync_all'):
        cs = fn.calls_to(pat)
        if not cs:
            ctx.bad('MPT-C25d', fn, 'no call to %s on the accepting path' % pat, detail='missing:' + pat)
            return
        steps.append(cs[-1] if pat.endswith('sync_all') else cs[0])
    ok, why = lib.ordered_on_all_ok_paths(fn, steps)
    ctx.evaluations += len(steps) + len(fn.ok_exits())
    if ok:
        ctx.ok('MPT-C25d', fn, 'every Ok exit passes rewrite_toc_footer -> persist_header -> sync_all (success edges)', line=steps[0].line)
    else:
        ctx.bad('MPT-C25d', fn, 'persistence chain broken: ' + why, detail='persist-chain')


def _signed(ctx, fn, muts, inst=None):
    ver = fn.calls_to('verify_ticket_signature')
    if len(ver) != 1:
        ctx.lost('MPT-C25b', 'apply_signed_ticket must call verify_ticket_signature exactly once (found %d)' % len(ver))
        return
    ver = ver[0]
    # edges on which toc.memory_binding is known to be Some: success of ok_or(_else)(…)? on it, or the Some arm of a match on it
    def _is_binding(sl):
        return sl.has_field('Toc', 'memory_binding') or bool(sl.calls_matching('Memvid::get_memory_binding'))
    presence = []   # (src bb, target bb)
    for c in fn.calls():
        if c.name in ('ok_or_else', 'ok_or') and _is_binding(lib.slice_back(fn, c.args[:1])):
            sb, how = fn.success_block(c)
            if sb is not None and how != 'infallible':
                presence.append((None, sb))
    for vs in lib.variant_switches(fn):
        if vs['enum'] == 'Option' and 'Some' in vs['arms'] and _is_binding(lib.slice_back(fn, [vs['place']])):
            presence.append((vs['bb'], vs['arms']['Some']))

    def _present_at(bb):
        for src, tgt in presence:
            if (src is None and fn.dominates(tgt, bb)) or (src is not None and lib.edge_dominates(fn, src, tgt, bb)):
                return True
        return False
    for m in muts:
        ctx.evaluations += 3
        problems = []
        if not lib.call_success_dominates(fn, ver, m['bb']):
            problems.append('signature verification success')
        if lib.find_guard(fn, m['bb'], '==', lambda s: s.has_field('SignedTicket', 'memory_id'),
                          lambda s: s.has_field('MemoryBinding', 'memory_id')) is None:
            problems.append('memory-id equality')
        if not _present_at(m['bb']):
            problems.append('binding presence')
        if problems:
            ctx.bad('MPT-C25b', fn, '%s not dominated by: %s' % (m['what'], ', '.join(problems)), line=m['line'],
                    detail='unguarded:%s:%s' % (_mkey(m), '+'.join(problems)), sink='ticket_ref')
        else:
            ctx.ok('MPT-C25b', fn, '%s dominated by signature success, memory-id equality and binding presence' % m['what'], line=m['line'])
    # key provenance
    s0 = lib.slice_back(fn, ver.args[:1])
    parse = s0.calls_matching('parse_ed25519_public_key_base64')
    named = [k.get('name', '') for k in s0.consts]
    if parse and any(n.endswith('MEMVID_TICKET_PUBKEY') for n in named) and not (s0.args - set()):
        ctx.ok('MPT-C25b', fn, 'verifying key = parse_ed25519_public_key_base64(MEMVID_TICKET_PUBKEY), independent of the arguments', line=ver.line)
    else:
        ctx.bad('MPT-C25b', fn, 'verifying key does not derive solely from the embedded MEMVID_TICKET_PUBKEY (args reached: %s)' % sorted(s0.args),
                line=ver.line, detail='key-provenance')
    # C25c: argument table
    for idx, field in VERIFY_PARAM_FIELDS:
        ctx.evaluations += 1
        if idx >= len(ver.args):
            ctx.lost('FLOW-C25c', 'verify_ticket_signature has fewer than %d parameters' % (idx + 1))
            continue
        s = lib.slice_back(fn, [ver.args[idx]])
        tfields = {f for o, f in s.fields if o == 'SignedTicket'}
        if tfields == {field} and 1 not in s.args:
            ctx.ok('FLOW-C25c', fn, 'verify arg %d carries ticket.%s only' % (idx, field), line=ver.line)
        else:
            ctx.bad('FLOW-C25c', fn, 'verify arg %d should carry ticket.%s but derives from ticket fields %s%s' % (
                idx, field, sorted(tfields), ' and self' if 1 in s.args else ''), line=ver.line, detail='verify-arg-%d' % idx, sink=field)
    signed = {f for _, f in VERIFY_PARAM_FIELDS}
    if inst is not None:
        icall, h = inst
        for i, a in enumerate(icall.args[1:], 1):
            sa = lib.slice_back(fn, [a], at=(icall.bb, None))
            tfields = {f for o, f in sa.fields if o == 'SignedTicket'}
            ctx.evaluations += 1
            if tfields - signed:
                ctx.bad('FLOW-C25c', fn, 'argument %d of %s (stored into ticket_ref) uses unsigned ticket field(s) %s' % (i, h.name, sorted(tfields - signed)), line=icall.line, detail='unsigned-field:arg%d' % i)
            else:
                ctx.ok('FLOW-C25c', fn, 'argument %d of %s uses only signed ticket fields %s' % (i, h.name, sorted(tfields)), line=icall.line)
    for st in lib.field_stores(fn, 'TicketRef'):
        s = lib.slice_back(fn, lib.rv_operands(st['rv']))
        tfields = {f for o, f in s.fields if o == 'SignedTicket'}
        ctx.evaluations += 1
        extra = tfields - signed
        tgt = '.'.join(st['lhs'].fields())
        if extra:
            ctx.bad('FLOW-C25c', fn, 'store to %s uses unsigned ticket field(s) %s' % (tgt, sorted(extra)), line=st['line'], detail='unsigned-field:' + tgt)
        else:
            ctx.ok('FLOW-C25c', fn, 'store to %s uses only signed ticket fields %s' % (tgt, sorted(tfields)), line=st['line'])


def _signature_fn(ctx):
    fn = ctx.need('FLOW-C25c', 'signature::verify_ticket_signature')
    tm = ctx.need('FLOW-C25c', 'signature::ticket_message_bytes')
    if fn is None or tm is None:
        return
    ctx.touch(fn, len(fn.blocks))
    ctx.touch(tm, len(tm.blocks))
    vs = [c for c in fn.calls() if c.name in ('verify_strict', 'verify')]
    msg = fn.calls_to('ticket_message_bytes')
    if not vs or not msg:
        ctx.lost('FLOW-C25c', 'verify_ticket_signature must call ticket_message_bytes and a verify method')
        return
    v = vs[0]
    # receiver = key param (arg 1), message derives from ticket_message_bytes(params 2..6), signature from param 7
    s_key = lib.slice_back(fn, [v.args[0]])
    s_msg = lib.slice_back(fn, [v.args[1]], stop_at_calls=('ticket_message_bytes',))
    s_sig = lib.slice_back(fn, [v.args[2]])
    ok = (1 in s_key.args) and bool(s_msg.calls_matching('ticket_message_bytes')) and (7 in s_sig.args)
    m = msg[0]
    argmap = []
    for i, a in enumerate(m.args):
        sa = lib.slice_back(fn, [a])
        argmap.append(sorted(sa.args))
    expect = [[2], [3], [4], [5], [6]]
    if ok and argmap == expect:
        ctx.ok('FLOW-C25c', fn, 'verify(key=param1, message=ticket_message_bytes(params 2..6 in order), signature=param7)', line=v.line)
    else:
        ctx.bad('FLOW-C25c', fn, 'signature check is not over (key, message(params 2..6), signature): key args %s, message args %s, sig args %s' % (
            sorted(s_key.args), argmap, sorted(s_sig.args)), line=v.line, detail='verify-wiring')
    # every Ok exit of verify_ticket_signature is the verify call's own result (mapped)
    for ex in fn.ok_exits():
        ctx.evaluations += 1
        if ex['kind'] == 'call':
            s = lib.slice_back(fn, [ex['call'].args[0]]) if ex['call'].args else None
            if ex['call'] is v or (s and v in s.calls):
                ctx.ok('FLOW-C25c', fn, 'Ok can only come from the signature check result', line=ex['line'])
                continue
        ctx.bad('FLOW-C25c', fn, 'an Ok exit does not derive from the signature check', line=ex['line'], detail='ok-exit-not-verify')
    # ticket_message_bytes: every parameter reaches the serialised payload
    ser = [c for c in tm.calls() if c.name in ('to_vec', 'to_string', 'to_writer')]
    if not ser:
        ctx.lost('FLOW-C25c', 'ticket_message_bytes: serialisation call not found')
        return
    s = lib.slice_back(tm, [ser[0].args[0]])
    missing = set(range(1, tm.r['argc'] + 1)) - s.args
    ctx.evaluations += tm.r['argc']
    if missing:
        ctx.bad('FLOW-C25c', tm, 'parameter(s) %s of ticket_message_bytes do not reach the signed payload' % sorted(
            tm.local_name(i) or i for i in missing), line=ser[0].line, detail='unsigned-param:' + ','.join(str(tm.local_name(i)) for i in sorted(missing)))
    else:
        ctx.ok('FLOW-C25c', tm, 'all %d parameters reach the serialised payload' % tm.r['argc'], line=ser[0].line)


def _writers(ctx, F):
    writers = {}
    n = 0
    for f in F.fns.values():
        n += 1
        for st in lib.field_stores(f, 'TicketRef', 'seq_no'):
            writers.setdefault(f.key if not f.is_closure else f.path, st)
        for bb, idx, s in f.stmts():
            rv = s['rv']
            if rv['k'] == 'agg' and rv.get('adt') == 'TicketRef':
                writers.setdefault(f.key if not f.is_closure else f.path, dict(line=s.get('l')))
    ctx.evaluations += n
    for k, st in sorted(writers.items()):
        fn = F.fn(k)
        if k in ENTRY:
            ctx.ok('WMC-C25e', fn, 'guarded entry point writes TicketRef.seq_no', line=st.get('line'))
        elif k in SEQ_WRITER_TABLE or k.split('::')[-1] in SEQ_WRITER_TABLE:
            ctx.ok('WMC-C25e', fn, 'reviewed writer: ' + (SEQ_WRITER_TABLE.get(k) or SEQ_WRITER_TABLE[k.split('::')[-1]]), line=st.get('line'))
        elif fn is not None and fn.r.get('derive') in ('Clone', 'Default'):
            continue  # derived Clone/Default of TicketRef itself
        elif fn is not None and not fn.is_closure and _callers(F, fn) and _callers(F, fn) <= set(ENTRY):
            ctx.ok('WMC-C25e', fn, 'private helper called only by the guarded entry points (its call sites are what the guards dominate)', line=st.get('line'))
        else:
            ctx.bad('WMC-C25e', fn or k, 'unreviewed writer of TicketRef.seq_no / constructor of TicketRef', line=st.get('line'), detail='writer', sink='TicketRef.seq_no')
    ctx.floor('WMC-C25e', len(writers), 2, 'writers of TicketRef.seq_no')
