"""C24 — capacity limit is never exceeded by committed payloads.

Decided:
  GUARD-C24b  in put_internal every WAL append is dominated by the edge on which `projected <= capacity_limit` holds,
              where `projected` derives from the payload-region usage plus the prepared payload length and the limit
              from capacity_limit(); the failing edge returns CapacityExceeded.
  COUPLE-C24a the usage counter the guard reads (found by following payload_region_end into its body) must be
              advanced on the acknowledged path of put_internal itself; a counter that only commit-time code
              advances lets consecutive un-committed puts all pass against the same stale total.
  AGREE-C24d  capacity_limit() = ticket capacity if non-zero else tier capacity (both arms present); apply_records
              keeps cached_payload_end monotone (max) when it places a payload.
  COVER-C24e  the usage counter is seeded at open from *every* frame that owns payload bytes: the seeding function
              (compute_payload_region_end, found as the source of cached_payload_end in the constructors) reads no
              Frame field other than payload_offset / payload_length. Deleted and superseded frames keep their bytes in
              the file until vacuum, so a seed filtered by status (or anything else) under-counts after a reopen and
              lets a put through that the limit forbids.
  FLOW-C24f   the size admitted is the size stored: every prepare_canonical_payload* call whose result length enters the
              capacity comparison is also a source of WalEntryData.payload (the check and the storage share one buffer).
  MPT-C24g   the usage counter moves with the data: both WAL-growth paths store cached_payload_end as itself plus delta (a
             recomputation from the not-yet-adjusted TOC yields a usage that is too low, and the guard admits a put that
             does not fit). Same computation as the handle-position clause of COVER-C02d.
Not decided: the value-level bound over histories. Untriaged candidate (not armed): enable_vec() and the vec manifest
dimension are stored before the capacity check, so a rejected put is not entirely without trace."""
from . import lib
from .facts import op_place

COMMIT_LIKE = ('Memvid::commit', 'Memvid::commit_with_options', 'Memvid::with_staging_lock', 'Memvid::commit_from_records')


def usage_fields(F, fn, sl, depth=2):
    """Memvid fields the 'current usage' operand reads, following local getter calls"""
    out = {f for o, f in sl.fields if o == 'Memvid'}
    for c in sl.calls:
        lc = c.local_callee
        if lc and lc in F.fns and depth > 0:
            g = F.fns[lc]
            ops = lib.ret_operands(g)
            out |= usage_fields(F, g, lib.slice_back(g, ops, through_calls=True), depth - 1)
    return out


def writes_field(F, fn, field, seen=None, depth=4):
    seen = seen if seen is not None else set()
    if fn.path in seen:
        return None
    seen.add(fn.path)
    for st in lib.field_stores(fn, 'Memvid', field):
        # an *advance by stored bytes*: the new value derives from a length (payload / buffer len, Frame.payload_length).
        # A shift of the position by the WAL-growth delta moves the counter with the data and accounts for nothing.
        sl = lib.slice_back(fn, lib.rv_operands(st['rv']), through_calls=True, at=(st['bb'], st['idx']))
        if any(c.name == 'len' for c in sl.calls) or sl.has_field('Frame', 'payload_length') or 'PtrMetadata' in sl.ops:
            return fn.key
    if depth == 0:
        return None
    for c in fn.calls():
        lc = c.local_callee
        if lc and lc in F.fns and not c.is_(COMMIT_LIKE):
            w = writes_field(F, F.fns[lc], field, seen, depth - 1)
            if w:
                return w
    return None


def seed_coverage(ctx, F):
    ctx.rule('COVER-C24e', 'the open-time seed of the usage counter ranges over every frame: only payload_offset/payload_length of Frame are read')
    g = ctx.need('COVER-C24e', 'memvid::lifecycle::compute_payload_region_end')
    if g is None:
        return
    # it is the seed: some constructor stores its result into cached_payload_end
    users = [f for f in F.fns.values() if f.calls_to('memvid::lifecycle::compute_payload_region_end')]
    seeded = False
    for f in users:
        for bb, i, st in f.stmts():
            rv = st['rv']
            if rv['k'] == 'agg' and rv.get('adt') == 'Memvid' and 'cached_payload_end' in rv.get('fields', []):
                sl = lib.slice_back(f, [rv['ops'][rv['fields'].index('cached_payload_end')]], through_calls=True, at=(bb, i))
                if any(c.is_('memvid::lifecycle::compute_payload_region_end') for c in sl.calls):
                    seeded = True
        for st in lib.field_stores(f, 'Memvid', 'cached_payload_end'):
            if any(c.is_('memvid::lifecycle::compute_payload_region_end') for c in lib.slice_back(f, lib.rv_operands(st['rv']), through_calls=True, at=(st['bb'], st['idx'])).calls):
                seeded = True
    ctx.evaluations += len(users)
    if not seeded:
        ctx.lost('COVER-C24e', 'compute_payload_region_end no longer seeds Memvid.cached_payload_end')
        return
    read = set()
    for b in [g] + F.closures_of(g):
        ctx.touch(b, len(b.blocks))
        sl_fields = set()
        for bb, i, st in b.stmts():
            for o in lib.rv_operands(st['rv']):
                p = op_place(o)
                if p is not None:
                    sl_fields |= {f for ow, f in p.field_owners() if ow == 'Frame'}
            if st['rv']['k'] in ('ref', 'discr', 'len') and 'p' in st['rv']:
                from .facts import Place
                sl_fields |= {f for ow, f in Place(st['rv']['p']).field_owners() if ow == 'Frame'}
        for c in b.calls():
            for a in c.args:
                p = op_place(a)
                if p is not None:
                    sl_fields |= {f for ow, f in p.field_owners() if ow == 'Frame'}
        read |= sl_fields
    extra = read - {'payload_offset', 'payload_length'}
    if not {'payload_offset', 'payload_length'} <= read:
        ctx.lost('COVER-C24e', 'compute_payload_region_end does not read payload_offset/payload_length (found %s)' % sorted(read))
    elif extra:
        ctx.bad('COVER-C24e', g, 'the open-time seed of the capacity usage counter depends on Frame.%s: frames it skips still occupy their payload bytes in the file, so after a reopen '
                'the counter is too low and a put beyond the limit is accepted' % ', Frame.'.join(sorted(extra)), sink='Memvid.cached_payload_end', detail='usage-seed-filtered:' + ','.join(sorted(extra)))
    else:
        ctx.ok('COVER-C24e', g, 'seed = max over all frames of payload_offset + payload_length (no other Frame field read)')
    # the scan visits every frame: a loop over the frames is left only when its iterator is exhausted (payload-reusing updates
    # and vacuum make the layout non-monotone in frame order, so "the newest frame that owns bytes" is not the end of the region)
    from . import monotone
    loops = monotone.natural_loops(g)
    for nx in [c for c in g.calls() if c.name == 'next']:
        body = min([b for h, b in loops.items() if nx.bb in b] or [set()], key=len)
        if not body:
            continue
        allowed = set()
        for vs in lib.variant_switches(g):
            if vs.get('enum') == 'Option' and vs['bb'] in body and 'None' in vs['arms']:
                if [x for x in lib.defs(g).get(vs['place'].l, []) if x['kind'] == 'call' and x['call'] is nx]:
                    allowed.add((vs['bb'], vs['arms']['None']))
        exits = [(b, x) for b in body for x in g.succs(b) if x not in body and (b, x) not in allowed
                 and g.blocks[x]['t']['k'] not in ('unreachable', 'resume') and not g.blocks[x].get('cleanup')]
        ctx.evaluations += len(body)
        if exits:
            ctx.bad('COVER-C24e', g, 'the frame scan of the open-time seed can stop before the last frame (edge bb%d -> bb%d): payload offsets are not monotone in frame order '
                    '(payload-reusing updates, vacuum), so the seed can lie below live payload bytes' % exits[0], line=g.blocks[exits[0][0]]['t'].get('l'),
                    sink='Memvid.cached_payload_end', detail='usage-seed-early-exit')
        else:
            ctx.ok('COVER-C24e', g, 'the frame scan leaves its loop only on iterator exhaustion', line=nx.line)


def run(ctx):
    seed_coverage(ctx, ctx.facts())
    from . import c02
    ctx.rule('MPT-C24g', 'the usage counter (cached_payload_end) moves by delta with the data in both WAL-growth paths (shared with COVER-C02d)')
    c02.handle_positions_moved(ctx, ctx.facts(), 'MPT-C24g', only=('cached_payload_end',))
    ctx.rule('GUARD-C24b', 'every WAL append in put_internal is dominated by projected <= capacity_limit(); failing edge -> CapacityExceeded')
    ctx.rule('COUPLE-C24a', 'the usage counter read by the capacity guard is advanced on put_internal\'s own acknowledged path (not only at commit)')
    ctx.rule('AGREE-C24d', 'capacity_limit = ticket capacity | tier capacity; cached_payload_end monotone in apply_records')
    F = ctx.facts()
    fn = ctx.need('GUARD-C24b', 'Memvid::put_internal')
    if fn is None:
        return
    ctx.touch(fn, len(fn.blocks))
    apps = lib.op_calls(F, fn, ('Memvid::append_wal_entry',))
    ctx.floor('GUARD-C24b', len(apps), 2, 'WAL appends in put_internal')
    guard = None

    def is_limit(s):
        return bool(s.calls_matching('Memvid::capacity_limit'))

    def is_projected(s):
        return not s.calls_matching('Memvid::capacity_limit') and (bool(s.calls_matching('Memvid::payload_region_end')) or s.has_field('Memvid', 'cached_payload_end'))
    for a in apps:
        ctx.evaluations += 1
        g = lib.find_guard(fn, a.bb, '<=', is_projected, is_limit)
        if g is None:
            ctx.bad('GUARD-C24b', fn, 'a WAL append is not dominated by the capacity comparison projected <= capacity_limit()', line=a.line, detail='append-unguarded')
        else:
            guard = g
            ctx.ok('GUARD-C24b', fn, 'append dominated by the capacity guard at line %s' % g.line, line=a.line)
    if guard is None:
        return
    errs = lib.enum_constructions(fn, 'MemvidError', 'CapacityExceeded')
    rej = [t for t, rel in guard.edges() if not any(lib.edge_dominates(fn, guard.bb, t, a.bb) for a in apps)]
    if errs and rej and any(fn.dominates(rej[0], e['bb']) for e in errs):
        ctx.ok('GUARD-C24b', fn, 'the failing edge returns CapacityExceeded', line=errs[0]['line'])
    else:
        ctx.bad('GUARD-C24b', fn, 'the failing edge of the capacity guard does not return CapacityExceeded', line=guard.line, detail='capacity-reject')
    # projected includes the incoming payload length
    proj = guard.sa() if is_projected(guard.sa()) else guard.sb()
    if proj.calls_matching('prepare_canonical_payload') or proj.calls_matching('prepare_canonical_payload_with_level') or any(c.name == 'len' for c in proj.calls):
        ctx.ok('GUARD-C24b', fn, 'projected usage includes the prepared payload length', line=guard.line)
    else:
        ctx.bad('GUARD-C24b', fn, 'projected usage does not include the incoming payload length', line=guard.line, detail='projected-without-incoming')
    # ---- C24f: the size admitted is the size stored
    ctx.rule('FLOW-C24f', 'the prepared payload whose length the capacity guard admits is the buffer stored in the WAL entry (same prepare call)')
    PREP = ('prepare_canonical_payload', 'prepare_canonical_payload_with_level', 'memvid::mutation::prepare_canonical_payload', 'memvid::mutation::prepare_canonical_payload_with_level')
    cg = [c for c in proj.calls if c.is_(PREP)]
    cs = []
    for bb, i, st in fn.stmts():
        rv = st['rv']
        if rv['k'] == 'agg' and rv.get('adt') == 'WalEntryData' and 'payload' in rv['fields']:
            cs += [c for c in lib.slice_back(fn, [rv['ops'][rv['fields'].index('payload')]], through_calls=True, at=(bb, i)).calls if c.is_(PREP)]
    ctx.evaluations += len(cg) + len(cs)
    if not cg or not cs:
        ctx.lost('FLOW-C24f', 'put_internal: prepare_canonical_payload* calls not found on the guard (%d) / storage (%d) side' % (len(cg), len(cs)))
    else:
        orphan = [c for c in cg if c not in cs]
        if orphan:
            ctx.bad('FLOW-C24f', fn, 'the capacity guard admits the length of a buffer (%s at line %s) that is not the one stored: the stored payload is prepared separately (possibly at another '
                    'compression level), so a put can be admitted whose stored bytes exceed the remaining capacity' % (orphan[0].key.split('::')[-1], orphan[0].line),
                    line=orphan[0].line, sink='WalEntryData.payload', detail='admitted-size-not-stored-size')
        else:
            ctx.ok('FLOW-C24f', fn, 'every prepared buffer whose length is admitted also feeds WalEntryData.payload', line=cg[0].line)
    # ---- C24a
    mem = F.adt('Memvid')
    counters = {f['name'] for v in (mem['variants'] if mem else []) for f in v['fields'] if f['ty'] in ('u64', 'usize')}
    uf = (usage_fields(F, fn, proj) - {'batch_opts'}) & counters
    ctx.evaluations += len(uf)
    if not uf:
        ctx.lost('COUPLE-C24a', 'the usage counter read by the capacity guard could not be identified')
    for f in sorted(uf):
        w = writes_field(F, fn, f)
        if w:
            ctx.ok('COUPLE-C24a', fn, 'usage counter Memvid.%s is advanced on the put path (%s)' % (f, w))
        else:
            ctx.bad('COUPLE-C24a', fn, 'the capacity guard reads Memvid.%s, which no code on put_internal\'s acknowledged path advances (only commit-time code does): '
                    'consecutive un-committed puts are each checked against the same stale total and can exceed the limit together' % f,
                    line=guard.line, sink='Memvid.' + f, detail='stale-usage-counter:' + f)
    # ---- C24d
    cl = ctx.need('AGREE-C24d', 'Memvid::capacity_limit')
    if cl is not None:
        ctx.touch(cl, len(cl.blocks))
        ops = lib.ret_operands(cl)
        sl = lib.slice_back(cl, ops, through_calls=True)
        a = sl.has_field('TicketRef', 'capacity_bytes')
        b = bool(sl.calls_matching('Tier::capacity_bytes')) or any(ex.get('call') is not None and ex['call'].is_('Tier::capacity_bytes') for ex in cl.ok_exits())
        if a and b:
            ctx.ok('AGREE-C24d', cl, 'capacity_limit = ticket_ref.capacity_bytes (non-zero) else tier capacity')
        else:
            ctx.bad('AGREE-C24d', cl, 'capacity_limit no longer derives from the ticket and the tier (ticket: %s, tier: %s)' % (a, b), detail='capacity-limit-shape')
    ar = F.fn('Memvid::apply_records')
    if ar is not None:
        sts = lib.field_stores(ar, 'Memvid', 'cached_payload_end')
        good = sts and all(any(c.name == 'max' for c in lib.slice_back(ar, lib.rv_operands(s['rv']), through_calls=True, at=(s['bb'], s['idx'])).calls)
                           and lib.slice_back(ar, lib.rv_operands(s['rv']), through_calls=True, at=(s['bb'], s['idx'])).has_field('Memvid', 'cached_payload_end') for s in sts)
        if good:
            ctx.ok('AGREE-C24d', ar, 'cached_payload_end = max(cached_payload_end, cursor) when a payload is placed', line=sts[0]['line'])
        else:
            ctx.bad('AGREE-C24d', ar, 'cached_payload_end is not kept monotone when payloads are placed', detail='payload-end-monotone')
