"""C39 — sketch term filter has no false negatives; sketch track round-trips.

Decided:
  AGREE-C39a  the bit positions probed by term_filter_maybe_contains are a subset of those set by build_term_filter:
              both derive position i as (hash >> s_i) % (len*8) and address bit (p/8, 1 << p%8); the sets of shift
              constants are compared (or both delegate to the same helper).
  AGREE-C39b  the indexing side (generate_sketch) and the query side (QuerySketch::from_query) reach the same tokenizer
              (tokenize_for_sketch) and the same hash (hash_token), and the hashes probed at query time are the
              hash_token values of the query's tokens.
  COVER-C39c  round-trip coverage of the sketch track: every SketchEntry field the reader reconstructs must come from
              bytes the writer wrote. A field the reader synthesises from the loop counter (frame_id = index) is an
              identity claim that only holds if the writer emits one entry per id in dense id order; the header widths
              written by SketchTrackHeader::to_bytes equal those read by from_bytes.
  COVER-C39d  no false negatives needs every token inserted: the insertion loop of build_term_filter (and the token loop
              of generate_sketch that feeds it) leaves only through the exhaustion of its iterator - no break / early
              return / skip conditioned on anything else.
  COVER-C39e  the pipeline from the tokenizer to the filter is lossless: in generate_sketch the hash list given to
              build_term_filter derives from compute_token_weights(tokenize_for_sketch(text)) through map/collect only,
              and in compute_token_weights (and generate_sketch) no token-dropping adaptor (filter, filter_map, take,
              skip, take_while, skip_while, step_by, dedup) sits on the path from the token slice to the returned
              (hash, weight) list, whose loop over the tokens inserts every token.
Not decided: the probabilistic behaviour of the filter (false-positive rate), simhash values."""
from . import lib
from .facts import Place, op_place


def shifts(fn):
    """shift constants k for every position expression (hash >> k) % bits in fn; 0 for an unshifted hash"""
    out = set()
    d = lib.defs(fn)
    for bb, i, s in fn.stmts():
        rv = s['rv']
        if rv['k'] == 'bin' and rv['op'] == 'Rem':
            sl = lib.slice_back(fn, [rv['b']], through_calls=False, at=(bb, i))
            if not ({'Mul', 'MulWithOverflow'} & sl.ops):
                continue          # not `% (len * 8)`
            a = op_place(rv['a'])
            k = 0
            if a is not None:
                for site in d.get(a.l, ()):
                    if site['kind'] == 'stmt' and site['rv']['k'] == 'bin' and site['rv']['op'] == 'Shr':
                        kv = site['rv']['b'].get('k', {}).get('v')
                        if isinstance(kv, int):
                            k = kv
            out.add(k)
    return out


LOSSY = ('filter', 'filter_map', 'take', 'skip', 'take_while', 'skip_while', 'step_by', 'dedup', 'dedup_by', 'dedup_by_key', 'truncate', 'retain')


def lossless_pipeline(ctx, F):
    ctx.rule('COVER-C39e', 'tokens reach the term filter through map/collect only: no token-dropping adaptor between tokenize_for_sketch and build_term_filter')
    gs = ctx.need('COVER-C39e', 'types::sketch_track::generate_sketch')
    cw = ctx.need('COVER-C39e', 'types::sketch_track::compute_token_weights')
    if gs is None or cw is None:
        return
    ctx.touch(gs, len(gs.blocks))
    ctx.touch(cw, len(cw.blocks))
    bt = [c for c in gs.calls() if c.is_(('types::sketch_track::build_term_filter', 'build_term_filter'))]
    if not bt:
        ctx.lost('COVER-C39e', 'generate_sketch no longer calls build_term_filter')
        return
    sl = lib.slice_back(gs, bt[0].args[:1], through_calls=True, at=(bt[0].bb, None))
    names = {c.name for c in sl.calls}
    ctx.evaluations += len(sl.calls)
    has_tok = any(c.is_(('types::sketch_track::tokenize_for_sketch', 'tokenize_for_sketch')) for c in sl.calls)
    has_w = any(c.is_(('types::sketch_track::compute_token_weights', 'compute_token_weights')) for c in sl.calls)
    lossy = sorted(names & set(LOSSY))
    if not has_tok or not has_w:
        ctx.bad('COVER-C39e', gs, 'the hash list given to build_term_filter does not derive from compute_token_weights(tokenize_for_sketch(text))', line=bt[0].line, detail='filter-input-source')
    elif lossy:
        ctx.bad('COVER-C39e', gs, 'a token-dropping adaptor (%s) sits between the tokenizer and build_term_filter: the dropped tokens are reported absent by the filter' % ', '.join(lossy),
                line=bt[0].line, detail='lossy-adaptor:' + ','.join(lossy))
    else:
        ctx.ok('COVER-C39e', gs, 'build_term_filter receives the hashes of compute_token_weights(tokenize_for_sketch(text)) through %s only' % ', '.join(sorted(names - {'tokenize_for_sketch', 'compute_token_weights'}) or ['moves']), line=bt[0].line)
    # inside compute_token_weights: everything on the way from the token slice (argument 1) to the returned list
    bodies = [cw] + F.closures_of(cw)
    used = set()
    for c in cw.calls():
        if c.name in LOSSY:
            rs = lib.slice_back(cw, c.args[:1], through_calls=True, at=(c.bb, None))
            if 1 in rs.args:
                used.add(c.name)
    ctx.evaluations += len(cw.calls())
    if used:
        ctx.bad('COVER-C39e', cw, 'compute_token_weights drops tokens (%s on the chain that starts at the token slice): those tokens get no filter bits and are reported absent' % ', '.join(sorted(used)),
                detail='lossy-adaptor-in-weights:' + ','.join(sorted(used)))
    else:
        ctx.ok('COVER-C39e', cw, 'no token-dropping adaptor on the chain from the token slice')


def all_tokens_inserted(ctx, F):
    from . import monotone
    ctx.rule('COVER-C39d', 'the filter insertion loop exits only when its iterator is exhausted, and every iteration sets the bits')
    fn = ctx.need('COVER-C39d', 'types::sketch_track::build_term_filter')
    if fn is None:
        return
    ctx.touch(fn, len(fn.blocks))
    loops = monotone.natural_loops(fn)
    nexts = [c for c in fn.calls() if c.name == 'next']
    if not loops or not nexts:
        ctx.lost('COVER-C39d', 'build_term_filter: insertion loop not found')
        return
    for nx in nexts:
        body = min([b for h, b in loops.items() if nx.bb in b] or [set()], key=len)
        if not body:
            continue
        allowed = set()
        for vs in lib.variant_switches(fn):
            if vs.get('enum') == 'Option' and vs['bb'] in body and 'None' in vs['arms']:
                dd = [x for x in lib.defs(fn).get(vs['place'].l, []) if x['kind'] == 'call' and x['call'] is nx]
                if dd:
                    allowed.add((vs['bb'], vs['arms']['None']))
        exits = [(b, x) for b in body for x in fn.succs(b) if x not in body and (b, x) not in allowed and fn.blocks[x]['t']['k'] not in ('unreachable',)]
        # every path through one iteration performs the bit stores (|=) on the filter: count index_mut calls dominated by the Some arm
        sets_ = [c for c in fn.calls() if c.bb in body and c.name == 'index_mut']
        skip = False
        if sets_:
            some = [vs['arms'].get('Some') for vs in lib.variant_switches(fn) if vs['bb'] in body and 'Some' in vs['arms']]
            back = [b for b in body if nx.bb in fn.succs(b) or any(s == min(body) for s in fn.succs(b))]
            # an iteration may reach the loop head again while avoiding every bit store
            for sm in some:
                seen = fn.reachable(sm, avoid={c.bb for c in sets_})
                if any(h in seen for h in loops if nx.bb in loops[h] and h != sm):
                    skip = True
        ctx.evaluations += len(body)
        if exits:
            ctx.bad('COVER-C39d', fn, 'the insertion loop can be left before the token list is exhausted (edge bb%d -> bb%d): later tokens are not inserted and the filter reports them absent' % exits[0],
                    line=fn.blocks[exits[0][0]]['t'].get('l'), detail='insertion-loop-early-exit')
        elif skip:
            ctx.bad('COVER-C39d', fn, 'an iteration of the insertion loop can skip the bit stores: some tokens are not inserted', detail='insertion-skipped')
        else:
            ctx.ok('COVER-C39d', fn, 'insertion loop exits only on iterator exhaustion and every iteration sets its %d bit positions' % len(sets_), line=nx.line)


def run(ctx):
    lossless_pipeline(ctx, ctx.facts())
    all_tokens_inserted(ctx, ctx.facts())
    ctx.rule('AGREE-C39a', 'probe bit positions ⊆ written bit positions (same (hash >> s) % (len*8) family)')
    ctx.rule('AGREE-C39b', 'index side and query side share tokenizer and hash; probed hashes are hash_token(query tokens)')
    ctx.rule('COVER-C39c', 'sketch-track reader reconstructs every entry field from written bytes (no identity synthesised from the loop index unless ids are dense)')
    F = ctx.facts()
    bt = ctx.need('AGREE-C39a', 'types::sketch_track::build_term_filter')
    tm = ctx.need('AGREE-C39a', 'types::sketch_track::term_filter_maybe_contains')
    if bt is not None and tm is not None:
        ctx.touch(bt, len(bt.blocks))
        ctx.touch(tm, len(tm.blocks))
        sw, sr = shifts(bt), shifts(tm)
        helper_w = {c.local_callee for c in bt.calls() if c.local_callee}
        helper_r = {c.local_callee for c in tm.calls() if c.local_callee}
        ctx.evaluations += len(sw) + len(sr)
        if (sw and sr and sr <= sw) or (not sw and not sr and helper_w & helper_r):
            ctx.ok('AGREE-C39a', tm, 'probe shifts %s ⊆ write shifts %s' % (sorted(sr), sorted(sw)))
        elif not sw or not sr:
            ctx.lost('AGREE-C39a', 'bit-position expressions not recognised (write %s, probe %s)' % (sorted(sw), sorted(sr)))
        else:
            ctx.bad('AGREE-C39a', tm, 'the probe tests bit positions (shifts %s) that build_term_filter never sets (shifts %s): tokens present in the text are reported absent'
                    % (sorted(sr - sw), sorted(sw)), detail='probe-positions:' + ','.join(str(x) for x in sorted(sr - sw)))
        # same modulus and bit addressing: Div 8 / Rem 8 / Shl present in both
        for fn in (bt, tm):
            ops = set()
            consts = set()
            for bb, i, s in fn.stmts():
                rv = s['rv']
                if rv['k'] == 'bin':
                    ops.add(rv['op'].replace('WithOverflow', ''))
                    for o in (rv['a'], rv['b']):
                        v = o.get('k', {}).get('v') if 'k' in o else None
                        if isinstance(v, int):
                            consts.add(v)
            if {'Div', 'Rem', 'Shl'} <= ops and 8 in consts:
                ctx.ok('AGREE-C39a', fn, 'bit addressed as (p / 8, 1 << (p % 8))')
            else:
                ctx.bad('AGREE-C39a', fn, 'bit addressing is not (p / 8, 1 << (p % 8))', detail='bit-addressing')
    # ---- b
    gs = ctx.need('AGREE-C39b', 'types::sketch_track::generate_sketch')
    fq = ctx.need('AGREE-C39b', 'QuerySketch::from_query')
    if gs is not None and fq is not None:
        for fn in (gs, fq):
            r = lib.reachable_fns(F, [fn])
            keys = {f.key for f in r.values()}
            ctx.evaluations += len(r)
            tok = any(k.endswith('tokenize_for_sketch') for k in keys)
            hsh = any(k.endswith('::hash_token') or k == 'types::sketch_track::hash_token' for k in keys)
            others = sorted(k for k in keys if ('tokeniz' in k.lower() or k.endswith('hash_token_u32')) and not k.endswith('tokenize_for_sketch'))
            if tok and hsh:
                ctx.ok('AGREE-C39b', fn, 'uses tokenize_for_sketch and hash_token')
            else:
                ctx.bad('AGREE-C39b', fn, 'does not use the shared tokenizer/hash (tokenize_for_sketch: %s, hash_token: %s; other: %s)' % (tok, hsh, others), detail='tokenizer-hash')
        # filter built from / probed with hash_token values
        bc = gs.calls_to('build_term_filter')
        if bc:
            sl = lib.slice_back(gs, bc[0].args[:1], through_calls=True, at=(bc[0].bb, None))
            if any(c.key.endswith('hash_token') for c in sl.calls) or sl.closures:
                ctx.ok('AGREE-C39b', gs, 'term filter is built from hash_token values of the text\'s tokens', line=bc[0].line)
            else:
                ctx.bad('AGREE-C39b', gs, 'term filter is not built from hash_token values', line=bc[0].line, detail='filter-source')
        probers = [f for f in F.fns.values() if f.calls_to('term_filter_maybe_contains')]
        for f in probers:
            for c in f.calls_to('term_filter_maybe_contains'):
                sl = lib.slice_back(f, c.args[1:2], through_calls=True, at=(c.bb, None))
                ctx.evaluations += 1
                if any(x.key.endswith('hash_token') for x in sl.calls) or sl.has_field('QuerySketch', 'term_hashes') or sl.has_field('QuerySketch', 'token_hashes') or any(o == 'QuerySketch' for o, _ in sl.fields):
                    ctx.ok('AGREE-C39b', f, 'probe hash comes from the query sketch\'s token hashes', line=c.line)
                else:
                    ctx.bad('AGREE-C39b', f, 'probe hash does not come from hash_token of the query tokens', line=c.line, detail='probe-hash-source')
    # ---- c
    wr = ctx.need('COVER-C39c', 'types::sketch_track::write_sketch_track')
    rd = ctx.need('COVER-C39c', 'types::sketch_track::read_sketch_track')
    adt = F.adt('SketchEntry')
    if wr is not None and rd is not None and adt is not None:
        ctx.touch(wr, len(wr.blocks))
        ctx.touch(rd, len(rd.blocks))
        fields = [f['name'] for f in adt['variants'][0]['fields']]
        # fields serialised: read by the to_*_bytes the writer calls
        written = set()
        # the per-entry encode / decode may sit in private helpers of the writer / reader (`encode_track_entry`, `read_track_entry`)
        whelpers = [F.fns[c.local_callee] for c in wr.calls() if c.local_callee in F.fns and not F.fns[c.local_callee].is_closure and not c.name.startswith('to_')]
        for c in list(wr.calls()) + [x for h in whelpers for x in h.calls()]:
            if c.name.startswith('to_') and c.name.endswith('_bytes') and c.local_callee in F.fns:
                g = F.fns[c.local_callee]
                for bb, i, s in g.stmts():
                    for p in lib.rv_places(s['rv']) if hasattr(lib, 'rv_places') else []:
                        pass
                from .facts import rv_places
                for bb, i, s in g.stmts():
                    for p in rv_places(s['rv']):
                        for o, f in p.field_owners():
                            if o == 'SketchEntry':
                                written.add(f)
                for cc in g.calls():
                    for a in cc.args:
                        p = op_place(a)
                        if p is not None:
                            for o, f in p.field_owners():
                                if o == 'SketchEntry':
                                    written.add(f)
        synthesised = {}
        for c in rd.calls():
            if c.name.startswith('from_') and c.name.endswith('_bytes') and c.local_callee in F.fns:
                g = F.fns[c.local_callee]
                for i, a in enumerate(c.args):
                    sl = lib.slice_back(rd, [a], through_calls=True, at=(c.bb, None), stop_at_calls=('read_exact',))
                    from_index = 'Range::Range' in sl.aggs and any(x.name == 'next' for x in sl.calls)
                    if from_index:
                        synthesised[g.local_name(i + 1) or str(i)] = c
        for c in rd.calls():
            h = F.fns.get(c.local_callee) if c.local_callee else None
            if h is None or h.is_closure or (c.name.startswith('from_') and c.name.endswith('_bytes')):
                continue
            for x in h.calls():
                if x.name.startswith('from_') and x.name.endswith('_bytes') and x.local_callee in F.fns:
                    g = F.fns[x.local_callee]
                    for i, a in enumerate(x.args):
                        ps = sorted(q for q in lib.slice_back(h, [a], through_calls=False, at=(x.bb, None)).args if 1 <= q <= len(c.args))
                        for q in ps:
                            sl = lib.slice_back(rd, [c.args[q - 1]], through_calls=True, at=(c.bb, None), stop_at_calls=('read_exact',))
                            if 'Range::Range' in sl.aggs and any(y.name == 'next' for y in sl.calls):
                                synthesised[g.local_name(i + 1) or str(i)] = c
        ctx.evaluations += len(fields)
        ctx.floor('COVER-C39c', len(written), 3, 'SketchEntry fields serialised by the writer')
        for name, c in sorted(synthesised.items()):
            if name in written:
                continue
            # dense writer? it must iterate ids 0..n, not the track's own insertion order
            dense = False
            for wc in wr.calls():
                if wc.name == 'get' and 'Range::Range' in lib.slice_back(wr, wc.args[1:2], through_calls=True, at=(wc.bb, None)).aggs:
                    dense = True
            if dense:
                ctx.ok('COVER-C39c', rd, 'entry.%s is rebuilt from the index and the writer emits ids densely' % name, line=c.line)
            else:
                ctx.bad('COVER-C39c', rd, 'entry.%s is not written by write_sketch_track; the reader sets it to the loop index, which equals the original id only if the track holds one entry for every '
                        'id 0..n in order (insert() accepts arbitrary ids): a track with gaps is read back attached to the wrong frames' % name, line=c.line,
                        sink='SketchEntry.' + name, detail='field-synthesised-from-index:' + name)
        missing = [f for f in fields if f not in written and f not in synthesised and f != 'frame_id']
        for f in missing:
            ctx.candidate('COVER-C39c', wr, 'SketchEntry.%s is not serialised by the writer (may be derived or optional)' % f, detail='field-not-serialised:' + f)
    hd_w = F.fn('SketchTrackHeader::to_bytes')
    hd_r = F.fn('SketchTrackHeader::from_bytes')
    if hd_w is not None and hd_r is not None:
        from . import c30
        emap, extra = c30.encode_map(ctx, hd_w, 'SketchTrackHeader')
        dmap = {}
        aggs = [(bb, i, s) for bb, i, s in hd_r.stmts() if s['rv']['k'] == 'agg' and s['rv'].get('adt') == 'SketchTrackHeader']
        if aggs:
            bb, i, s = aggs[0]
            for f, op in zip(s['rv']['fields'], s['rv']['ops']):
                sl = lib.slice_back(hd_r, [op], through_calls=True, at=(bb, i))
                for c in sl.calls:
                    if c.name.startswith('read_u') and len(c.args) == 2:
                        off = lib.const_eval(hd_r, c.args[1], (c.bb, None))
                        width = {'read_u16_le': 2, 'read_u32_le': 4, 'read_u64_le': 8}.get(c.name)
                        dmap[f] = (off, width)
        ctx.evaluations += len(emap)
        bad = [f for f in dmap if f in emap and (emap[f][0], emap[f][1]) != dmap[f]]
        if dmap and not bad and len(dmap) >= 4:
            ctx.ok('COVER-C39c', hd_r, 'track header fields read at the offsets/widths they are written (%s)' % ', '.join('%s@%s' % (f, dmap[f][0]) for f in sorted(dmap)))
        elif bad:
            ctx.bad('COVER-C39c', hd_r, 'track header layout mismatch for %s' % bad, detail='track-header-layout:' + ','.join(bad))
        else:
            ctx.lost('COVER-C39c', 'sketch track header layout not recovered')
