"""C28 — persisted indexes answer exactly like the in-memory ones.

Decided:
  GUARD-C28a  rebuild_indexes: the incremental Tantivy arm (add only the commit's inserted frames) is reachable only on
              the false edge of the `tantivy_dirty` test; the true edge (provisional instant-index entries present)
              reaches init_tantivy + rebuild_tantivy_engine, so provisional entries are always discarded at commit.
  AGREE-C28b  the in-memory lexical and vector indexes installed by a commit are *decoded from the very bytes that are
              persisted*: build_lex_artifact / build_vec_artifact return decode(artifact.bytes), rebuild_indexes writes
              artifact.bytes to the file and records its length and checksum in the manifest it stores in the TOC, and
              installs the decoded index; the reopen path (load_*_index_from_manifest) decodes with the same decoder the
              bytes at the manifest's offset/length.
  MPT-C28c    put_internal's instant-index entry marks tantivy_dirty (so the commit takes the rebuild arm).
  AGREE-C28d  sibling agreement of range checks: every comparison of a range end (offset + length of a persisted
              artifact) with a limit (header.footer_offset / the file length) uses the same relation everywhere -
              `end > limit` rejects, `end <= limit` accepts (12 sites on the pinned tree, no exception). The writers
              place the last artifact so that it ends exactly at footer_offset, so a `>=` / `<` variant rejects a
              valid file: the reopened handle then lacks an index the live handle has. Comparisons inside closures
              are resolved through their call sites.
  MPT-C28e    the persisted indexes survive a crash recovery: open_locked loads every index before the WAL replay, which
              rebuilds and re-persists them from the in-memory state (shared with C14's MPT-C14d).
  FLOW-C28f   rebuild_indexes truncates the file no lower than header.footer_offset: everything between the payload end
              and the footer that it does not rewrite itself (the sketch track, replay segments) stays on disk; the
              set_len argument derives from max(header.footer_offset, payload end).
  COVER-C28g  a handle that loads the vector index from disk finds it where the TOC says: the file offsets of every vector
              manifest collection (IndexManifests.vec, SegmentCatalog.vec_segments) are moved by
              adjust_offsets_after_wal_growth (anchor computation shared with COVER-C02d / COVER-C09e). Otherwise a
              read-only open or a recovery between a WAL growth and the next commit decodes garbage, the error is
              swallowed, and the reopened handle answers from an empty index.
Not decided: equality of query results before/after reopen (values); Tantivy's own persistence (external crate)."""
from . import lib
from .facts import Place, op_place


CMP = {'Gt': '>', 'Ge': '>=', 'Lt': '<', 'Le': '<='}
FLIPR = {'>': '<', '>=': '<=', '<': '>', '<=': '>='}


def _closure_arg_slices(F, g):
    """for closure g: param local -> list of slices of the matching call-site operand in the parent"""
    parent = F.fns.get(g.r.get('parent') or g.path.rsplit('::{closure', 1)[0])
    out = {}
    if parent is None:
        return out
    for c in parent.calls():
        if c.local_callee != g.path or len(c.args) < 2:
            continue
        tp = op_place(c.args[1])
        if tp is None:
            continue
        for bb, i, st in parent.stmts():
            if st['lhs']['l'] == tp.l and st['rv']['k'] == 'agg' and st['rv'].get('ak') == 'tuple':
                for k, o in enumerate(st['rv']['ops']):
                    out.setdefault(2 + k, []).append(lib.slice_back(parent, [o], through_calls=True, at=(bb, i)))
    return out


def range_checks(ctx, F):
    ctx.rule('AGREE-C28d', 'range end (offset+length) vs footer_offset / file length: rejection is strict (end > limit) at every site')

    def is_end(sl):
        fl = {x for o, x in sl.fields}
        return bool({'Add', 'AddWithOverflow'} & sl.ops or any(c.name in ('checked_add', 'saturating_add') for c in sl.calls)) and \
            any('offset' in x for x in fl) and any(('length' in x or x.endswith('_len') or 'size' in x) for x in fl)

    def is_limit(sl, fn):
        fl = {x for o, x in sl.fields}
        if {'Add', 'AddWithOverflow'} & sl.ops:
            return False
        return 'footer_offset' in fl or any(c.name in ('len', 'metadata') and 'Metadata' in (c.callee or c.key) for c in sl.calls) or \
            any(c.is_(('Metadata::len', 'File::metadata')) for c in sl.calls)
    n = 0
    for f in sorted(F.fns.values(), key=lambda x: x.path):
        if f.r.get('derive'):
            continue
        sub = None
        for bb, i, st in f.stmts():
            rv = st['rv']
            if rv['k'] != 'bin' or rv['op'] not in CMP:
                continue
            sides = []
            for o in (rv['a'], rv['b']):
                sl = lib.slice_back(f, [o], through_calls=True, at=(bb, i))
                alts = [sl]
                if f.is_closure and sl.args and not sl.fields:
                    if sub is None:
                        sub = _closure_arg_slices(F, f)
                    for a in sl.args:
                        alts += sub.get(a, [])
                sides.append(alts)
            rel = None
            if any(is_end(x) for x in sides[0]) and any(is_limit(y, f) for y in sides[1]):
                rel = CMP[rv['op']]
            elif any(is_end(x) for x in sides[1]) and any(is_limit(y, f) for y in sides[0]):
                rel = FLIPR[CMP[rv['op']]]
            if rel is None:
                continue
            n += 1
            ctx.evaluations += 1
            ctx.touch(f, 1)
            if rel in ('>', '<='):
                ctx.ok('AGREE-C28d', f, 'range end compared with its limit as `end %s limit`' % rel, line=st.get('l'))
            else:
                ctx.bad('AGREE-C28d', f, 'range end compared with its limit as `end %s limit`: every sibling check uses `end > limit` / `end <= limit`; this one rejects an artifact that ends '
                        'exactly at the limit, which is where the writers put the last one' % rel, line=st.get('l'), sink='range-end', detail='range-end-relation:' + rel)
    ctx.floor('AGREE-C28d', n, 2, 'range-end vs limit comparisons')


def _truncate(ctx, F, rule='FLOW-C28f'):
    ctx.rule(rule, 'rebuild_indexes: set_len argument = max(header.footer_offset, payload end) - never below the footer')
    rb = ctx.need(rule, 'Memvid::rebuild_indexes')
    if rb is None:
        return
    ctx.touch(rb, len(rb.blocks))
    sls = rb.calls_to('File::set_len')
    rw = rb.calls_to('Memvid::rewrite_toc_footer')
    cuts = [c for c in sls if not rw or not lib.call_success_dominates(rb, rw[0], c.bb)]
    ctx.evaluations += len(sls)
    for c in cuts:
        sl = lib.slice_back(rb, c.args[1:2], through_calls=True, at=(c.bb, None))
        if sl.has_field('Header', 'footer_offset') and any(x.name == 'max' for x in sl.calls):
            ctx.ok(rule, rb, 'truncation length = max(header.footer_offset, ...)', line=c.line)
        elif sl.has_field('Header', 'footer_offset') and not (sl.calls_matching('Memvid::payload_region_end') or sl.has_field('Memvid', 'cached_payload_end')):
            ctx.ok(rule, rb, 'file length set from header.footer_offset', line=c.line)
        else:
            ctx.bad(rule, rb, 'rebuild_indexes can truncate the file below header.footer_offset (set_len from the payload end): tracks it does not rewrite itself (sketch track, replay '
                    'segment) lie in that range and their manifests stay in the TOC, so the next open reads zeros there', line=c.line, sink='File::set_len', detail='truncate-below-footer')


def run(ctx):
    from . import c09
    c09.offsets_moved(ctx, ctx.facts(), 'COVER-C28g', lambda a: 'vec' in a[1], 'vector', 2,
                      'a handle that loads the index from disk before the next commit (read-only open, crash recovery) decodes garbage and answers from an empty index', 'vec-offset-not-shifted')
    ctx.rule('GUARD-C28a', 'incremental Tantivy arm only on !tantivy_dirty; dirty edge rebuilds the engine')
    ctx.rule('AGREE-C28b', 'in-memory index installed at commit == decode(bytes persisted); reopen decodes the same bytes with the same decoder')
    ctx.rule('MPT-C28c', 'instant index marks tantivy_dirty')
    F = ctx.facts()
    range_checks(ctx, F)
    from . import c14
    c14._open_order(ctx, F, rule='MPT-C28e')
    _truncate(ctx, F)
    rb = ctx.need('GUARD-C28a', 'Memvid::rebuild_indexes')
    if rb is not None:
        ctx.touch(rb, len(rb.blocks))
        dirty = []
        for bs in lib.bool_switches(rb):
            sl = lib.slice_back(rb, [bs['local']], through_calls=False, at=(bs['bb'], None))
            if sl.has_field('Memvid', 'tantivy_dirty'):
                dirty.append(bs)
        adds = [c for c in rb.calls() if c.is_('TantivyEngine::add_frame')]
        reb = rb.calls_to('Memvid::rebuild_tantivy_engine')
        if not dirty or not adds or not reb:
            ctx.lost('GUARD-C28a', 'rebuild_indexes anchors: tantivy_dirty test %d, add_frame %d, rebuild_tantivy_engine %d' % (len(dirty), len(adds), len(reb)))
        else:
            d = dirty[0]
            for a in adds:
                ctx.evaluations += 1
                if lib.edge_dominates(rb, d['bb'], d['t_false'], a.bb):
                    ctx.ok('GUARD-C28a', rb, 'incremental add_frame only on the !tantivy_dirty edge', line=a.line)
                else:
                    ctx.bad('GUARD-C28a', rb, 'the incremental Tantivy arm can run while provisional instant-index entries exist (tantivy_dirty): they would survive the commit',
                            line=a.line, detail='incremental-while-dirty')
            on_true = [r for r in reb if lib.edge_dominates(rb, d['bb'], d['t_true'], r.bb)]
            it = [c for c in rb.calls_to('Memvid::init_tantivy') if lib.edge_dominates(rb, d['bb'], d['t_true'], c.bb)]
            if on_true and it and lib.call_success_dominates(rb, it[0], on_true[0].bb):
                ctx.ok('GUARD-C28a', rb, 'dirty edge: init_tantivy -> rebuild_tantivy_engine', line=on_true[0].line)
            else:
                ctx.bad('GUARD-C28a', rb, 'the tantivy_dirty edge does not rebuild the engine from scratch', line=d['line'], detail='dirty-edge-no-rebuild')
    # ---- b
    for key, decoder, field, loader in (('Memvid::build_lex_artifact', 'LexIndex::decode', 'lex_index', 'Memvid::load_lex_index_from_manifest'),
                                        ('Memvid::build_vec_artifact', 'VecIndex::decode', 'vec_index', 'Memvid::load_vec_index_from_manifest')):
        fn = ctx.need('AGREE-C28b', key)
        if fn is None:
            continue
        if not any(c.local_callee == fn.path for g in F.fns.values() for c in g.calls()):
            ctx.absent('AGREE-C28b', '%s has no caller in this configuration (legacy lexical artifact path is not wired; Tantivy persists itself)' % key)
            continue
        ctx.touch(fn, len(fn.blocks))
        dc = [c for c in fn.calls() if c.is_((decoder, decoder + '_with_compression'))]
        fin = [c for c in fn.calls() if c.name == 'finish']
        ok = False
        if dc and fin:
            sl = lib.slice_back(fn, dc[0].args[:1], through_calls=True, at=(dc[0].bb, None))
            ok = fin[0] in sl.calls and any(o and 'Artifact' in o and f == 'bytes' for o, f in sl.fields)
        ctx.evaluations += 1
        if ok:
            ctx.ok('AGREE-C28b', fn, 'returns (artifact, %s(artifact.bytes))' % decoder, line=dc[0].line)
        else:
            ctx.bad('AGREE-C28b', fn, 'the in-memory index is not decoded from the artifact bytes that get persisted', detail='memory-index-source')
        if rb is not None:
            bc = [c for c in rb.calls() if c.local_callee == fn.path]
            if not bc:
                ctx.bad('AGREE-C28b', rb, 'rebuild_indexes does not call %s' % key, detail='no-artifact-call:' + field)
                continue
            wrote = False
            for w in rb.calls():
                if w.is_(('Write::write_all', '<File as Write>::write_all')):
                    sl = lib.slice_back(rb, w.args[1:2], through_calls=True, at=(w.bb, None))
                    if bc[0] in sl.calls and any(o and 'Artifact' in o and f == 'bytes' for o, f in sl.fields):
                        wrote = True
            inst = False
            for st in lib.field_stores(rb, 'Memvid', field):
                sl = lib.slice_back(rb, lib.rv_operands(st['rv']), through_calls=True, at=(st['bb'], st['idx']))
                if bc[0] in sl.calls:
                    inst = True
            ctx.evaluations += 2
            if wrote and inst:
                ctx.ok('AGREE-C28b', rb, 'writes %s\'s artifact.bytes to the file and installs its decoded index as self.%s' % (key.split('::')[-1], field), line=bc[0].line)
            else:
                ctx.bad('AGREE-C28b', rb, 'commit does not persist the artifact bytes it decoded the in-memory %s from (written: %s, installed: %s)' % (field, wrote, inst),
                        line=bc[0].line, detail='persist-vs-install:' + field)
        ld = ctx.need('AGREE-C28b', loader)
        if ld is not None:
            ctx.touch(ld, len(ld.blocks))
            bodies = [ld] + F.closures_of(ld)
            dl = [c for b in bodies for c in b.calls() if c.is_((decoder, decoder + '_with_compression'))]
            rr = [c for c in ld.calls_to('Memvid::read_range')]
            good = False
            for r in rr:
                sl = lib.slice_back(ld, r.args[1:3], through_calls=False, at=(r.bb, None))
                if {'bytes_offset', 'bytes_length'} <= {f for o, f in sl.fields}:
                    # the decoded bytes are the bytes read: the decoder (or the closure that calls it) takes the read result
                    for c in dl:
                        if c.fn is ld:
                            if r in lib.slice_back(ld, c.args[:1], through_calls=True, at=(c.bb, None)).calls:
                                good = True
                        else:
                            for bb2, i2, s2 in ld.stmts():
                                rv2 = s2['rv']
                                if rv2['k'] == 'agg' and rv2.get('ak') == 'closure' and rv2['def'] == c.fn.path:
                                    if r in lib.slice_back(ld, rv2['ops'], through_calls=True, at=(bb2, i2)).calls:
                                        good = True
            ctx.evaluations += 1
            if good:
                ctx.ok('AGREE-C28b', ld, 'reopen decodes the manifest\'s byte range with %s' % decoder, line=dl[0].line)
            else:
                ctx.bad('AGREE-C28b', ld, 'the reopen path does not decode the manifest byte range with %s' % decoder, detail='loader-decoder:' + field)
    # ---- c
    put = F.fn('Memvid::put_internal')
    if put is not None:
        adds = [c for c in put.calls() if c.is_('TantivyEngine::add_frame')]
        for a in adds:
            sts = [s for s in lib.field_stores(put, 'Memvid', 'tantivy_dirty') if s['rv']['k'] == 'use' and s['rv']['a'].get('k', {}).get('v') is True
                   and lib.call_success_dominates(put, a, s['bb'])]
            exits = [ex for ex in put.ok_exits() if lib.call_success_dominates(put, a, ex['bb'])]
            ctx.evaluations += 1
            if sts and all(any(put.dominates(s['bb'], ex['bb']) for s in sts) for ex in exits):
                ctx.ok('MPT-C28c', put, 'instant-index add_frame is followed by tantivy_dirty = true on every Ok path', line=a.line)
            else:
                ctx.bad('MPT-C28c', put, 'a provisional instant-index entry does not mark tantivy_dirty: the commit would keep it', line=a.line, detail='instant-index-not-dirty')
