#!/usr/bin/env python3
"""tools/replay_refactors.py [RA RB …] : the benign-refactor regression. Each set under /verif/seeded/refactors/<id>/ holds six
behaviour-preserving refactorings written by a sub-agent that saw only the source (extract/inline helper, match <-> if-let,
loop <-> iterator chain, guard clauses, de-duplication; no renames) and confirmed by the pinned suite. all.diff is applied
to /repo's working tree, every check runs (quick tier) and must stay silent, then the edit is reverted. A FAIL here is a
false alarm of a rule. Writes /verif/seeded/refactors/replay.json. Not a registered check (it edits /repo temporarily)."""
import glob, json, os, subprocess, sys
def sh(c):
    return subprocess.run(c, shell=True, stdout=subprocess.PIPE, stderr=subprocess.STDOUT, text=True)
if sh('git -C /repo diff --quiet').returncode != 0:
    print('/repo has uncommitted changes'); sys.exit(2)
want = set(sys.argv[1:])
res = []
for d in sorted(glob.glob('/verif/seeded/refactors/*/all.diff')):
    rid = os.path.basename(os.path.dirname(d))
    if want and rid not in want:
        continue
    if sh('git -C /repo apply --check %s' % d).returncode != 0:
        res.append(dict(set=rid, status='patch-does-not-apply')); print('%s does not apply' % rid); continue
    sh('git -C /repo apply %s' % d)
    try:
        r = sh('cd /verif && ./check --all --tier quick')
        fails = [l[:300] for l in r.stdout.splitlines() if l.startswith(('FAIL ', 'VIOLATION '))]
        res.append(dict(set=rid, status='silent' if not fails and r.returncode == 0 else 'FALSE-ALARM', lines=fails))
        print('%s %s' % (rid, res[-1]['status']))
        for l in fails:
            print('   ' + l)
    finally:
        sh('git -C /repo checkout -- .')
out = '/verif/seeded/refactors/replay.json'
old = {r['set']: r for r in (json.load(open(out)) if os.path.exists(out) else [])}
for r in res:
    old[r['set']] = r
json.dump([old[k] for k in sorted(old)], open(out, 'w'), indent=1)
sys.exit(1 if any(r['status'] != 'silent' for r in res) else 0)
