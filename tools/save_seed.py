#!/usr/bin/env python3
"""tools/save_seed.py <worktree> <seed-id> <property> <detected-by|MISSED> "<what it needs to manifest>"
Store a confirmed seeded change under /verif/seeded/<seed-id>/ and remove the scratch worktree."""
import json, os, shutil, subprocess, sys
wt, sid, prop, detected, needs = sys.argv[1:6]
out = os.path.join('/verif/seeded', sid)
os.makedirs(out, exist_ok=True)
for f in os.listdir(os.path.join(wt, 'OUT')):
    shutil.copy(os.path.join(wt, 'OUT', f), os.path.join(out, f))
log = open(os.path.join(out, 'confirm.log')).read() if os.path.exists(os.path.join(out, 'confirm.log')) else ''
meta = dict(seed=sid, property=prop, needs=needs,
            detected_by=detected,
            confirmed=dict(script='tools/confirm_mutant.sh (scratch worktree): demo fails with patch, pinned suite passes with patch, demo passes without',
                           log=log.strip().splitlines()),
            checks_run='/verif/tools/try_patch.sh /verif/seeded/%s/patch.diff %s' % (sid, prop))
json.dump(meta, open(os.path.join(out, 'meta.json'), 'w'), indent=1)
subprocess.run(['git', '-C', '/repo', 'worktree', 'remove', '--force', wt])
print('saved', out)
