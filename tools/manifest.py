#!/usr/bin/env python3
"""Render /verif/MANIFEST.json from rules/registry.py and validate it against the schema."""
import json, os, subprocess, sys
HERE = os.path.dirname(os.path.dirname(os.path.abspath(__file__)))
sys.path.insert(0, HERE)
from rules import registry

props = [json.loads(l)['id'] for l in open(os.path.join(HERE, 'properties.jsonl'))]
fixes = []
kf = os.path.join(HERE, 'known_findings.jsonl')
if os.path.exists(kf):
    for line in open(kf):
        line = line.strip()
        if line.startswith('fixed:'):
            fixes.append(line.split()[2])
checks = []
for p in props:
    if p in registry.CLAIMED:
        c = registry.CLAIMED[p]
        checks.append(dict(
            property_id=p,
            quick_cmd='./check %s --tier quick' % p,
            thorough_cmd='./check %s --tier thorough' % p,
            evidence_file='/verif/evidence/%s.json' % p,
            engine='mvfacts+rules',
            level_claimed=dict(category='other', text=c['text'], design_ref=c.get('design_ref', 'DESIGN.md §4 ' + p)),
            level_note=c['note'],
            technique='static analysis: ' + c['technique'],
        ))
na = []
for p in props:
    if p not in registry.CLAIMED:
        na.append(dict(property_id=p, reason=registry.NOT_APPLICABLE.get(
            p, 'check not built yet (work in progress; DESIGN.md §4 describes the planned structural clause)')))
m = dict(
    version=1,
    setup_cmd='./setup.sh',
    hooks=dict(guard='memvid_verif (declared, unused: the analysis needs no source hooks)',
               enable='n/a - static analysis of the unmodified sources; the extractor is injected with RUSTC_WORKSPACE_WRAPPER',
               baseline_off_cmd='cd /repo && cargo nextest run --workspace --no-fail-fast --offline --test-threads 8',
               source_commits=[], add_only=True),
    engines=[dict(name='mvfacts+rules', path='driver/ rules/ check',
                  serves_properties=[c['property_id'] for c in checks],
                  kind_free_text='rustc_private MIR/HIR fact extractor (driver/) + Python rule engines (rules/): call graph, dominators, '
                                 'typestate summaries, explicit data-flow slices, tree agreement')],
    checks=checks,
    notes='Static analysis only; every claim is partial and names the structural clause decided (DESIGN.md §4). '
          'known_findings.jsonl lists genuine defects found on the pinned tree. quick = the default feature configuration '
          '(C29: encryption); thorough = positive controls of the engines (fixtures/positive) + the default and the wide '
          'feature configuration (encryption, hnsw_bench, replay, temporal_track, parallel_segments). No hook commits exist in /repo '
          '(hooks.source_commits is empty); the unguarded repairs of genuine defects are the `fix:` commits ' + ', '.join(sorted(set(fixes))) + ' (known_findings.jsonl, `fixed:` lines).',
    not_applicable=na,
)
out = os.path.join(HERE, 'MANIFEST.json')
json.dump(m, open(out, 'w'), indent=1)
try:
    import jsonschema
    jsonschema.validate(m, json.load(open('/root/.vp/MANIFEST.schema.json')))
    print('MANIFEST.json valid: %d checks, %d not applicable' % (len(checks), len(na)))
except ImportError:
    r = subprocess.run(['python3-vt', '-c', 'import json,jsonschema,sys; jsonschema.validate(json.load(open(sys.argv[1])), json.load(open("/root/.vp/MANIFEST.schema.json"))); print("MANIFEST.json valid")', out])
    sys.exit(r.returncode)
