#!/usr/bin/env python3
"""Development aid: pretty-print the mini-MIR (or HIR) of a function from the current fact file.
   tools/show.py <fn key> [--hir] [--config default]"""
import glob, json, os, sys
sys.path.insert(0, os.path.dirname(os.path.dirname(os.path.abspath(__file__))))
from rules import facts, extract
from rules.facts import Place, op_place


def opstr(o):
    if 'k' in o:
        k = o['k']
        if 'fn' in k:
            return 'fn ' + k['fn']
        if 'v' in k:
            return 'const %s%s' % (k['v'], ('{%s}' % k['name'].split('::')[-1]) if 'name' in k else '')
        if 'promoted' in k:
            return 'const promoted[%d]' % k['promoted']
        return 'const %s' % (k.get('name') or k.get('s') or k.get('ty'))
    p = op_place(o)
    return ('move ' if 'm' in o else '') + repr(p)


def rvstr(rv):
    k = rv['k']
    if k == 'use':
        return opstr(rv['a'])
    if k == 'ref':
        return ('&mut ' if rv['mut'] else '&') + repr(Place(rv['p']))
    if k == 'bin':
        return '%s(%s, %s)' % (rv['op'], opstr(rv['a']), opstr(rv['b']))
    if k == 'un':
        return '%s(%s)' % (rv['op'], opstr(rv['a']))
    if k == 'cast':
        return '%s as %s [%s]' % (opstr(rv['a']), rv['ty'], rv['ck'])
    if k == 'discr':
        return 'discriminant(%r) [%s]' % (Place(rv['p']), rv.get('enum'))
    if k == 'agg':
        if rv['ak'] == 'adt':
            return '%s::%s{%s}' % (rv['adt'], rv['variant'], ', '.join('%s: %s' % (f, opstr(o)) for f, o in zip(rv['fields'], rv['ops'])))
        if rv['ak'] == 'closure':
            return 'closure %s [%s]' % (rv['def'], ', '.join(opstr(o) for o in rv['ops']))
        return '%s(%s)' % (rv['ak'], ', '.join(opstr(o) for o in rv['ops']))
    return json.dumps(rv)[:100]


def show(fn):
    print('fn', fn.path, fn.at(), 'argc', fn.r['argc'])
    for i, l in enumerate(fn.locals):
        if l.get('n') or i <= fn.r['argc']:
            print('   _%d: %s %s' % (i, l['ty'], l.get('n', '')))
    live = fn.live_blocks()
    for i, b in enumerate(fn.blocks):
        if i not in live:
            continue
        print(' bb%d:' % i)
        for s in b['s']:
            print('    %-4s %r = %s' % (s.get('l'), Place(s['lhs']), rvstr(s['rv'])))
        t = b['t']
        k = t['k']
        if k == 'call':
            print('    %-4s %r = %s(%s) -> %s   [%s]' % (t.get('l'), Place(t['dest']), t.get('res') or t.get('decl') or t.get('indirect'),
                  ', '.join(opstr(a) for a in t['args']), t.get('t'), ','.join(t.get('mac', []))))
        elif k == 'switch':
            print('    %-4s switch %s -> %s else %s' % (t.get('l'), opstr(t['d']), t['ts'], t['o']))
        elif k in ('goto', 'drop', 'assert'):
            print('    %-4s %s -> %s' % (t.get('l'), k + (' ' + repr(Place(t['p'])) if k == 'drop' else ''), t['t']))
        else:
            print('    %-4s %s' % (t.get('l'), k))


def show_promoted(fn):
    for i, bl in enumerate(fn.r.get('promoted') or []):
        print(' promoted[%d]:' % i, '; '.join('%r = %s' % (Place(s['lhs']), rvstr(s['rv'])) for b in bl for s in b['s']))


def show_hir(n, ind=0):
    attrs = {k: v for k, v in n.items() if k not in ('c', 'pat', 'params', 'path', 'guard', 'body')}
    print(' ' * ind + json.dumps(attrs)[:160])
    for key in ('path', 'pat', 'guard'):
        if key in n:
            print(' ' * (ind + 1) + key + ':')
            show_hir(n[key], ind + 3)
    for c in n.get('params', []):
        show_hir(c, ind + 2)
    if 'body' in n:
        show_hir(n['body'], ind + 2)
    for c in n.get('c', []):
        show_hir(c, ind + 2)


if __name__ == '__main__':
    cfg = 'default'
    if '--config' in sys.argv:
        cfg = sys.argv[sys.argv.index('--config') + 1]
    path, _ = extract.ensure_facts(cfg)
    F = facts.Facts(path)
    fn = F.fn(sys.argv[1])
    if fn is None:
        print('not found; candidates:', [f.key for f in F.by_name.get(sys.argv[1].split('::')[-1], [])][:20])
        sys.exit(1)
    if '--hir' in sys.argv:
        show_hir(fn.r.get('hir', {}))
    else:
        show(fn)
        show_promoted(fn)
