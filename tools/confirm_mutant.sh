#!/bin/sh
# tools/confirm_mutant.sh <worktree> : re-confirm a sub-agent's mutant independently.
#  (1) patch applies to a clean HEAD and the demo FAILS with it, (2) the pinned suite passes with it,
#  (3) the demo PASSES without it. Writes <worktree>/OUT/confirm.log.
W="$1"; cd "$W" || exit 2
export CARGO_NET_OFFLINE=true
LOG="$W/OUT/confirm.log"; : > "$LOG"
DEMO=$(ls tests/demo_mutant*.rs 2>/dev/null | head -1)
[ -n "$DEMO" ] || { echo "no demo test" >> "$LOG"; exit 2; }
T=$(basename "$DEMO" .rs)
git checkout -q -- .      # drop tracked edits only; OUT/ and the demo are untracked and stay
git apply OUT/patch.diff || { echo "PATCH DOES NOT APPLY" >> "$LOG"; exit 2; }
echo "== demo with patch (expect failure)" >> "$LOG"
cargo nextest run --offline --no-fail-fast --test "$T" 2>&1 | grep -E "Summary|FAIL|PASS|error" | head -20 >> "$LOG"
echo "== pinned suite with patch (expect all pass, demo excluded)" >> "$LOG"
cargo nextest run --workspace --no-fail-fast --offline --test-threads 8 -E "not binary($T)" 2>&1 | grep -E "Summary|^\s+FAIL|error\[" | head -20 >> "$LOG"
git apply -R OUT/patch.diff
echo "== demo without patch (expect pass)" >> "$LOG"
cargo nextest run --offline --no-fail-fast --test "$T" 2>&1 | grep -E "Summary|FAIL|error" | head -20 >> "$LOG"
git apply OUT/patch.diff
echo "== done" >> "$LOG"
