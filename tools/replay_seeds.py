#!/usr/bin/env python3
"""tools/replay_seeds.py [seed-id …] : apply every seeded change under /verif/seeded to /repo's working tree, run the
check(s) named in its meta.json (quick tier), expect a VIOLATION, revert. Writes /verif/seeded/replay.json.
Not a registered check (it edits /repo temporarily)."""
import glob, json, os, subprocess, sys
def sh(c):
    return subprocess.run(c, shell=True, stdout=subprocess.PIPE, stderr=subprocess.STDOUT, text=True)
if sh('git -C /repo diff --quiet').returncode != 0:
    print('/repo has uncommitted changes'); sys.exit(2)
want = set(sys.argv[1:])
res = []
for m in sorted(glob.glob('/verif/seeded/*/meta.json')):
    meta = json.load(open(m))
    sid = meta['seed']
    if want and sid not in want:
        continue
    patch = os.path.join(os.path.dirname(m), 'patch.diff')
    props = meta['checks_run'].split('patch.diff', 1)[1].split()
    if sh('git -C /repo apply --check %s' % patch).returncode != 0:
        res.append(dict(seed=sid, status='patch-does-not-apply', checks=props)); print('%-55s does not apply' % sid); continue
    sh('git -C /repo apply %s' % patch)
    try:
        hits = {}
        for p in props:
            r = sh('cd /verif && ./check %s --tier quick' % p)
            fails = sorted({l.split('rule=')[1].split(' ')[0] for l in r.stdout.splitlines() if l.startswith('FAIL ')})
            if r.returncode == 1 and fails:
                hits[p] = fails
        status = 'reported' if hits else 'NOT-REPORTED'
        res.append(dict(seed=sid, status=status, checks=props, rules=hits, expected=meta['detected_by']))
        print('%-55s %s %s' % (sid, status, hits))
    finally:
        sh('git -C /repo checkout -- .')
out = '/verif/seeded/replay.json'
old = {r['seed']: r for r in (json.load(open(out)) if os.path.exists(out) else [])}
for r in res:
    old[r['seed']] = r
json.dump([old[k] for k in sorted(old)], open(out, 'w'), indent=1)
print('%d seeds replayed, %d reported' % (len(res), sum(1 for r in res if r['status'] == 'reported')))
