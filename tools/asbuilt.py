#!/usr/bin/env python3
"""tools/asbuilt.py : regenerate the generated part of DESIGN.md (between the BEGIN/END GENERATED markers) from
the rule modules' docstrings, known_findings.jsonl, the evidence files and seeded/*/meta.json."""
import ast, glob, json, os, re
V = '/verif'
out = []
out.append('### 10.3 Rules as built (module docstrings of `rules/cNN.py`)\n')
for p in sorted(glob.glob(V + '/rules/c[0-9][0-9].py')):
    doc = ast.get_docstring(ast.parse(open(p).read())) or ''
    out.append('```\n' + doc.strip() + '\n```\n')
out.append('### 10.4 Disposition of everything the rules reported on the pinned tree\n')
out.append('**Repaired (`fix:` commits in /repo, each followed by the unedited pinned suite):**\n')
out.append('| property | commit | what failed |\n|---|---|---|')
opens = []
for line in open(V + '/known_findings.jsonl'):
    line = line.strip()
    if line.startswith('fixed:'):
        m = re.match(r'fixed: property=(\S+) (\S+) (.*)', line)
        out.append('| %s | `%s` | %s |' % (m.group(1), m.group(2), m.group(3).replace('|', '\\|')))
    elif line and not line.startswith('#'):
        opens.append(json.loads(line))
out.append('\n**Open known findings (reproduced against the real code with `/verif/triage`, not repaired; suppressed by exact key only):**\n')
out.append('| property | rule | site | config | what | observed |\n|---|---|---|---|---|---|')
for k in opens:
    kk = k['key']
    out.append('| %s | %s | `%s` %s | %s | %s | %s |' % (k['property'], kk['rule'], kk['fn'].split('::')[-1] if '::' in kk['fn'] else kk['fn'], '`' + kk['detail'] + '`',
                                                   kk.get('config', 'default'), k.get('what', '').replace('|', '\\|'), str(k.get('observed', '')).replace('|', '\\|')))
out.append('\n**Untriaged candidates (a rule fires, nothing reproduced yet: printed as CANDIDATE, never a verdict):**\n')
for p in sorted(glob.glob(V + '/evidence/C*.json')):
    ev = json.load(open(p))
    for c in ev['coverage'].get('untriaged_candidates') or []:
        out.append('* %s %s `%s` — %s' % (ev['property_id'], c.get('rule', ''), c.get('fn', ''), c.get('why', c.get('reason', c.get('detail', '')))))
out.append('\n### 10.5 Seeded changes (written by sub-agents that saw only the property text) and what catches them\n')
out.append('| seed | property | needs to manifest | reported by |\n|---|---|---|---|')
for p in sorted(glob.glob(V + '/seeded/*/meta.json')):
    m = json.load(open(p))
    out.append('| `%s` | %s | %s | %s |' % (m['seed'], m['property'], m['needs'].replace('|', '\\|'), m['detected_by'].replace('|', '\\|')))
hm = V + '/seeded/hand_mutants.json'
if os.path.exists(hm):
    out.append('\n### 10.6 Hand mutants (`tools/hand_mutants.py`: one-line edits of /repo, quick tier of the named check)\n')
    out.append('| edit | property | what | result | rule(s) |\n|---|---|---|---|---|')
    for r in json.load(open(hm)):
        out.append('| `%s` | %s | %s | %s | %s |' % (r['id'], r['property'], r.get('what', '').replace('|', '\\|'), r['status'], ', '.join(r.get('rules') or [])))
rf = V + '/seeded/refactors/replay.json'
if os.path.exists(rf):
    out.append('\n### 10.7 Benign refactorings (`tools/replay_refactors.py`: six behaviour-preserving refactorings per set, all checks, quick tier)\n')
    out.append('| set | files | result |\n|---|---|---|')
    for r in json.load(open(rf)):
        d_ = V + '/seeded/refactors/%s/all.diff' % r['set']
        files = sorted({l[6:].strip() for l in open(d_) if l.startswith('+++ b/')}) if os.path.exists(d_) else []
        out.append('| `%s` | %s | %s |' % (r['set'], ', '.join(files), r['status'] + (': ' + '; '.join(x[:120] for x in r.get('lines', [])[:3]) if r['status'] != 'silent' else '')))
txt = '\n'.join(out) + '\n'
d = open(V + '/DESIGN.md').read()
b, e = '<!-- BEGIN GENERATED -->', '<!-- END GENERATED -->'
assert b in d and e in d
d = d[:d.index(b) + len(b)] + '\n' + txt + d[d.index(e):]
open(V + '/DESIGN.md', 'w').write(d)
print('DESIGN.md generated section: %d lines' % txt.count('\n'))
