#!/usr/bin/env python3
"""tools/hand_mutants.py [id …] : self-test of the checks against one-line edits of /repo (the planned list of
DESIGN.md §7 plus edits used while writing the rules). Every edit compiles; each is applied to /repo's working
tree, the named check is run (quick tier), and the edit is reverted. Prints caught/missed and writes
/verif/seeded/hand_mutants.json. Not a registered check: it edits /repo temporarily and takes ~20 s per edit.
An edit whose anchor text no longer exists is reported as `stale` (the tree changed), not as a miss."""
import json, os, subprocess, sys
R = '/repo'
M = 'src/memvid/mutation.rs'
MUT = [
    # id, property, file, old, new, what
    ('C01-checkpoint-before-apply', 'C01', M,
     "        let delta = self.apply_records(records)?;\n        if !delta.is_empty() {\n            tracing::debug!(\n                inserted_frames = delta.inserted_frames.len(),\n                inserted_embeddings = delta.inserted_embeddings.len(),\n                inserted_time_entries = delta.inserted_time_entries.len(),\n                \"recover applied delta\"",
     "        self.wal.record_checkpoint(&mut self.header)?;\n        let delta = self.apply_records(records)?;\n        if !delta.is_empty() {\n            tracing::debug!(\n                inserted_frames = delta.inserted_frames.len(),\n                inserted_embeddings = delta.inserted_embeddings.len(),\n                inserted_time_entries = delta.inserted_time_entries.len(),\n                \"recover applied delta\"",
     'recover_wal: checkpoint moved above apply_records'),
    ('C02-unstaged-commit', 'C02', M,
     "self.with_staging_lock(move |mem| mem.commit_from_records(records, mode))", "self.commit_from_records(records, mode)",
     'commit_with_options calls commit_from_records directly'),
    ('C02-discard-becomes-commit', 'C02', M, "                let _ = staging.discard();", "                let _ = staging.commit();",
     'with_staging_lock renames the staged file on the Err arm'),
    ('C02-offset-not-shifted', 'C02', M,
     "        if let Some(track) = self.toc.sketch_track.as_mut() {\n            if track.bytes_offset != 0 {\n                track.bytes_offset += delta;\n            }\n        }\n", "",
     'adjust_offsets_after_wal_growth forgets the sketch track'),
    ('C03-end-batch-no-flush', 'C03', M, "        self.wal.flush()?;\n        self.wal.set_skip_sync(false);", "        self.wal.set_skip_sync(false);",
     'end_batch drops the batch fsync'),
    ('C04-no-header-persist', 'C04', M,
     "        self.wal.record_checkpoint(&mut self.header)?;\n        crate::persist_header(&mut self.file, &self.header)?;\n        if !delta.is_empty() {",
     "        self.wal.record_checkpoint(&mut self.header)?;\n        if !delta.is_empty() {",
     'recover_wal does not persist the advanced wal_sequence'),
    ('C05-open-sequence-from-zero', 'C05', 'src/io/wal.rs', "            .map_or(checkpoint_sequence, |entry| entry.sequence);", "            .map_or(0, |entry| entry.sequence);",
     'open_internal restarts numbering at 0 when the region scans empty'),
    ('C32-wildcard-expect', 'C32', 'src/search/parser.rs', "Regex::new(&pattern).unwrap_or_else(|_| Regex::new(\"^$\").unwrap());", "Regex::new(&pattern).expect(\"escaped pattern\");",
     'WildcardPattern::new panics when the regex is too big'),
    ('C05-wrap-guard-removed', 'C05', 'src/io/wal.rs', "            if self.pending_bytes > 0 {\n                return Err(MemvidError::CheckpointFailed {\n                    reason: \"embedded WAL region full\".into(),",
     "            if false {\n                return Err(MemvidError::CheckpointFailed {\n                    reason: \"embedded WAL region full\".into(),",
     'append_entry wraps over pending records'),
    ('C06-chunk-increment-dropped', 'C06', M,
     "            self.append_wal_entry(&chunk_bytes)?;\n            self.pending_frame_inserts = self.pending_frame_inserts.saturating_add(1);", "            self.append_wal_entry(&chunk_bytes)?;",
     'put_internal does not count chunk inserts'),
    ('C08-delete-keeps-index', 'C08', M,
     "        frame.status = FrameStatus::Deleted;\n        frame.superseded_by = None;\n        self.remove_frame_from_indexes(frame_id)", "        frame.status = FrameStatus::Deleted;\n        frame.superseded_by = None;\n        Ok(())",
     'mark_frame_deleted leaves the frame in the in-memory indexes'),
    ('C13-no-dimension-check', 'C13', 'src/memvid/search/api.rs',
     "        if expected_dim > 0 && (query_embedding.len() as u32) != expected_dim {\n            return Err(MemvidError::VecDimensionMismatch {\n                expected: expected_dim,\n                actual: query_embedding.len(),\n            });\n        }\n\n        let start_time = Instant::now();",
     "        let _ = expected_dim;\n\n        let start_time = Instant::now();", 'vec_search_with_embedding_acl without the dimension comparison'),
    ('C17-lock-not-installed', 'C17', M, "                        self.lock = staged_lock;\n", "                        drop(staged_lock);\n", 'with_staging_lock drops the staged lock'),
    ('C20-toc-hash-unchecked', 'C20', 'src/memvid/lifecycle.rs',
     "    if !footer.hash_matches(toc_bytes) {\n        return Err(MemvidError::InvalidToc {\n            reason: \"commit footer toc hash mismatch\".into(),\n        });\n    }\n", "",
     'read_toc accepts a TOC whose hash does not match the footer'),
    ('C25-seq-equal-accepted', 'C25', 'src/memvid/ticket.rs', "        if ticket.seq_no <= current_seq {\n            return Err(MemvidError::TicketSequence {\n                expected: current_seq + 1,\n                actual: ticket.seq_no,\n            });\n        }\n\n        self.toc.ticket_ref.capacity_bytes = ticket.capacity_bytes.unwrap_or(0);",
     "        if ticket.seq_no < current_seq {\n            return Err(MemvidError::TicketSequence {\n                expected: current_seq + 1,\n                actual: ticket.seq_no,\n            });\n        }\n\n        self.toc.ticket_ref.capacity_bytes = ticket.capacity_bytes.unwrap_or(0);",
     'apply_ticket accepts a replayed sequence number'),
    ('C31-footer-hash-unchecked', 'C31', 'src/footer.rs', "            if !footer.hash_matches(toc_bytes) {\n                search_end = pos;\n                continue;\n            }\n", "",
     'find_last_valid_footer returns a footer whose TOC hash does not match'),
    ('C31-hash-prefix-compare', 'C31', 'src/footer.rs', "hasher.finalize().as_bytes() == &self.toc_hash", "hasher.finalize().as_bytes()[..16] == self.toc_hash[..16]",
     'hash_matches compares only the first 16 digest bytes'),
    ('C31-hash-skips-first-byte', 'C31', 'src/footer.rs', "        hasher.update(toc_bytes);\n        hasher.finalize().as_bytes() == &self.toc_hash", "        hasher.update(&toc_bytes[1..]);\n        hasher.finalize() == self.toc_hash",
     'hash_matches hashes toc_bytes[1..]'),
    ('C39-probe-shift', 'C39', 'src/types/sketch_track.rs', "    let h2 = usize::try_from((token_hash >> 16) % (filter_bits as u64)).unwrap_or(0);", "    let h2 = usize::try_from((token_hash >> 17) % (filter_bits as u64)).unwrap_or(0);",
     'term filter probe uses a different bit position than the writer'),
    ('C11-frame-cut-reversed', 'C11', 'src/memvid/search/api.rs', "                if frame.id > cutoff_frame {", "                if frame.id < cutoff_frame {", 'get_replay_frame_ids keeps frames after the cut-off'),
    ('C11-ts-cut-inclusive-wrong', 'C11', 'src/memvid/search/api.rs', "                if frame.timestamp > cutoff_ts {", "                if frame.timestamp >= cutoff_ts + 10 {", 'get_replay_frame_ids lets frames up to 10 s after as_of_ts through'),
    ('C14-remove-noop', 'C14', 'src/vec.rs', "            VecIndex::Uncompressed { documents } => {\n                documents.retain(|doc| doc.frame_id != frame_id);\n            }", "            VecIndex::Uncompressed { documents: _ } => {}", 'VecIndex::remove ignores the exact representation'),
    ('C19-try-open-unguarded', 'C19', 'src/memvid/lifecycle.rs', "    pub(crate) fn try_open<P: AsRef<Path>>(path: P) -> Result<Self> {\n        let path_ref = path.as_ref();\n        ensure_single_file(path_ref)?;", "    pub(crate) fn try_open<P: AsRef<Path>>(path: P) -> Result<Self> {\n        let path_ref = path.as_ref();", 'try_open skips ensure_single_file'),
    ('C27-at-time-ascending', 'C27', 'src/types/memories_track.rs', "            .filter(|c| c.effective_timestamp() <= timestamp)\n            .collect();\n\n        cards.sort_by(|a, b| {\n            let a_time = a.effective_timestamp();\n            let b_time = b.effective_timestamp();\n            b_time.cmp(&a_time)", "            .filter(|c| c.effective_timestamp() <= timestamp)\n            .collect();\n\n        cards.sort_by(|a, b| {\n            let a_time = a.effective_timestamp();\n            let b_time = b.effective_timestamp();\n            a_time.cmp(&b_time)", 'get_at_time sorts ascending (returns the oldest value)'),
    ('C27-at-time-strict', 'C27', 'src/types/memories_track.rs', "            .filter(|c| c.effective_timestamp() <= timestamp)", "            .filter(|c| c.effective_timestamp() < timestamp)", 'get_at_time excludes a card stamped exactly at the query time'),
    ('C28-incremental-when-dirty', 'C28', M, "                if self.tantivy_dirty {\n                    // instant_index was used", "                if false && self.tantivy_dirty {\n                    // instant_index was used", 'rebuild_indexes keeps provisional instant-index entries'),
    ('C28-instant-index-not-dirty', 'C28', M, "                        engine.add_frame(&temp_frame, text)?;\n                        engine.soft_commit()?;\n                        self.tantivy_dirty = true;", "                        engine.add_frame(&temp_frame, text)?;\n                        engine.soft_commit()?;", 'put_internal instant index does not mark tantivy_dirty'),
    ('C29-nonce-off-by-one', 'C29', 'src/encryption/capsule_stream.rs', None, None, 'encryption config only (hand-tested while writing the rule)'),
    ('C42-vacuum-reads-all', 'C42', M, "            .filter(|frame| frame.status == FrameStatus::Active)\n            .cloned()\n            .collect();\n", "            .cloned()\n            .collect();\n", 'EQUIVALENT: vacuum also reads the payloads of deleted frames (they are never written back: the write loop tests Active) - the check must stay silent'),
    ('C42-offset-after-advance', 'C42', M, "                    frame.payload_offset = cursor;\n                    frame.payload_length = bytes.len() as u64;\n                    cursor += bytes.len() as u64;", "                    frame.payload_length = bytes.len() as u64;\n                    cursor += bytes.len() as u64;\n                    frame.payload_offset = cursor;", 'vacuum records the end of the payload as its offset'),
    ('C23-hashmap-persisted', 'C23', 'src/types/memories_track.rs', "    entries: BTreeMap<String, Vec<MemoryCardId>>,", "    entries: HashMap<String, Vec<MemoryCardId>>,", 'SlotIndex goes back to a serde-serialised HashMap (the state before fix 00289e5)'),
    # ---- equivalent edits: every check must stay silent (property ALL = run all quick checks)
    ('EQ-closure-bound-first', 'ALL', M, "        self.with_staging_lock(move |mem| mem.commit_from_records(records, mode))",
     "        let staged_commit = move |mem: &mut Self| mem.commit_from_records(records, mode);\n        self.with_staging_lock(staged_commit)",
     'EQUIVALENT: commit_with_options binds the staging closure to a local first'),
    ('EQ-hash-one-shot', 'C31', 'src/footer.rs', "        let mut hasher = Hasher::new();\n        hasher.update(toc_bytes);\n        hasher.finalize().as_bytes() == &self.toc_hash", "        *blake3::hash(toc_bytes).as_bytes() == self.toc_hash",
     'EQUIVALENT: hash_matches through blake3::hash and an array comparison'),
    ('EQ-rename-parent-seq', 'ALL', M, "parent_seq", "wal_sequence_of_parent", 'EQUIVALENT: put_internal/apply_records local parent_seq renamed everywhere (replace-all)'),
    ('EQ-ticket-store-order', 'ALL', 'src/memvid/ticket.rs', "        self.toc.ticket_ref.capacity_bytes = ticket.capacity_bytes.unwrap_or(0);\n        self.toc.ticket_ref.issuer = ticket.issuer;\n        self.toc.ticket_ref.seq_no = ticket.seq_no;\n        self.toc.ticket_ref.expires_in_secs = ticket.expires_in_secs;\n        self.toc.ticket_ref.verified = false; // Unsigned tickets are not verified",
     "        self.toc.ticket_ref.verified = false; // Unsigned tickets are not verified\n        self.toc.ticket_ref.expires_in_secs = ticket.expires_in_secs;\n        self.toc.ticket_ref.seq_no = ticket.seq_no;\n        self.toc.ticket_ref.issuer = ticket.issuer;\n        self.toc.ticket_ref.capacity_bytes = ticket.capacity_bytes.unwrap_or(0);",
     'EQUIVALENT: apply_ticket stores the five ticket_ref fields in the opposite order (after the sequence test)'),
    ('EQ-search-debug-lines', 'ALL', 'src/memvid/search/mod.rs', "        let start_time = Instant::now();\n        // parse_query can return structured tokens",
     "        let start_time = Instant::now();\n        tracing::debug!(query = %request.query, top_k = request.top_k, \"search called\");\n        // parse_query can return structured tokens",
     'EQUIVALENT: search logs its arguments'),
    ('EQ-recover-header-reborrow', 'ALL', M, "        self.wal.record_checkpoint(&mut self.header)?;\n        crate::persist_header(&mut self.file, &self.header)?;\n        if !delta.is_empty() {",
     "        {\n            let header = &mut self.header;\n            self.wal.record_checkpoint(header)?;\n        }\n        crate::persist_header(&mut self.file, &self.header)?;\n        if !delta.is_empty() {",
     'EQUIVALENT: recover_wal passes the header through a local reborrow'),
    ('EQ-vacuum-match-instead-of-if', 'ALL', M, "            if frame.status == FrameStatus::Active {\n                if let Some(bytes) = active_payloads.get(&frame.id) {",
     "            if matches!(frame.status, FrameStatus::Active) {\n                if let Some(bytes) = active_payloads.get(&frame.id) {",
     'EQUIVALENT: vacuum tests Active with matches! instead of =='),
    ('EQ-single-file-iter', 'ALL', 'src/memvid/lifecycle.rs', "        let forbidden = [\"-wal\", \"-shm\", \"-lock\", \"-journal\"];\n        for suffix in forbidden {",
     "        let forbidden = [\"-wal\", \"-shm\", \"-lock\", \"-journal\"];\n        for suffix in forbidden.iter().copied() {",
     'EQUIVALENT: ensure_single_file iterates the array through iter().copied()'),
    ('EQ-checksum-operands-swapped', 'ALL', 'src/memvid/frame.rs', "        if frame.checksum != [0u8; 32] && *blake3::hash(&buf).as_bytes() != frame.checksum {",
     "        if [0u8; 32] != frame.checksum && frame.checksum != *blake3::hash(&buf).as_bytes() {", 'EQUIVALENT: read_frame_payload_bytes compares with the operands swapped'),
    ('EQ-replay-cut-negated-form', 'ALL', 'src/memvid/search/api.rs', "                if frame.id > cutoff_frame {", "                if !(frame.id <= cutoff_frame) {", 'EQUIVALENT: get_replay_frame_ids writes the frame cut-off as !(id <= cutoff)'),
    ('EQ-rename-produced', 'ALL', 'src/memvid/search/tantivy.rs', "produced", "emitted_so_far", 'EQUIVALENT: try_tantivy_search page counter renamed (replace-all)'),
    ('EQ-staging-original-file-renamed', 'ALL', M, "original_file", "saved_live_file", 'EQUIVALENT: with_staging_lock local original_file renamed (replace-all)'),
    ('C40-end-batch-order', 'C40', M, "        self.wal.flush()?;\n        self.wal.set_skip_sync(false);", "        self.wal.set_skip_sync(false);\n        self.wal.flush()?;",
     'EQUIVALENT: end_batch restores sync before flushing (flush syncs unconditionally) - the check must stay silent'),
]


def sh(cmd, **kw):
    return subprocess.run(cmd, shell=True, stdout=subprocess.PIPE, stderr=subprocess.STDOUT, text=True, **kw)


def main():
    want = set(sys.argv[1:])
    if sh('git -C %s diff --quiet' % R).returncode != 0:
        print('/repo has uncommitted changes')
        return 2
    res = []
    for mid, prop, f, old, new, what in MUT:
        if want and mid not in want:
            continue
        p = os.path.join(R, f)
        src = open(p).read()
        if old is None:
            res.append(dict(id=mid, property=prop, status='skipped', what=what))
            continue
        if src.count(old) < 1:
            res.append(dict(id=mid, property=prop, status='stale', what=what))
            print('%-32s %-4s stale (anchor text not found)' % (mid, prop))
            continue
        try:
            open(p, 'w').write(src.replace(old, new) if 'replace-all' in what else src.replace(old, new, 1))
            b = sh('cd %s && CARGO_NET_OFFLINE=true cargo check --offline --lib -q 2>&1 | grep -E "^error" | head -3' % R)
            if b.stdout.strip():
                res.append(dict(id=mid, property=prop, status='does-not-compile', what=what, out=b.stdout.strip()))
                print('%-32s %-4s does not compile: %s' % (mid, prop, b.stdout.strip()[:120]))
                continue
            r = sh('cd /verif && ./check %s --tier quick' % ('--all' if prop == 'ALL' else prop))
            fails = [l for l in r.stdout.splitlines() if l.startswith('FAIL ')]
            caught = r.returncode == 1 and any(l.startswith('VIOLATION ') for l in r.stdout.splitlines())
            equiv = what.startswith('EQUIVALENT')
            rules = sorted({l.split('rule=')[1].split(' ')[0] for l in fails})
            res.append(dict(id=mid, property=prop, status=('FALSE-ALARM' if caught else 'silent-as-expected') if equiv else ('caught' if caught else 'missed'), rules=rules, what=what,
                            first=(fails[0][:300] if fails else '')))
            print('%-32s %-4s %s %s' % (mid, prop, (('FALSE-ALARM' if caught else 'silent (equivalent edit)') if equiv else ('CAUGHT' if caught else 'MISSED')), ','.join(rules)))
        finally:
            open(p, 'w').write(src)
    out = '/verif/seeded/hand_mutants.json'
    old = {r['id']: r for r in (json.load(open(out)) if os.path.exists(out) else [])}
    for r in res:
        old[r['id']] = r
    ids = {m[0] for m in MUT}       # entries of edits that were renamed or removed from the list are dropped
    json.dump([old[k] for k in sorted(old) if k in ids], open(out, 'w'), indent=1)
    return 0


if __name__ == '__main__':
    sys.exit(main())
