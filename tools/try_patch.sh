#!/bin/sh
# tools/try_patch.sh <patch.diff> Cnn [Cnn…] : apply a seeded change to /repo, run the checks, undo it.
set -u
P="$1"; shift
cd /repo || exit 2
if ! git diff --quiet; then echo "/repo has uncommitted changes"; exit 2; fi
git apply "$P" || { echo "patch does not apply"; exit 2; }
for c in "$@"; do
  (cd /verif && ./check "$c" --tier quick 2>&1 | grep -E "^(FAIL|VIOLATION|SUMMARY|KNOWN)" | head -${MAXL:-12})
done
git -C /repo checkout -- . 
git -C /repo status --short | head -3
