#!/bin/sh
# Run the pinned suite on /repo's HEAD in a scratch worktree (so /repo can keep changing). Result: /tmp/suite-<sha>.log
SHA=$(git -C /repo rev-parse --short HEAD)
W=/tmp/suite
if [ -d $W ]; then git -C $W checkout -q -f --detach $SHA; else git -C /repo worktree add -q --detach $W $SHA; fi
[ "$(git -C $W rev-parse --short HEAD)" = "$SHA" ] && git -C $W diff --quiet || { echo "suite worktree is not a clean checkout of $SHA" > /tmp/suite-$SHA.log; exit 2; }
cd $W && CARGO_NET_OFFLINE=true cargo nextest run --workspace --no-fail-fast --offline --test-threads 8 > /tmp/suite-$SHA.full 2>&1
grep -E "Summary|^\s+FAIL|error(\[|:)" /tmp/suite-$SHA.full | sort | uniq > /tmp/suite-$SHA.log
