#!/bin/sh
# tools/confirm_queue.sh C06 C03 … : confirm a list of mutant worktrees (/tmp/mut/<id>) one after another
for m in "$@"; do /verif/tools/confirm_mutant.sh /tmp/mut/$m; done
