use memvid_core::*;
use std::io::{Read, Seek, SeekFrom, Write};

fn req(q: &str, top_k: usize) -> SearchRequest {
    SearchRequest { query: q.to_string(), top_k, snippet_chars: 200, uri: None, scope: None, cursor: None,
        #[cfg(feature = "wide")] temporal: None,
        as_of_frame: None, as_of_ts: None, no_sketch: false, acl_context: None,
        acl_enforcement_mode: AclEnforcementMode::Audit }
}

fn c05() {
    // region 240: two 100-byte entries -> head=200, remaining 40 < 48
    let file = tempfile::tempfile().unwrap();
    let size = 240u64;
    file.set_len(4096 + size).unwrap();
    let header = Header { magic: *b"MV2\0", version: 0x0201, footer_offset: 0, wal_offset: 4096, wal_size: size,
        wal_checkpoint_pos: 0, wal_sequence: 0, toc_checksum: [0u8; 32] };
    let mut wal = EmbeddedWal::open(&file, &header).unwrap();
    wal.append_entry(&[0xAA; 52]).unwrap();
    let r2 = wal.append_entry(&[0xBB; 52]);
    println!("C05 second append: {:?}", r2.is_ok());
    let pending = wal.pending_records().unwrap();
    println!("C05 pending after two acked appends (expect 2): {}", pending.len());
}

fn c05exact() {
    // region 300 = three 100-byte entries exactly. One entry is checkpointed (so pending < region size), then two acknowledged
    // appends end exactly on the region boundary: the head becomes (200+100) % 300 = 0 with 200 bytes pending.
    let file = tempfile::tempfile().unwrap();
    let size = 300u64;
    file.set_len(4096 + size).unwrap();
    let mut header = Header { magic: *b"MV2\0", version: 0x0201, footer_offset: 0, wal_offset: 4096, wal_size: size,
        wal_checkpoint_pos: 0, wal_sequence: 0, toc_checksum: [0u8; 32] };
    let mut wal = EmbeddedWal::open(&file, &header).unwrap();
    wal.append_entry(&[0xAA; 52]).unwrap();
    wal.record_checkpoint(&mut header).unwrap();
    let a = wal.append_entry(&[0xBB; 52]).is_ok();
    let b = wal.append_entry(&[0xCC; 52]).is_ok();
    println!("C05exact appends acknowledged: {} {}", a, b);
    println!("C05exact pending in session (expect 2): {:?}", wal.pending_records().map(|r| r.len()));
    drop(wal);
    let mut wal = EmbeddedWal::open(&file, &header).unwrap();
    println!("C05exact pending after reopen (expect 2): {:?}", wal.pending_records().map(|r| r.len()));
    let c = wal.append_entry(&[0xDD; 52]);
    println!("C05exact next append after reopen (expect Err region full -> growth): {:?}", c.as_ref().map_err(|e| e.to_string()));
    println!("C05exact pending after that (expect 2, or 3 if it was accepted): {:?}", wal.pending_records().map(|r| r.len()));
}

fn c26() {
    let dir = tempfile::tempdir().unwrap();
    let p = dir.path().join("a.mv2");
    let mut m = Memvid::create(&p).unwrap();
    m.put_bytes(b"filler one").unwrap(); m.commit().unwrap();
    m.put_bytes(b"filler two").unwrap(); m.commit().unwrap();
    let predicted = m.next_frame_id();
    let seq = m.put_bytes(b"My name is Alice Johnson and I work at Acme Corp. I live in Paris.").unwrap();
    m.commit().unwrap();
    let cards: Vec<_> = m.memories().cards().iter().map(|c| (c.source_frame_id, c.value.clone())).collect();
    println!("C26 predicted frame id {} seq {} frame_count {} cards {:?}", predicted, seq, m.frame_count(), cards);
}

fn c20() {
    let dir = tempfile::tempdir().unwrap();
    let p = dir.path().join("a.mv2");
    { let mut m = Memvid::create(&p).unwrap();
      m.put_bytes(&[0xff, 0xfe, 0x00, 0x01, 0x02, 0x03, 0x04, 0x05, 0x06, 0x07]).unwrap();
      let r = m.commit(); println!("C07/C20 binary commit ok: {:?}", r.is_ok()); if r.is_err() { println!("  err {:?}", r.err()); } }
    let (off, len) = { let m = Memvid::open_read_only(&p).unwrap(); let f = m.frame_by_id(0).unwrap(); (f.payload_offset, f.payload_length) };
    let mut f = std::fs::OpenOptions::new().read(true).write(true).open(&p).unwrap();
    f.seek(SeekFrom::Start(off)).unwrap(); let mut b=[0u8;1]; f.read_exact(&mut b).unwrap(); b[0]^=0x55;
    f.seek(SeekFrom::Start(off)).unwrap(); f.write_all(&b).unwrap(); f.sync_all().unwrap(); drop(f);
    let rep = Memvid::verify(&p, true).unwrap();
    let mut m = Memvid::open_read_only(&p).unwrap();
    let got = m.frame_canonical_payload(0);
    println!("C20 len {} verify {:?} read-after-flip {:?}", len, rep.overall_status, got);
}


fn c20blob() {
    let dir = tempfile::tempdir().unwrap();
    let p = dir.path().join("a.mv2");
    let mut seed = 7u64;
    let data: Vec<u8> = (0..4096).map(|_| (lcg(&mut seed) & 0xff) as u8).collect();
    { let mut m = Memvid::create(&p).unwrap(); m.put_bytes(&data).unwrap(); m.commit().unwrap(); }
    let (off, enc) = { let m = Memvid::open_read_only(&p).unwrap(); let f = m.frame_by_id(0).unwrap(); (f.payload_offset, f.canonical_encoding) };
    let mut f = std::fs::OpenOptions::new().read(true).write(true).open(&p).unwrap();
    f.seek(SeekFrom::Start(off + 100)).unwrap(); let mut b=[0u8;1]; f.read_exact(&mut b).unwrap(); b[0]^=0x55;
    f.seek(SeekFrom::Start(off + 100)).unwrap(); f.write_all(&b).unwrap(); f.sync_all().unwrap(); drop(f);
    let mut m = Memvid::open_read_only(&p).unwrap();
    let mut r = m.blob_reader(0).unwrap();
    let mut got = Vec::new();
    let res = r.read_to_end(&mut got);
    println!("C20blob encoding {:?} blob_reader read {:?} equals-original {} (expect an error or the original)", enc, res.is_ok(), got == data);
    println!("C20blob canonical payload after flip: {:?}", m.frame_canonical_payload(0).map(|v| v == data));
    let rep = Memvid::verify(&p, true).unwrap();
    println!("C20blob verify(deep): {:?} failed checks {:?}", rep.overall_status, rep.checks.iter().filter(|c| c.status == VerificationStatus::Failed).map(|c| (c.name.clone(), c.details.clone())).collect::<Vec<_>>());
    let fr = m.frame_by_id(0).unwrap();
    println!("C20blob frame role {:?} manifest {:?} checksum-zero {} len {}", fr.role, fr.chunk_manifest.is_some(), fr.checksum == [0u8;32], fr.payload_length);
}


fn c07() {
    for n in [100usize, 3000, 4096, 20000] {
        let dir = tempfile::tempdir().unwrap();
        let p = dir.path().join("a.mv2");
        let mut seed = 7u64;
        let data: Vec<u8> = (0..n).map(|_| (lcg(&mut seed) & 0xff) as u8).collect();
        let mut m = Memvid::create(&p).unwrap(); m.put_bytes(&data).unwrap(); m.commit().unwrap();
        let fr = m.frame_by_id(0).unwrap();
        let got = m.frame_canonical_payload(0).unwrap();
        let mut r = m.blob_reader(0).unwrap(); let mut b = Vec::new(); r.read_to_end(&mut b).unwrap();
        println!("C07 n={} utf8={} frames={} manifest={} canonical==P {} (len {}) blob==P {}", n, std::str::from_utf8(&data).is_ok(), m.frame_count(), fr.chunk_manifest.is_some(), got == data, got.len(), b == data);
    }
}


fn c39() {
    use memvid_core::types::{SketchTrack, SketchVariant, generate_sketch, write_sketch_track, read_sketch_track};
    let mut t = SketchTrack::new(SketchVariant::Small);
    t.insert(generate_sketch(0, "alpha beta gamma delta", SketchVariant::Small, None));
    t.insert(generate_sketch(5, "zebra yak xylophone walrus", SketchVariant::Small, None));
    let mut cur = std::io::Cursor::new(Vec::new());
    let (off, len, _) = write_sketch_track(&mut cur, &t).unwrap();
    let back = read_sketch_track(&mut cur, off, len).unwrap();
    let ids_in: Vec<u64> = t.iter().map(|e| e.frame_id).collect();
    let ids_out: Vec<u64> = back.iter().map(|e| e.frame_id).collect();
    println!("C39 sketch track ids written {:?} read back {:?}", ids_in, ids_out);
}


#[cfg(feature = "wide")]
fn c19() {
    let dir = tempfile::tempdir().unwrap();
    let p = dir.path().join("a.mv2");
    let mut m = Memvid::create(&p).unwrap();
    m.put_bytes(b"hello sidecar world").unwrap();
    m.commit().unwrap();
    let ls = |d: &std::path::Path| { let mut v: Vec<String> = std::fs::read_dir(d).unwrap().map(|e| e.unwrap().file_name().to_string_lossy().to_string()).collect(); v.sort(); v };
    println!("C19 directory while handle alive (after create/put/commit): {:?}", ls(dir.path()));
    let sid = m.start_session(Some("s".to_string()), None);
    println!("C19 start_session: {:?}", sid.is_ok());
    let _ = m.save_active_session();
    println!("C19 directory after save_active_session: {:?}", ls(dir.path()));
    drop(m);
    println!("C19 directory after drop: {:?}", ls(dir.path()));
}
#[cfg(feature = "wide")]
fn c26replay() {
    let dir = tempfile::tempdir().unwrap();
    let p = dir.path().join("a.mv2");
    let mut m = Memvid::create(&p).unwrap();
    // two puts and a delete before the session: WAL sequences run ahead of frame ids
    m.put_bytes(b"first document").unwrap();
    m.put_bytes(b"second document").unwrap();
    m.commit().unwrap();
    m.delete_frame(0).unwrap();
    m.start_session(Some("s".to_string()), None).unwrap();
    let id = m.put_bytes(b"third document, recorded").unwrap();
    let sess = m.end_session().unwrap();
    println!("C26replay put returned sequence {} ; next_frame_id-1 (the frame's id) = {}", id, m.next_frame_id() - 1);
    for a in &sess.actions { println!("C26replay recorded action {:?} affected {:?}", a.action_type, a.affected_frames); }
}
#[cfg(feature = "wide")]
fn c18replay() {
    let dir = tempfile::tempdir().unwrap();
    let p = dir.path().join("a.mv2");
    { let mut m = Memvid::create(&p).unwrap(); m.put_bytes(b"hello read only world").unwrap(); m.commit().unwrap(); }
    let before = std::fs::read(&p).unwrap();
    {
        let mut m = Memvid::open_read_only(&p).unwrap();
        m.start_session(Some("s".to_string()), None).unwrap();
        let _ = m.search(req("hello", 3));
        let s = m.end_session();
        println!("C18replay end_session ok={}", s.is_ok());
        let r = m.save_replay_sessions();
        println!("C18replay save_replay_sessions on a read-only handle: {:?}", r.as_ref().map(|_| ()).map_err(|e| e.to_string()));
        let c = m.commit();
        println!("C18replay commit on the read-only handle: {:?}", c.map_err(|e| e.to_string()));
    }
    let after = std::fs::read(&p).unwrap();
    let diff = before.iter().zip(after.iter()).filter(|(a,b)| a!=b).count();
    println!("C18replay file changed: {} (len {} -> {}, differing bytes in common prefix {})", before != after, before.len(), after.len(), diff);
    let re = Memvid::open_read_only(&p);
    println!("C18replay reopen read-only afterwards ok={} {:?}", re.is_ok(), re.err().map(|e| e.to_string()));
    let v = Memvid::verify(&p, false);
    println!("C18replay verify: {:?}", v.map(|r| r.overall_status).map_err(|e| e.to_string()));
}
#[cfg(feature = "wide")]
fn c02replay() {
    let dir = tempfile::tempdir().unwrap();
    let p = dir.path().join("a.mv2");
    let mut m = Memvid::create(&p).unwrap();
    m.put_bytes(b"hello crash world").unwrap(); m.commit().unwrap();
    m.start_session(Some("s".to_string()), None).unwrap();
    let _ = m.search(req("hello", 3));
    m.end_session().unwrap();
    m.save_replay_sessions().unwrap();
    // process dies here: everything written so far persists (process-crash model), nothing else happens
    let crash = dir.path().join("crash.mv2");
    std::fs::copy(&p, &crash).unwrap();
    std::mem::forget(m);
    let r = Memvid::open_read_only(&crash);
    println!("C02replay open_read_only of the crash image: ok={} {:?}", r.is_ok(), r.as_ref().err().map(|e| e.to_string()));
    if let Ok(m2) = r { println!("C02replay frames visible: {}", m2.frame_count()); }
    let crash2 = dir.path().join("crash2.mv2");
    std::fs::copy(&crash, &crash2).unwrap();
    let r = Memvid::open(&crash2);
    println!("C02replay open (writable) of the crash image: ok={} {:?}", r.is_ok(), r.as_ref().err().map(|e| e.to_string()));
    if let Ok(m2) = r { println!("C02replay frames visible: {}", m2.frame_count()); }
}
#[cfg(not(feature = "wide"))]
fn c02replay() { println!("needs --features wide"); }
#[cfg(not(feature = "wide"))]
fn c18replay() { println!("needs --features wide"); }
#[cfg(not(feature = "wide"))]
fn c26replay() { println!("needs --features wide"); }
#[cfg(not(feature = "wide"))]
fn c19() { println!("C19 needs --features wide"); }

fn c02growth() {
    // commit (persists a sketch track), then un-committed puts large enough to grow the embedded WAL;
    // the process dies before the next commit.
    let dir = tempfile::tempdir().unwrap();
    let p = dir.path().join("a.mv2");
    let mut m = Memvid::create(&p).unwrap();
    m.put_bytes(b"alpha beta gamma delta: a first small committed document").unwrap();
    m.commit().unwrap();
    let st = m.stats().unwrap();
    println!("C02growth wal bytes before {:?}", st.wal_bytes);
    let mut x: u64 = 0x9e3779b97f4a7c15;
    for i in 0..6 {
        let blob: Vec<u8> = (0..40_000).map(|_| { x ^= x << 13; x ^= x >> 7; x ^= x << 17; (x & 0xff) as u8 }).collect();
        let mut o = PutOptions::default(); o.uri = Some(format!("mv2://blob/{}", i));
        m.put_bytes_with_options(&blob, o).unwrap();
    }
    println!("C02growth wal bytes after {:?}", m.stats().unwrap().wal_bytes);
    let crash = dir.path().join("crash.mv2");
    std::fs::copy(&p, &crash).unwrap();
    std::mem::forget(m);
    let r = Memvid::open(&crash);
    println!("C02growth open of the crash image: ok={} {:?}", r.is_ok(), r.as_ref().err().map(|e| e.to_string()));
    if let Ok(m2) = r { println!("C02growth frames visible: {}", m2.frame_count()); }
}

fn c04() {
    // a crash-left file with one pending insert; recovery on open persists the header twice (inside rebuild_indexes
    // with the new footer but the old wal_sequence, then with the advanced wal_sequence). A process crash between
    // the two writes = the recovered file with header bytes 32..48 (wal_checkpoint_pos, wal_sequence) still old.
    let dir = tempfile::tempdir().unwrap();
    let p = dir.path().join("a.mv2");
    let mut m = Memvid::create(&p).unwrap();
    m.put_bytes(b"committed document A").unwrap(); m.commit().unwrap();
    m.put_bytes(b"pending document B").unwrap();
    let crash = dir.path().join("crash.mv2");
    std::fs::copy(&p, &crash).unwrap();
    std::mem::forget(m);
    let before = std::fs::read(&crash).unwrap();
    { let m1 = Memvid::open(&crash).unwrap(); println!("C04 uninterrupted recovery: frames = {}", m1.frame_count()); }
    { let m1 = Memvid::open(&crash).unwrap(); println!("C04 reopen of the recovered file: frames = {}", m1.frame_count()); }
    let mut img = std::fs::read(&crash).unwrap();
    img[32..48].copy_from_slice(&before[32..48]);
    std::fs::write(&crash, &img).unwrap();
    match Memvid::open(&crash) { Ok(m2) => println!("C04 open after a crash between the two header writes: frames = {}", m2.frame_count()), Err(e) => println!("C04 open after crash failed: {}", e) }
}

fn c20wal() {
    // committed, closed file; flip one byte of the *sequence* field of the (already checkpointed) first WAL record
    let dir = tempfile::tempdir().unwrap();
    let p = dir.path().join("a.mv2");
    { let mut m = Memvid::create(&p).unwrap(); m.put_bytes(b"the one committed document").unwrap(); m.commit().unwrap(); }
    { let m = Memvid::open_read_only(&p).unwrap(); println!("C20wal committed frames = {}", m.frame_count()); }
    let mut img = std::fs::read(&p).unwrap();
    let wal_off = u64::from_le_bytes(img[16..24].try_into().unwrap()) as usize;
    println!("C20wal wal_offset {} first record sequence {} header.wal_sequence {}", wal_off, u64::from_le_bytes(img[wal_off..wal_off+8].try_into().unwrap()), u64::from_le_bytes(img[40..48].try_into().unwrap()));
    img[wal_off + 1] ^= 0x01;
    std::fs::write(&p, &img).unwrap();
    let v = Memvid::verify(&p, true);
    println!("C20wal verify(deep) after the flip: {:?}", v.map(|r| r.overall_status).map_err(|e| e.to_string()));
    match Memvid::open(&p) { Ok(m) => println!("C20wal open after the flip: frames = {}", m.frame_count()), Err(e) => println!("C20wal open after the flip failed: {}", e) }
}

fn c23mem() {
    // the same cards added in the same order to two fresh tracks: are the persisted bytes identical?
    let build = || {
        let mut t = MemoriesTrack::new();
        for (i, (e, sl, v)) in [("alice","employer","Acme"),("alice","city","Paris"),("bob","employer","Initech"),("bob","pet","cat"),("carol","city","Oslo"),("carol","hobby","chess")].iter().enumerate() {
            let c = MemoryCardBuilder::new().fact().entity(*e).slot(*sl).value(*v).source(i as u64, None).engine("triage","1").document_date(1000 + i as i64).build(0).unwrap();
            let mut c = c; c.created_at = 5000;
            t.add_card(c);
        }
        t.serialize().unwrap()
    };
    let a = build(); let b = build();
    // the JSON is zstd-compressed: compare the decoded documents
    let ja = zstd::decode_all(&a[14..]).unwrap(); let jb = zstd::decode_all(&b[14..]).unwrap();
    println!("C23mem serialized twice: {} vs {} bytes, identical = {}", a.len(), b.len(), a == b);
    println!("C23mem decoded JSON identical = {} ; same length = {}", ja == jb, ja.len() == jb.len());
    if ja != jb { let p = ja.iter().zip(jb.iter()).position(|(x,y)| x != y).unwrap(); println!("C23mem first difference at {}: {:?} vs {:?}", p, String::from_utf8_lossy(&ja[p.saturating_sub(20)..(p+40).min(ja.len())]), String::from_utf8_lossy(&jb[p.saturating_sub(20)..(p+40).min(jb.len())])); }
}

fn c27rec() {
    // committed memory cards, then an un-committed put, then a process crash: does open-time recovery keep the cards?
    let dir = tempfile::tempdir().unwrap();
    let p = dir.path().join("a.mv2");
    let mut m = Memvid::create(&p).unwrap();
    m.put_bytes(b"some committed document").unwrap();
    let c = MemoryCardBuilder::new().fact().entity("user").slot("location").value("Paris").document_date(500).source(0, None).engine("triage","1").build(0).unwrap();
    m.put_memory_card(c).unwrap();
    m.commit().unwrap();
    println!("C27rec committed: current memory = {:?}", m.get_current_memory("user","location").map(|c| c.value.clone()));
    drop(m);
    { let m = Memvid::open_read_only(&p).unwrap(); println!("C27rec reopened (no recovery needed): current memory = {:?}", m.get_current_memory("user","location").map(|c| c.value.clone())); }
    let mut m = Memvid::open(&p).unwrap();
    m.put_bytes(b"a later document that is acknowledged but not committed").unwrap();
    let crash = dir.path().join("crash.mv2");
    std::fs::copy(&p, &crash).unwrap();
    std::mem::forget(m);
    let m2 = Memvid::open(&crash).unwrap();
    println!("C27rec after crash recovery: frames = {}, current memory = {:?}", m2.frame_count(), m2.get_current_memory("user","location").map(|c| c.value.clone()));
    drop(m2);
    let m3 = Memvid::open_read_only(&crash).unwrap();
    println!("C27rec recovered file reopened: current memory = {:?}", m3.get_current_memory("user","location").map(|c| c.value.clone()));
}

fn c27auto() {
    // a put whose WAL append trips the auto-checkpoint: the commit runs inside put, *before* the cards of that
    // document are extracted; nothing marks the handle dirty afterwards. Try every history length k.
    for k in 1..=45usize {
        let dir = tempfile::tempdir().unwrap();
        let p = dir.path().join("a.mv2");
        let mut m = Memvid::create(&p).unwrap();
        let mut x: u64 = 0x9e3779b97f4a7c15;
        for n in 0..k {
            let filler: String = (0..1500).map(|_| { x ^= x << 13; x ^= x >> 7; x ^= x << 17; char::from(b'a' + (x % 26) as u8) }).collect();
            let text = format!("I work at Company{}. I live in City{}. {}", n, n, filler);
            m.put_bytes(text.as_bytes()).unwrap();
        }
        let before: Vec<String> = m.get_entity_memories("user").iter().map(|c| c.value.clone()).collect();
        drop(m);
        let m2 = Memvid::open_read_only(&p).unwrap();
        let after: Vec<String> = m2.get_entity_memories("user").iter().map(|c| c.value.clone()).collect();
        if before.len() != after.len() {
            let lost: Vec<_> = before.iter().filter(|v| !after.contains(v)).collect();
            println!("C27auto k={} puts then drop: {} card values in memory, {} after reopen; lost {:?}", k, before.len(), after.len(), lost);
            return;
        }
    }
    println!("C27auto no history length up to 45 lost a card");
}

fn c40stale() {
    // committed frames, then a WAL growth (batch pre-sizing) followed by a commit that inserts nothing
    let dir = tempfile::tempdir().unwrap();
    let p = dir.path().join("a.mv2");
    let mut m = Memvid::create(&p).unwrap();
    m.put_bytes(b"first committed document, alpha").unwrap();
    m.put_bytes(b"second committed document, beta").unwrap();
    m.commit().unwrap();
    let mut opts = PutManyOpts::default();
    opts.wal_pre_size_bytes = 1 << 20;
    m.begin_batch(opts).unwrap();
    m.delete_frame(1).unwrap();
    m.end_batch().unwrap();
    let c = m.commit();
    println!("C40stale commit after pre-size + delete: {:?}", c.as_ref().map_err(|e| e.to_string()));
    let r0 = m.frame_canonical_payload(0);
    println!("C40stale same handle, payload of frame 0: {:?}", r0.map(|b| String::from_utf8_lossy(&b).into_owned()).map_err(|e| e.to_string()));
    let id = m.put_bytes(b"third document, written after the growth").map_err(|e| e.to_string());
    println!("C40stale put after: {:?}", id);
    println!("C40stale commit: {:?}", m.commit().map_err(|e| e.to_string()));
    drop(m);
    match Memvid::open_read_only(&p) {
        Ok(m2) => {
            println!("C40stale reopened: frames = {}", m2.frame_count());
            for i in 0..m2.frame_count() as u64 { println!("C40stale   frame {} payload: {:?}", i, m2.frame_by_id(i).map(|f| f.status).map_err(|e| e.to_string())); }
        }
        Err(e) => println!("C40stale reopen failed: {}", e),
    }
    let v = Memvid::verify(&p, true);
    println!("C40stale verify(deep): {:?}", v.map(|r| r.overall_status).map_err(|e| e.to_string()));
    let mut m3 = Memvid::open(&p).unwrap();
    println!("C40stale payload 0 after reopen: {:?}", m3.frame_canonical_payload(0).map(|b| String::from_utf8_lossy(&b).into_owned()).map_err(|e| e.to_string()));
    println!("C40stale payload 2 after reopen: {:?}", m3.frame_canonical_payload(2).map(|b| String::from_utf8_lossy(&b).into_owned()).map_err(|e| e.to_string()));
}

fn c27skip() {
    let dir = tempfile::tempdir().unwrap();
    let p = dir.path().join("a.mv2");
    let mut m = Memvid::create(&p).unwrap();
    m.put_bytes(b"I work at Anthropic. I live in San Francisco.").unwrap();
    println!("C27skip cards in memory after put: {}", m.get_entity_memories("user").len());
    m.commit_skip_indexes().unwrap();
    println!("C27skip cards in memory after commit_skip_indexes: {}", m.get_entity_memories("user").len());
    m.finalize_indexes().unwrap();
    println!("C27skip cards in memory after finalize_indexes: {}", m.get_entity_memories("user").len());
    drop(m);
    let m2 = Memvid::open_read_only(&p).unwrap();
    println!("C27skip after reopen: frames = {}, cards = {}", m2.frame_count(), m2.get_entity_memories("user").len());
}

fn c32() {
    let dir = tempfile::tempdir().unwrap();
    let p = dir.path().join("a.mv2");
    let mut m = Memvid::create(&p).unwrap();
    m.put_bytes(b"hello world").unwrap(); m.commit().unwrap();
    let depth: usize = std::env::var("DEPTH").ok().and_then(|s| s.parse().ok()).unwrap_or(200000);
    let q = format!("{}hello{}", "(".repeat(depth), ")".repeat(depth));
    let r = m.search(req(&q, 5));
    println!("C32 deep query result ok={}", r.is_ok());
}

fn c11() {
    let dir = tempfile::tempdir().unwrap();
    let p = dir.path().join("a.mv2");
    let mut m = Memvid::create(&p).unwrap();
    // frame 0: does not contain the word; frames 1.. contain it
    let mut o = PutOptions::default(); o.timestamp = Some(1000);
    m.put_bytes_with_options(b"alpha beta gamma delta epsilon zeta eta theta", o.clone()).unwrap();
    o.timestamp = Some(2000);
    m.put_bytes_with_options(b"zebra zebra zebra zebra stripes stripes", o.clone()).unwrap();
    m.commit().unwrap();
    let mut r = req("zebra", 5); r.as_of_frame = Some(0);
    let resp = m.search(r).unwrap();
    println!("C11 as_of_frame=0 hits: {:?}", resp.hits.iter().map(|h| h.frame_id).collect::<Vec<_>>());
    let mut r = req("zebra", 5); r.as_of_ts = Some(1500);
    let resp = m.search(r).unwrap();
    println!("C11 as_of_ts=1500 hits: {:?}", resp.hits.iter().map(|h| h.frame_id).collect::<Vec<_>>());
}

fn c17() {
    let dir = tempfile::tempdir().unwrap();
    let p = dir.path().join("a.mv2");
    let mut m = Memvid::create(&p).unwrap();
    m.put_bytes(b"hello").unwrap(); m.commit().unwrap();
    let f = std::fs::OpenOptions::new().read(true).write(true).open(&p).unwrap();
    let second = FileLock::try_acquire(&f, &p).unwrap();
    println!("C17 second exclusive lock while first writer alive acquired: {}", second.is_some());
    drop(m);
}


fn c16() {
    let dir = tempfile::tempdir().unwrap();
    let p = dir.path().join("a.mv2");
    let mut m = Memvid::create(&p).unwrap();
    for i in 0..40 { let mut o = PutOptions::default(); o.timestamp = Some(1000 + i); o.uri = Some(format!("mv2://d/{i}"));
        m.put_bytes_with_options(format!("document number {i} mentions walrus once").as_bytes(), o).unwrap(); }
    m.commit().unwrap();
    let mut cursor: Option<String> = None; let mut totals = vec![]; let mut seq = vec![];
    for _ in 0..20 { let mut r = req("walrus", 3); r.no_sketch = true; r.cursor = cursor.clone();
        let resp = m.search(r).unwrap(); totals.push(resp.total_hits);
        seq.extend(resp.hits.iter().map(|h| h.frame_id)); cursor = resp.next_cursor.clone(); if cursor.is_none() { break; } }
    let mut r = req("walrus", 100); r.no_sketch = true; let all = m.search(r).unwrap();
    println!("C16 totals per page {:?}", totals);
    println!("C16 paged seq len {} single-request len {} total {}", seq.len(), all.hits.len(), all.total_hits);
    let mut d = seq.clone(); d.sort(); d.dedup(); println!("C16 distinct in paged {}", d.len());
}
fn c40() {
    let dir = tempfile::tempdir().unwrap();
    let p = dir.path().join("a.mv2");
    let mut m = Memvid::create(&p).unwrap();
    m.put_with_embedding(b"first doc", vec![1.0, 0.0]).unwrap();
    m.put_with_embedding(b"second doc", vec![0.0, 1.0]).unwrap();
    m.commit_skip_indexes().unwrap();
    m.finalize_indexes().unwrap();
    let r = m.search_vec(&[1.0, 0.0], 5);
    println!("C40 skip-index+finalize search_vec: {:?}", r.map(|v| v.len()));
    let p2 = dir.path().join("b.mv2");
    let mut m2 = Memvid::create(&p2).unwrap();
    m2.put_with_embedding(b"first doc", vec![1.0, 0.0]).unwrap();
    m2.put_with_embedding(b"second doc", vec![0.0, 1.0]).unwrap();
    m2.commit().unwrap();
    println!("C40 plain commit search_vec: {:?}", m2.search_vec(&[1.0, 0.0], 5).map(|v| v.len()));
}
fn c24() {
    let dir = tempfile::tempdir().unwrap();
    let p = dir.path().join("a.mv2");
    let mut m = Memvid::create(&p).unwrap();
    let base = m.stats().unwrap();
    let end = 4096 + 65536u64;
    #[allow(deprecated)]
    m.apply_ticket(Ticket::new("issuer", 2).capacity_bytes(end + 3000)).unwrap();
    let blob: Vec<u8> = (0..2000u32).map(|i| (i.wrapping_mul(2654435761) >> 7) as u8 | 0x80).collect();
    let a = m.put_bytes(&blob).is_ok(); let b = m.put_bytes(&blob).is_ok(); let c = m.put_bytes(&blob).is_ok();
    let cm = m.commit();
    let st = m.stats().unwrap();
    let maxend = (0..m.frame_count() as u64).map(|i| { let f = m.frame_by_id(i).unwrap(); f.payload_offset + f.payload_length }).max().unwrap_or(0);
    println!("C24 puts ok {a} {b} {c} commit {:?} capacity {} payload_end {} (base size {})", cm.is_ok(), st.capacity_bytes, maxend, base.size_bytes);
}
fn c15() {
    let dir = tempfile::tempdir().unwrap();
    let p = dir.path().join("a.mv2");
    let mut m = Memvid::create(&p).unwrap();
    let mut o = PutOptions::default(); o.timestamp = Some(500); o.role = FrameRole::ExtractedImage;
    m.put_bytes_with_options(b"early image", o).unwrap();
    let mut o = PutOptions::default(); o.timestamp = Some(1000);
    m.put_bytes_with_options(b"doc one", o).unwrap();
    let mut o = PutOptions::default(); o.timestamp = Some(2000);
    m.put_bytes_with_options(b"doc two", o).unwrap();
    m.commit().unwrap();
    let t = m.timeline(TimelineQuery::default()).unwrap();
    println!("C15 timeline (ts,id): {:?}", t.iter().map(|e| (e.timestamp, e.frame_id)).collect::<Vec<_>>());
}
fn c22() {
    let dir = tempfile::tempdir().unwrap();
    let p = dir.path().join("a.mv2");
    let mut m = Memvid::create(&p).unwrap();
    m.put_bytes(b"pending record").unwrap();
    std::mem::forget(m); // simulate process death before commit
    let r = std::panic::catch_unwind(|| Memvid::doctor_plan(&p, DoctorOptions::default()).map(|_| ()));
    println!("C22 doctor_plan on crash-left file panicked: {}", r.is_err());
}


fn lcg(s: &mut u64) -> u64 { *s = s.wrapping_mul(6364136223846793005).wrapping_add(1442695040888963407); *s >> 33 }
fn c09() {
    let dir = tempfile::tempdir().unwrap();
    let p = dir.path().join("a.mv2");
    let mut m = Memvid::create(&p).unwrap();
    let vocab: Vec<String> = (0..400).map(|i| format!("w{}x{}", i, i*7)).collect();
    let mut seed = 42u64; let mut planted = vec![];
    for i in 0..60u64 {
        let mut words: Vec<String> = (0..300).map(|_| vocab[(lcg(&mut seed) % 400) as usize].clone()).collect();
        if i % 6 == 0 { let pos = (lcg(&mut seed) % 300) as usize; words[pos] = "quokka".to_string(); planted.push(i); }
        let mut o = PutOptions::default(); o.timestamp = Some(1000 + i as i64);
        m.put_bytes_with_options(words.join(" ").as_bytes(), o).unwrap();
    }
    m.commit().unwrap();
    let with = m.search(req("quokka", 50)).unwrap();
    let mut r = req("quokka", 50); r.no_sketch = true; let without = m.search(r).unwrap();
    let mut a: Vec<_> = with.hits.iter().map(|h| h.frame_id).collect(); a.sort(); a.dedup();
    let mut b: Vec<_> = without.hits.iter().map(|h| h.frame_id).collect(); b.sort(); b.dedup();
    println!("C09 planted {} with-sketch {:?} no-sketch {:?}", planted.len(), a.len(), b.len());
}
fn c18() {
    let dir = tempfile::tempdir().unwrap();
    let p = dir.path().join("a.mv2");
    { let mut m = Memvid::create(&p).unwrap(); m.put_bytes(b"hello").unwrap(); m.commit().unwrap(); }
    { let mut f = std::fs::OpenOptions::new().read(true).write(true).open(&p).unwrap();
      f.seek(SeekFrom::Start(100)).unwrap(); f.write_all(&[1]).unwrap(); f.sync_all().unwrap(); }
    let before = std::fs::read(&p).unwrap();
    { let m = Memvid::open_read_only(&p).unwrap(); let _ = m.frame_count(); }
    let after = std::fs::read(&p).unwrap();
    println!("C18 file changed by open_read_only on legacy-lock header: {}", before != after);
}
fn c23() {
    let run = |name: &str| { let dir = tempfile::tempdir().unwrap(); let p = dir.path().join(name);
        let mut m = Memvid::create(&p).unwrap();
        let mut o = PutOptions::default(); o.timestamp = Some(1000); o.uri = Some("mv2://a".into());
        m.put_bytes_with_options(b"hello determinism", o).unwrap(); m.commit().unwrap(); drop(m);
        std::fs::read(&p).unwrap() };
    let a = run("x.mv2"); let b = run("x.mv2");
    let diff = a.iter().zip(b.iter()).filter(|(x,y)| x!=y).count();
    println!("C23 same calls twice: len {} vs {} differing bytes {}", a.len(), b.len(), diff);
}


#[cfg(feature = "wide")]
fn c29() {
    use memvid_core::encryption::{lock_file, unlock_file};
    let dir = tempfile::tempdir().unwrap();
    let p = dir.path().join("a.mv2");
    { let mut m = Memvid::create(&p).unwrap();
      let blob: Vec<u8> = (0..2_400_000u32).map(|i| (i.wrapping_mul(2654435761) >> 9) as u8 | 0x80).collect();
      m.put_bytes(&blob).unwrap(); m.commit().unwrap(); }
    let orig = std::fs::read(&p).unwrap();
    let cap = lock_file(&p, None, b"pw").unwrap();
    let bytes = std::fs::read(&cap).unwrap();
    // header 64 bytes, then [len u32][chunk]...; cut after the first chunk
    let l0 = u32::from_le_bytes(bytes[64..68].try_into().unwrap()) as usize;
    let cut = 64 + 4 + l0;
    let capt = dir.path().join("t.mv2e"); std::fs::write(&capt, &bytes[..cut]).unwrap();
    let out = dir.path().join("out.mv2");
    let r = unlock_file(&capt, Some(&out), b"pw");
    let got = std::fs::read(&out).unwrap_or_default();
    println!("C29 orig {} capsule {} truncated at {} unlock ok={} plaintext len {} equal={}", orig.len(), bytes.len(), cut, r.is_ok(), got.len(), got == orig);
}
#[cfg(not(feature = "wide"))]
fn c29() { println!("C29 needs --features wide"); }
#[cfg(feature = "wide")]
fn c14() {
    let dir = tempfile::tempdir().unwrap();
    let p = dir.path().join("a.mv2");
    let mut m = Memvid::create(&p).unwrap();
    let mut seed = 7u64;
    for i in 0..1001u64 { let e: Vec<f32> = (0..4).map(|_| (lcg(&mut seed) % 1000) as f32 / 1000.0).collect();
        let mut o = PutOptions::default(); o.timestamp = Some(1000 + i as i64); o.instant_index = false; o.extract_triplets = false; o.auto_tag = false;
        m.put_with_embedding_and_options(format!("doc {i}").as_bytes(), e, o).unwrap(); }
    m.commit().unwrap();
    println!("C14 after first commit vector_count {}", m.stats().unwrap().vector_count);
    m.put_with_embedding(b"one more", vec![0.5, 0.5, 0.5, 0.5]).unwrap();
    m.commit().unwrap();
    println!("C14 after second commit vector_count {}", m.stats().unwrap().vector_count);
}
#[cfg(not(feature = "wide"))]
fn c14() { println!("C14 needs --features wide"); }


fn c08() {
    let dir = tempfile::tempdir().unwrap();
    let p = dir.path().join("a.mv2");
    let mut m = Memvid::create(&p).unwrap();
    let mut o = PutOptions::default(); o.timestamp = Some(1000); o.uri = Some("mv2://parent".into());
    m.put_bytes_with_options(b"parent doc", o).unwrap(); m.commit().unwrap();
    let mut o = PutOptions::default(); o.timestamp = Some(1001); o.uri = Some("mv2://child".into());
    o.parent_id = Some(0); o.role = FrameRole::ExtractedImage; o.source_path = Some("/tmp/orig.png".into());
    m.put_bytes_with_options(b"child image bytes", o).unwrap(); m.commit().unwrap();
    let before = m.frame_by_uri("mv2://child").unwrap();
    let mut u = PutOptions::default(); u.title = Some("new title".into());
    m.update_frame(before.id, None, u, None).unwrap(); m.commit().unwrap();
    let after = m.frame_by_uri("mv2://child").unwrap();
    println!("C08 before id {} parent {:?} role {:?} source_path {:?}", before.id, before.parent_id, before.role, before.source_path);
    println!("C08 after  id {} parent {:?} role {:?} source_path {:?} title {:?}", after.id, after.parent_id, after.role, after.source_path, after.title);
}

fn main() {
    let which = std::env::args().nth(1).unwrap_or_default();
    match which.as_str() { "c05"=>c05(), "c05exact"=>c05exact(), "c26"=>c26(), "c20"=>c20(), "c20blob"=>c20blob(), "c07"=>c07(), "c39"=>c39(), "c19"=>c19(), "c02growth"=>c02growth(), "c04"=>c04(), "c27skip"=>c27skip(), "c40stale"=>c40stale(), "c27auto"=>c27auto(), "c27rec"=>c27rec(), "c23mem"=>c23mem(), "c20wal"=>c20wal(), "c26replay"=>c26replay(), "c18replay"=>c18replay(), "c02replay"=>c02replay(), "c32"=>c32(), "c11"=>c11(), "c17"=>c17(), "c08"=>c08(), "c29"=>c29(), "c14"=>c14(), "c09"=>c09(), "c18"=>c18(), "c23"=>c23(), "c16"=>c16(), "c40"=>c40(), "c24"=>c24(), "c15"=>c15(), "c22"=>c22(), _=>{ c05(); c26(); c20(); c11(); c17(); } }
}
