//! Positive controls for the rule engines of /verif: every `bad_*` function violates exactly one rule family,
//! its `good_*` twin differs only by the offending construct. `rules/controls.py` analyses this crate with the
//! same extractor and the same engine functions the property rules use, on every setup and every thorough run;
//! a `bad_*` that is not reported or a `good_*` that is reported fails the run (a rule that matches nothing
//! passes vacuously forever).
#![allow(dead_code, unused_variables, clippy::all)]
use std::fs::{File, OpenOptions};
use std::io::{Read, Seek, SeekFrom, Write};
use std::path::{Path, PathBuf};

pub type FrameId = u64;
#[derive(Debug)]
pub enum Error {
    Io(std::io::Error),
    TooLarge,
    Denied,
}
impl From<std::io::Error> for Error {
    fn from(e: std::io::Error) -> Self {
        Error::Io(e)
    }
}
pub type Result<T> = std::result::Result<T, Error>;

pub struct Store {
    pub file: File,
    pub dirty: bool,
    pub next: u64,
    pub limit: u64,
    pub used: u64,
}

pub struct Hit {
    pub id: FrameId,
    pub rank: usize,
}

const MAX_ALLOC: u64 = 1 << 20;

impl Store {
    fn append(&mut self, bytes: &[u8]) -> Result<u64> {
        self.file.write_all(bytes)?;
        self.file.sync_all()?;
        self.next += 1;
        Ok(self.next)
    }
    fn acl(&self, id: FrameId) -> Result<()> {
        if id == 7 {
            return Err(Error::Denied);
        }
        Ok(())
    }
    fn make_hit(&self, id: FrameId) -> Hit {
        Hit { id, rank: 0 }
    }

    // ---- MPT: an Ok exit must be dominated by the success edge of append
    pub fn good_ack(&mut self, bytes: &[u8]) -> Result<u64> {
        let seq = self.append(bytes)?;
        self.dirty = true;
        Ok(seq)
    }
    pub fn bad_ack(&mut self, bytes: &[u8], reuse: bool) -> Result<u64> {
        if reuse {
            return Ok(self.next);
        }
        let seq = self.append(bytes)?;
        self.dirty = true;
        Ok(seq)
    }

    // ---- SYNC typestate: no Ok with an unsynced write
    pub fn good_sync(&mut self, bytes: &[u8]) -> Result<()> {
        self.file.write_all(bytes)?;
        self.file.sync_all()?;
        Ok(())
    }
    pub fn bad_sync(&mut self, bytes: &[u8], fast: bool) -> Result<()> {
        self.file.write_all(bytes)?;
        if !fast {
            self.file.sync_all()?;
        }
        Ok(())
    }

    // ---- FLOW: a WAL sequence must not flow into a FrameId sink
    pub fn good_flow(&mut self, bytes: &[u8]) -> Result<Hit> {
        let id = self.next;
        let _seq = self.append(bytes)?;
        Ok(self.make_hit(id))
    }
    pub fn bad_flow(&mut self, bytes: &[u8]) -> Result<Hit> {
        let seq = self.append(bytes)?;
        Ok(self.make_hit(seq as FrameId))
    }

    // ---- GUARD: a file-derived size is bounded before it sizes an allocation
    pub fn good_alloc(&mut self) -> Result<Vec<u8>> {
        let mut len = [0u8; 8];
        self.file.read_exact(&mut len)?;
        let n = u64::from_le_bytes(len);
        if n > MAX_ALLOC {
            return Err(Error::TooLarge);
        }
        let mut buf = vec![0u8; n as usize];
        self.file.read_exact(&mut buf)?;
        Ok(buf)
    }
    pub fn bad_alloc(&mut self) -> Result<Vec<u8>> {
        let mut len = [0u8; 8];
        self.file.read_exact(&mut len)?;
        let n = u64::from_le_bytes(len);
        let mut buf = vec![0u8; n as usize];
        self.file.read_exact(&mut buf)?;
        Ok(buf)
    }

    // ---- GUARD with coupling: capacity compared against used + incoming
    pub fn good_capacity(&mut self, bytes: &[u8]) -> Result<u64> {
        if self.used + bytes.len() as u64 > self.limit {
            return Err(Error::TooLarge);
        }
        self.append(bytes)
    }
    pub fn bad_capacity(&mut self, bytes: &[u8]) -> Result<u64> {
        if self.used > self.limit {
            return Err(Error::TooLarge);
        }
        self.append(bytes)
    }

    // ---- ordering: the ACL call dominates the construction of the hit
    pub fn good_acl(&self, id: FrameId) -> Result<Hit> {
        self.acl(id)?;
        Ok(self.make_hit(id))
    }
    pub fn bad_acl(&self, id: FrameId) -> Result<Hit> {
        let hit = self.make_hit(id);
        self.acl(id)?;
        Ok(hit)
    }

    // ---- memmove direction
    pub fn good_shift(&mut self, start: u64, len: u64, delta: u64) -> Result<()> {
        let mut remaining = len;
        let mut buf = vec![0u8; 4096];
        while remaining > 0 {
            let chunk = remaining.min(buf.len() as u64);
            let src = start + remaining - chunk;
            self.file.seek(SeekFrom::Start(src))?;
            self.file.read_exact(&mut buf[..chunk as usize])?;
            let dst = src + delta;
            self.file.seek(SeekFrom::Start(dst))?;
            self.file.write_all(&buf[..chunk as usize])?;
            remaining -= chunk;
        }
        Ok(())
    }
    pub fn bad_shift(&mut self, start: u64, len: u64, delta: u64) -> Result<()> {
        let mut moved = 0u64;
        let mut buf = vec![0u8; 4096];
        while moved < len {
            let chunk = (len - moved).min(buf.len() as u64);
            let src = start + moved;
            self.file.seek(SeekFrom::Start(src))?;
            self.file.read_exact(&mut buf[..chunk as usize])?;
            let dst = src + delta;
            self.file.seek(SeekFrom::Start(dst))?;
            self.file.write_all(&buf[..chunk as usize])?;
            moved += chunk;
        }
        Ok(())
    }

    // ---- closure provenance: inner_commit only inside the closure given to with_staging
    fn with_staging<F: FnOnce(&mut Self) -> Result<()>>(&mut self, op: F) -> Result<()> {
        match op(self) {
            Ok(()) => {
                self.file.sync_all()?;
                Ok(())
            }
            Err(e) => Err(e),
        }
    }
    fn inner_commit(&mut self) -> Result<()> {
        self.dirty = false;
        Ok(())
    }
    pub fn good_staged(&mut self) -> Result<()> {
        self.with_staging(|s| s.inner_commit())
    }
    pub fn bad_staged(&mut self) -> Result<()> {
        self.inner_commit()
    }

    // ---- explicit assertion reachable from an entry point
    pub fn good_probe(&self, n: u64) -> Result<u64> {
        if n > MAX_ALLOC {
            return Err(Error::TooLarge);
        }
        Ok(n)
    }
    pub fn bad_probe(&self, n: u64) -> Result<u64> {
        debug_assert!(n <= MAX_ALLOC);
        Ok(n)
    }

    // ---- typestate: sorted where binary-searched
    pub fn good_sorted(&self, mut v: Vec<(i64, u64)>, extra: (i64, u64), cut: i64) -> usize {
        v.push(extra);
        v.sort_by_key(|e| (e.0, e.1));
        v.partition_point(|e| e.0 <= cut)
    }
    pub fn bad_sorted(&self, mut v: Vec<(i64, u64)>, extra: (i64, u64), cut: i64) -> usize {
        v.sort_by_key(|e| (e.0, e.1));
        v.push(extra);
        v.partition_point(|e| e.0 <= cut)
    }
}

// ---- path provenance: only the caller's own path may be created
pub fn good_create(path: &Path) -> Result<File> {
    Ok(OpenOptions::new().read(true).write(true).create(true).open(path)?)
}
pub fn bad_create(path: &Path) -> Result<File> {
    let side: PathBuf = path.with_extension("tmp");
    Ok(File::create(side)?)
}

// ---- variant totality: every arm uses its payload
pub enum Index {
    Flat(Vec<u64>),
    Graph(Vec<u64>),
}
impl Index {
    pub fn good_ids(&self) -> Vec<u64> {
        match self {
            Index::Flat(v) => v.clone(),
            Index::Graph(v) => v.clone(),
        }
    }
    pub fn bad_ids(&self) -> Vec<u64> {
        match self {
            Index::Flat(v) => v.clone(),
            Index::Graph(_) => Vec::new(),
        }
    }
}

// ---- sibling agreement on HIR trees
pub fn sib_current(mut cards: Vec<(i64, bool)>) -> Option<(i64, bool)> {
    cards.sort_by(|a, b| b.0.cmp(&a.0));
    cards.into_iter().find(|c| !c.1)
}
pub fn sib_same(mut items: Vec<(i64, bool)>) -> Option<(i64, bool)> {
    items.sort_by(|x, y| y.0.cmp(&x.0));
    items.into_iter().find(|k| !k.1)
}
pub fn sib_different(mut items: Vec<(i64, bool)>) -> Option<(i64, bool)> {
    items.sort_by(|x, y| x.0.cmp(&y.0));
    items.into_iter().find(|k| !k.1)
}

// ---- recursion without a bound vs with a depth guard
pub fn good_rec(s: &[u8], depth: usize) -> Result<usize> {
    if depth > 64 {
        return Err(Error::TooLarge);
    }
    if s.first() == Some(&b'(') {
        return good_rec(&s[1..], depth + 1);
    }
    Ok(depth)
}
pub fn bad_rec(s: &[u8], depth: usize) -> Result<usize> {
    if s.first() == Some(&b'(') {
        return bad_rec(&s[1..], depth + 1);
    }
    Ok(depth)
}

// ---- nondeterminism reaching persisted bytes unless the caller supplied the value
pub fn good_stamp(f: &mut File, ts: Option<i64>) -> Result<()> {
    let t = ts.unwrap_or_else(|| {
        std::time::SystemTime::now().duration_since(std::time::UNIX_EPOCH).map(|d| d.as_secs() as i64).unwrap_or(0)
    });
    f.write_all(&t.to_le_bytes())?;
    Ok(())
}
pub fn bad_stamp(f: &mut File, ts: Option<i64>) -> Result<()> {
    let now = std::time::SystemTime::now().duration_since(std::time::UNIX_EPOCH).map(|d| d.as_secs() as i64).unwrap_or(0);
    let t = ts.unwrap_or(0).max(now);
    f.write_all(&t.to_le_bytes())?;
    Ok(())
}

// ---- variant test written with matches! (flag idiom) must count as a guard
#[derive(Clone, Copy, PartialEq, Eq)]
pub enum Status {
    Active,
    Deleted,
}
pub struct Rec {
    pub status: Status,
    pub bytes: Vec<u8>,
}
impl Store {
    pub fn good_matches(&mut self, r: &Rec) -> Result<()> {
        if matches!(r.status, Status::Active) {
            self.file.write_all(&r.bytes)?;
        }
        Ok(())
    }
    pub fn bad_matches(&mut self, r: &Rec) -> Result<()> {
        if r.bytes.len() > 3 {
            self.file.write_all(&r.bytes)?;
        }
        Ok(())
    }

    // ---- a thin wrapper of append *is* an append for its callers
    fn append_wrapped(&mut self, bytes: &[u8]) -> Result<u64> {
        let seq = self.append(bytes)?;
        Ok(seq)
    }
    pub fn good_wrapped_ack(&mut self, bytes: &[u8]) -> Result<u64> {
        let seq = self.append_wrapped(bytes)?;
        Ok(seq)
    }
}

// ---- loop exits: only iterator exhaustion vs an early break
pub fn good_insert_all(bits: &mut [u8], hashes: &[u64]) {
    for &h in hashes {
        let p = (h % (bits.len() as u64 * 8)) as usize;
        bits[p / 8] |= 1 << (p % 8);
    }
}
pub fn bad_insert_some(bits: &mut [u8], hashes: &[u64]) {
    let mut n = 0usize;
    for &h in hashes {
        if n >= bits.len() {
            break;
        }
        let p = (h % (bits.len() as u64 * 8)) as usize;
        bits[p / 8] |= 1 << (p % 8);
        n += 1;
    }
}
