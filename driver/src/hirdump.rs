//! HIR expression-tree dump with resolved paths / method callees / literals.
//! Node = {"k": kind, "c": [children], …attrs}. Macro expansions are wrapped in
//! {"k":"macro","name":[…],"c":[expanded]} at the point where the expansion
//! context changes, so rules can collapse or look inside them.
use crate::json::J;
use rustc_hir as hir;
use rustc_hir::def::Res;
use rustc_hir::def_id::LocalDefId;
use rustc_hir::{ExprKind, PatKind, QPath, StmtKind};
use rustc_middle::ty::{TyCtxt, TypeckResults};
use rustc_span::{Span, SyntaxContext};

struct Cx<'tcx> {
    tcx: TyCtxt<'tcx>,
    tr: &'tcx TypeckResults<'tcx>,
}

pub fn dump<'tcx>(tcx: TyCtxt<'tcx>, def: LocalDefId) -> Option<J> {
    let body = tcx.hir_maybe_body_owned_by(def)?;
    let tr = tcx.typeck(def);
    let cx = Cx { tcx, tr };
    let mut o = J::obj();
    let mut params = Vec::new();
    for p in body.params {
        params.push(cx.pat(p.pat));
    }
    o.set("params", J::Arr(params));
    o.set("body", cx.expr(body.value, body.value.span.ctxt()));
    Some(o)
}

fn node(k: &str) -> J {
    let mut o = J::obj();
    o.set("k", J::s(k));
    o
}

impl<'tcx> Cx<'tcx> {
    fn line(&self, sp: Span) -> i128 {
        let sm = self.tcx.sess.source_map();
        sm.lookup_char_pos(sp.source_callsite().lo()).line as i128
    }

    fn qpath(&self, qp: &QPath<'tcx>, id: hir::HirId) -> J {
        let res = self.tr.qpath_res(qp, id);
        match res {
            Res::Local(hid) => {
                let mut n = node("var");
                n.set("name", J::s(self.tcx.hir_name(hid).as_str()));
                n
            }
            Res::Def(kind, did) => {
                let mut n = node("path");
                n.set("def", J::s(&self.tcx.def_path_str(did)));
                n.set("dk", J::s(&format!("{:?}", kind).chars().take_while(|c| c.is_alphanumeric()).collect::<String>()));
                if let Some(name) = self.tcx.opt_item_name(did) {
                    n.set("name", J::s(name.as_str()));
                }
                n
            }
            Res::SelfCtor(_) | Res::SelfTyAlias { .. } | Res::SelfTyParam { .. } => node("self_ty"),
            _ => node("path_other"),
        }
    }

    fn exprs(&self, es: &'tcx [hir::Expr<'tcx>], ctxt: SyntaxContext) -> Vec<J> {
        es.iter().map(|e| self.expr(e, ctxt)).collect()
    }

    fn expr(&self, e: &'tcx hir::Expr<'tcx>, parent_ctxt: SyntaxContext) -> J {
        let ctxt = e.span.ctxt();
        // transparent wrappers
        match e.kind {
            ExprKind::DropTemps(inner) | ExprKind::Use(inner, _) => return self.expr(inner, parent_ctxt),
            _ => {}
        }
        let inner = self.expr_inner(e, ctxt);
        if ctxt != parent_ctxt && e.span.from_expansion() {
            let mut names = Vec::new();
            for ed in e.span.macro_backtrace() {
                match ed.kind {
                    rustc_span::ExpnKind::Macro(_, name) => names.push(J::s(name.as_str())),
                    rustc_span::ExpnKind::Desugaring(d) => names.push(J::s(&format!("desugar:{:?}", d))),
                    _ => {}
                }
            }
            // desugarings (?, for) are handled structurally; only wrap real macros
            let is_macro = e.span.macro_backtrace().any(|ed| matches!(ed.kind, rustc_span::ExpnKind::Macro(..)));
            let parent_in_same_macro = false;
            if is_macro && !parent_in_same_macro {
                let mut m = node("macro");
                m.set("name", J::Arr(names));
                m.set("l", J::Int(self.line(e.span)));
                m.set("c", J::Arr(vec![inner]));
                return m;
            }
        }
        inner
    }

    fn expr_inner(&self, e: &'tcx hir::Expr<'tcx>, ctxt: SyntaxContext) -> J {
        match e.kind {
            ExprKind::Lit(lit) => {
                let mut n = node("lit");
                use rustc_ast::LitKind::*;
                match lit.node {
                    Str(s, _) => {
                        n.set("t", J::s("str"));
                        n.set("v", J::s(s.as_str()));
                    }
                    Int(v, _) => {
                        n.set("t", J::s("int"));
                        n.set("v", J::Int(v.get() as i128));
                    }
                    Bool(b) => {
                        n.set("t", J::s("bool"));
                        n.set("v", J::Bool(b));
                    }
                    Char(c) => {
                        n.set("t", J::s("char"));
                        n.set("v", J::s(&c.to_string()));
                    }
                    Byte(b) => {
                        n.set("t", J::s("int"));
                        n.set("v", J::Int(b as i128));
                    }
                    Float(s, _) => {
                        n.set("t", J::s("float"));
                        n.set("v", J::s(s.as_str()));
                    }
                    ByteStr(bs, _) | CStr(bs, _) => {
                        n.set("t", J::s("bytes"));
                        n.set("v", J::s(&String::from_utf8_lossy(bs.as_byte_str())));
                    }
                    Err(_) => n.set("t", J::s("err")),
                }
                n
            }
            ExprKind::Path(ref qp) => self.qpath(qp, e.hir_id),
            ExprKind::Call(f, args) => {
                let mut n = node("call");
                n.set("l", J::Int(self.line(e.span)));
                // resolve the callee when it is a path to a fn / ctor
                if let ExprKind::Path(ref qp) = f.kind {
                    if let Res::Def(_, did) = self.tr.qpath_res(qp, f.hir_id) {
                        n.set("f", J::s(&self.tcx.def_path_str(did)));
                        if let Some(name) = self.tcx.opt_item_name(did) {
                            n.set("name", J::s(name.as_str()));
                        }
                    }
                }
                let mut c = vec![self.expr(f, ctxt)];
                c.extend(self.exprs(args, ctxt));
                n.set("c", J::Arr(c));
                n
            }
            ExprKind::MethodCall(seg, recv, args, _) => {
                let mut n = node("mcall");
                n.set("l", J::Int(self.line(e.span)));
                n.set("name", J::s(seg.ident.as_str()));
                if let Some(did) = self.tr.type_dependent_def_id(e.hir_id) {
                    n.set("f", J::s(&self.tcx.def_path_str(did)));
                }
                n.set("rt", J::s(&format!("{}", self.tr.expr_ty_adjusted(recv))));
                let mut c = vec![self.expr(recv, ctxt)];
                c.extend(self.exprs(args, ctxt));
                n.set("c", J::Arr(c));
                n
            }
            ExprKind::Tup(es) => {
                let mut n = node("tup");
                n.set("c", J::Arr(self.exprs(es, ctxt)));
                n
            }
            ExprKind::Array(es) => {
                let mut n = node("array");
                n.set("c", J::Arr(self.exprs(es, ctxt)));
                n
            }
            ExprKind::Binary(op, a, b) => {
                let mut n = node("bin");
                n.set("op", J::s(op.node.as_str()));
                n.set("c", J::Arr(vec![self.expr(a, ctxt), self.expr(b, ctxt)]));
                n
            }
            ExprKind::Unary(op, a) => {
                let mut n = node("un");
                n.set("op", J::s(op.as_str()));
                n.set("c", J::Arr(vec![self.expr(a, ctxt)]));
                n
            }
            ExprKind::Cast(a, _) | ExprKind::Type(a, _) => {
                let mut n = node("cast");
                n.set("ty", J::s(&format!("{}", self.tr.expr_ty(e))));
                n.set("c", J::Arr(vec![self.expr(a, ctxt)]));
                n
            }
            ExprKind::Let(l) => {
                let mut n = node("let");
                n.set("pat", self.pat(l.pat));
                n.set("c", J::Arr(vec![self.expr(l.init, ctxt)]));
                n
            }
            ExprKind::If(c, t, el) => {
                let mut n = node("if");
                let mut ch = vec![self.expr(c, ctxt), self.expr(t, ctxt)];
                if let Some(el) = el {
                    ch.push(self.expr(el, ctxt));
                }
                n.set("c", J::Arr(ch));
                n
            }
            ExprKind::Loop(b, _, src, _) => {
                let mut n = node("loop");
                n.set("src", J::s(&format!("{:?}", src)));
                n.set("c", J::Arr(vec![self.block(b, ctxt)]));
                n
            }
            ExprKind::Match(scrut, arms, src) => {
                if let hir::MatchSource::TryDesugar(_) = src {
                    // match Try::branch(x) { … }  →  try(x)
                    if let ExprKind::Call(_, [inner]) = scrut.kind {
                        let mut n = node("try");
                        n.set("l", J::Int(self.line(e.span)));
                        n.set("c", J::Arr(vec![self.expr(inner, ctxt)]));
                        return n;
                    }
                }
                if let hir::MatchSource::ForLoopDesugar = src {
                    if let Some(n) = self.for_loop(scrut, arms, ctxt) {
                        return n;
                    }
                }
                let mut n = node("match");
                n.set("src", J::s(&format!("{:?}", src).chars().take_while(|c| c.is_alphanumeric()).collect::<String>()));
                let mut ch = vec![self.expr(scrut, ctxt)];
                for a in arms {
                    let mut an = node("arm");
                    an.set("pat", self.pat(a.pat));
                    let mut ac = Vec::new();
                    if let Some(g) = a.guard {
                        an.set("guard", self.expr(g, ctxt));
                    }
                    ac.push(self.expr(a.body, ctxt));
                    an.set("c", J::Arr(ac));
                    ch.push(an);
                }
                n.set("c", J::Arr(ch));
                n
            }
            ExprKind::Closure(cl) => {
                let mut n = node("closure");
                n.set("def", J::s(&self.tcx.def_path_str(cl.def_id.to_def_id())));
                let body = self.tcx.hir_body(cl.body);
                n.set("params", J::Arr(body.params.iter().map(|p| self.pat(p.pat)).collect()));
                // the closure body is type-checked with the enclosing function's results
                n.set("c", J::Arr(vec![self.expr(body.value, ctxt)]));
                n
            }
            ExprKind::Block(b, _) => self.block(b, ctxt),
            ExprKind::Assign(a, b, _) => {
                let mut n = node("assign");
                n.set("l", J::Int(self.line(e.span)));
                n.set("c", J::Arr(vec![self.expr(a, ctxt), self.expr(b, ctxt)]));
                n
            }
            ExprKind::AssignOp(op, a, b) => {
                let mut n = node("assignop");
                n.set("op", J::s(op.node.as_str()));
                n.set("l", J::Int(self.line(e.span)));
                n.set("c", J::Arr(vec![self.expr(a, ctxt), self.expr(b, ctxt)]));
                n
            }
            ExprKind::Field(base, ident) => {
                let mut n = node("field");
                n.set("name", J::s(ident.as_str()));
                let bt = self.tr.expr_ty_adjusted(base).peel_refs();
                if let rustc_middle::ty::Adt(adt, _) = bt.kind() {
                    n.set("o", J::s(self.tcx.item_name(adt.did()).as_str()));
                }
                n.set("c", J::Arr(vec![self.expr(base, ctxt)]));
                n
            }
            ExprKind::Index(a, b, _) => {
                let mut n = node("index");
                n.set("c", J::Arr(vec![self.expr(a, ctxt), self.expr(b, ctxt)]));
                n
            }
            ExprKind::AddrOf(_, m, a) => {
                let mut n = node(if m.is_mut() { "refmut" } else { "ref" });
                n.set("c", J::Arr(vec![self.expr(a, ctxt)]));
                n
            }
            ExprKind::Break(_, v) => {
                let mut n = node("break");
                if let Some(v) = v {
                    n.set("c", J::Arr(vec![self.expr(v, ctxt)]));
                }
                n
            }
            ExprKind::Continue(_) => node("continue"),
            ExprKind::Ret(v) => {
                let mut n = node("ret");
                n.set("l", J::Int(self.line(e.span)));
                if let Some(v) = v {
                    n.set("c", J::Arr(vec![self.expr(v, ctxt)]));
                }
                n
            }
            ExprKind::Struct(qp, fields, tail) => {
                let mut n = node("struct");
                n.set("path", self.qpath(qp, e.hir_id));
                let t = self.tr.expr_ty(e);
                n.set("ty", J::s(&format!("{}", t)));
                let mut fs = Vec::new();
                for f in fields {
                    let mut fo = node("sfield");
                    fo.set("name", J::s(f.ident.as_str()));
                    fo.set("c", J::Arr(vec![self.expr(f.expr, ctxt)]));
                    fs.push(fo);
                }
                if let hir::StructTailExpr::Base(b) = tail {
                    let mut bo = node("sbase");
                    bo.set("c", J::Arr(vec![self.expr(b, ctxt)]));
                    fs.push(bo);
                }
                n.set("c", J::Arr(fs));
                n
            }
            ExprKind::Repeat(a, _) => {
                let mut n = node("repeat");
                n.set("c", J::Arr(vec![self.expr(a, ctxt)]));
                n
            }
            ExprKind::ConstBlock(_) => node("constblock"),
            _ => node("other"),
        }
    }

    fn for_loop(&self, scrut: &'tcx hir::Expr<'tcx>, arms: &'tcx [hir::Arm<'tcx>], ctxt: SyntaxContext) -> Option<J> {
        // match IntoIterator::into_iter(ITER) { mut iter => loop { match next(&mut iter) { None => break, Some(PAT) => BODY } } }
        let ExprKind::Call(_, [iter]) = scrut.kind else { return None };
        let [arm] = arms else { return None };
        let ExprKind::Loop(blk, ..) = arm.body.kind else { return None };
        let inner = match (blk.stmts, blk.expr) {
            ([s], None) => match s.kind {
                StmtKind::Expr(e) | StmtKind::Semi(e) => e,
                _ => return None,
            },
            ([], Some(e)) => e,
            _ => return None,
        };
        let ExprKind::Match(_, [_none, some], _) = inner.kind else { return None };
        let PatKind::TupleStruct(_, [pat], _) = some.pat.kind else { return None };
        let mut n = node("for");
        n.set("pat", self.pat(pat));
        n.set("c", J::Arr(vec![self.expr(iter, ctxt), self.expr(some.body, ctxt)]));
        Some(n)
    }

    fn block(&self, b: &'tcx hir::Block<'tcx>, ctxt: SyntaxContext) -> J {
        let mut n = node("block");
        let mut ch = Vec::new();
        for s in b.stmts {
            match s.kind {
                StmtKind::Let(l) => {
                    let mut ln = node("slet");
                    ln.set("pat", self.pat(l.pat));
                    let mut c = Vec::new();
                    if let Some(i) = l.init {
                        c.push(self.expr(i, ctxt));
                    }
                    if let Some(els) = l.els {
                        let mut en = node("else");
                        en.set("c", J::Arr(vec![self.block(els, ctxt)]));
                        c.push(en);
                    }
                    ln.set("c", J::Arr(c));
                    ch.push(ln);
                }
                StmtKind::Expr(e) | StmtKind::Semi(e) => {
                    let mut sn = node("semi");
                    sn.set("c", J::Arr(vec![self.expr(e, ctxt)]));
                    ch.push(sn);
                }
                StmtKind::Item(_) => {}
            }
        }
        if let Some(e) = b.expr {
            let mut vn = node("value");
            vn.set("c", J::Arr(vec![self.expr(e, ctxt)]));
            ch.push(vn);
        }
        n.set("c", J::Arr(ch));
        n
    }

    fn pat(&self, p: &'tcx hir::Pat<'tcx>) -> J {
        match p.kind {
            PatKind::Wild => node("p_wild"),
            PatKind::Binding(_, _, ident, sub) => {
                let mut n = node("p_bind");
                n.set("name", J::s(ident.as_str()));
                if let Some(s) = sub {
                    n.set("c", J::Arr(vec![self.pat(s)]));
                }
                n
            }
            PatKind::Struct(ref qp, fields, _) => {
                let mut n = node("p_struct");
                n.set("path", self.qpath(qp, p.hir_id));
                let mut c = Vec::new();
                for f in fields {
                    let mut fo = node("p_field");
                    fo.set("name", J::s(f.ident.as_str()));
                    fo.set("c", J::Arr(vec![self.pat(f.pat)]));
                    c.push(fo);
                }
                n.set("c", J::Arr(c));
                n
            }
            PatKind::TupleStruct(ref qp, pats, _) => {
                let mut n = node("p_tstruct");
                n.set("path", self.qpath(qp, p.hir_id));
                n.set("c", J::Arr(pats.iter().map(|x| self.pat(x)).collect()));
                n
            }
            PatKind::Or(pats) => {
                let mut n = node("p_or");
                n.set("c", J::Arr(pats.iter().map(|x| self.pat(x)).collect()));
                n
            }
            PatKind::Tuple(pats, _) => {
                let mut n = node("p_tuple");
                n.set("c", J::Arr(pats.iter().map(|x| self.pat(x)).collect()));
                n
            }
            PatKind::Box(x) | PatKind::Deref(x) | PatKind::Ref(x, ..) => {
                let mut n = node("p_ref");
                n.set("c", J::Arr(vec![self.pat(x)]));
                n
            }
            PatKind::Expr(pe) => {
                let mut n = node("p_expr");
                match pe.kind {
                    hir::PatExprKind::Lit { lit, .. } => {
                        n.set("v", J::s(&format!("{:?}", lit.node).chars().take(80).collect::<String>()));
                    }
                    hir::PatExprKind::Path(ref qp) => {
                        n.set("path", self.qpath(qp, pe.hir_id));
                    }
                    #[allow(unreachable_patterns)]
                    _ => {}
                }
                n
            }
            PatKind::Guard(x, _) => self.pat(x),
            PatKind::Range(..) => node("p_range"),
            PatKind::Slice(a, m, b) => {
                let mut n = node("p_slice");
                let mut c: Vec<J> = a.iter().map(|x| self.pat(x)).collect();
                if let Some(m) = m {
                    c.push(self.pat(m));
                }
                c.extend(b.iter().map(|x| self.pat(x)));
                n.set("c", J::Arr(c));
                n
            }
            _ => node("p_other"),
        }
    }
}
