//! mvfacts — rustc_private fact extractor for the memvid-core static checks.
//!
//! Injected with RUSTC_WORKSPACE_WRAPPER under `cargo +nightly check`. For the
//! crate(s) named in MVFACTS_CRATES (default `memvid_core`) it appends
//! `-Zmir-opt-level=0` and, after analysis, writes one JSON-lines file
//! (MVFACTS_OUT) in a single write:
//!   line 1      {"meta": …}
//!   `adt` lines  structs/enums with field names/types
//!   `fn`  lines  one per body: identity + mini-MIR (+ HIR tree when requested)
//! Every other crate is compiled by the unmodified compiler.
#![feature(rustc_private)]
#![allow(clippy::all)]

extern crate rustc_abi;
extern crate rustc_ast;
extern crate rustc_data_structures;
extern crate rustc_driver;
extern crate rustc_hir;
extern crate rustc_interface;
extern crate rustc_middle;
extern crate rustc_session;
extern crate rustc_span;

mod hirdump;
mod json;

use json::J;
use rustc_hir::def::DefKind;
use rustc_hir::def_id::{DefId, LocalDefId, LOCAL_CRATE};
use rustc_middle::mir::{
    self, AggregateKind, BasicBlockData, Body, Const, Operand, PlaceRef, ProjectionElem,
    Rvalue, StatementKind, TerminatorKind,
};
use rustc_middle::ty::print::with_no_trimmed_paths;
use rustc_middle::ty::{self, Instance, Ty, TyCtxt, TypingEnv};
use rustc_span::Span;

struct Extract {
    out: String,
    hir_filter: Vec<String>,
}

impl rustc_driver::Callbacks for Extract {
    fn after_analysis<'tcx>(
        &mut self,
        _c: &rustc_interface::interface::Compiler,
        tcx: TyCtxt<'tcx>,
    ) -> rustc_driver::Compilation {
        // Do not emit facts for a crate that failed to type-check.
        if tcx.dcx().has_errors().is_some() {
            return rustc_driver::Compilation::Continue;
        }
        let mut buf = String::with_capacity(64 << 20);
        let crate_name = tcx.crate_name(LOCAL_CRATE).to_string();
        let mut meta = J::obj();
        meta.set("kind", J::s("meta"));
        meta.set("crate", J::s(&crate_name));
        meta.set("rustc", J::s(&rustc_version()));
        let feats: Vec<J> = tcx
            .sess
            .opts
            .cg
            .target_feature
            .split(',')
            .filter(|s| !s.is_empty())
            .map(J::s)
            .collect();
        meta.set("target_feature", J::Arr(feats));
        let mut cfgs: Vec<String> = tcx
            .sess
            .config
            .iter()
            .filter_map(|(k, v)| {
                if k.as_str() == "feature" {
                    v.map(|v| v.to_string())
                } else {
                    None
                }
            })
            .collect();
        cfgs.sort();
        meta.set("features", J::Arr(cfgs.iter().map(|s| J::s(s)).collect()));
        meta.write(&mut buf);
        buf.push('\n');

        with_no_trimmed_paths!({
            // ADTs
            for id in tcx.hir_free_items() {
                let did = id.owner_id.to_def_id();
                match tcx.def_kind(did) {
                    DefKind::Struct | DefKind::Enum | DefKind::Union => {
                        dump_adt(tcx, did).write(&mut buf);
                        buf.push('\n');
                    }
                    DefKind::Const { .. } => {
                        if let Some(j) = dump_const(tcx, did) {
                            j.write(&mut buf);
                            buf.push('\n');
                        }
                    }
                    _ => {}
                }
            }
            // associated consts
            for id in tcx.hir_crate_items(()).impl_items() {
                let did = id.owner_id.to_def_id();
                if matches!(tcx.def_kind(did), DefKind::AssocConst { .. }) {
                    if let Some(j) = dump_const(tcx, did) {
                        j.write(&mut buf);
                        buf.push('\n');
                    }
                }
            }
            // bodies
            let mut n = 0usize;
            for ldid in tcx.hir_body_owners() {
                let kind = tcx.def_kind(ldid);
                if !matches!(kind, DefKind::Fn | DefKind::AssocFn | DefKind::Closure) {
                    continue;
                }
                // coroutine bodies have a different MIR pipeline; none are relevant here
                if tcx.is_coroutine(ldid.to_def_id()) {
                    continue;
                }
                // serde derive output (visitors etc.) is never the subject of a rule: skip it
                let dsp = tcx.def_span(ldid.to_def_id());
                if dsp.from_expansion()
                    && dsp.macro_backtrace().any(|ed| {
                        matches!(ed.kind, rustc_span::ExpnKind::Macro(rustc_span::MacroKind::Derive, n)
                            if n.as_str() == "Serialize" || n.as_str() == "Deserialize")
                    })
                {
                    continue;
                }
                let j = dump_fn(tcx, ldid, kind, &self.hir_filter);
                j.write(&mut buf);
                buf.push('\n');
                n += 1;
            }
            let mut tail = J::obj();
            tail.set("kind", J::s("end"));
            tail.set("bodies", J::Int(n as i128));
            tail.write(&mut buf);
            buf.push('\n');
        });
        let tmp = format!("{}.tmp.{}", self.out, std::process::id());
        std::fs::write(&tmp, buf.as_bytes()).expect("mvfacts: cannot write facts");
        std::fs::rename(&tmp, &self.out).expect("mvfacts: cannot rename facts");
        rustc_driver::Compilation::Continue
    }
}

fn rustc_version() -> String {
    option_env!("CFG_VERSION").unwrap_or("nightly").to_string()
}

fn span_loc(tcx: TyCtxt<'_>, span: Span) -> (String, usize) {
    let sm = tcx.sess.source_map();
    let sp = span.source_callsite();
    let lo = sm.lookup_char_pos(sp.lo());
    let name = match &lo.file.name {
        rustc_span::FileName::Real(r) => r
            .local_path()
            .map(|p| p.to_string_lossy().to_string())
            .unwrap_or_else(|| format!("{:?}", r)),
        other => format!("{:?}", other),
    };
    (name, lo.line)
}

fn macro_names(span: Span) -> Vec<String> {
    let mut v = Vec::new();
    if span.from_expansion() {
        for ed in span.macro_backtrace() {
            match ed.kind {
                rustc_span::ExpnKind::Macro(_, name) => v.push(name.to_string()),
                rustc_span::ExpnKind::Desugaring(d) => v.push(format!("desugar:{:?}", d)),
                _ => {}
            }
        }
    }
    v
}

fn ty_str<'tcx>(t: Ty<'tcx>) -> String {
    format!("{}", t)
}

fn dump_adt<'tcx>(tcx: TyCtxt<'tcx>, did: DefId) -> J {
    let adt = tcx.adt_def(did);
    let mut o = J::obj();
    o.set("kind", J::s("adt"));
    o.set("path", J::s(&tcx.def_path_str(did)));
    o.set("name", J::s(tcx.item_name(did).as_str()));
    o.set("is_enum", J::Bool(adt.is_enum()));
    let mut vs = Vec::new();
    for v in adt.variants() {
        let mut vo = J::obj();
        vo.set("name", J::s(v.name.as_str()));
        let mut fs = Vec::new();
        for f in v.fields.iter() {
            let mut fo = J::obj();
            fo.set("name", J::s(f.name.as_str()));
            let t = tcx.type_of(f.did).instantiate_identity().skip_norm_wip();
            fo.set("ty", J::s(&ty_str(t)));
            // helper attributes of derive macros (serde(skip), serde(default), ...) decide what is persisted
            let mut attrs = Vec::new();
            if let Some(ld) = f.did.as_local() {
                let hid = tcx.local_def_id_to_hir_id(ld);
                for a in tcx.hir_attrs(hid) {
                    let d = format!("{:?}", a);
                    if d.contains("serde") {
                        attrs.push(J::s(&d));
                    }
                }
            }
            if !attrs.is_empty() {
                fo.set("serde_attrs", J::Arr(attrs));
            }
            fs.push(fo);
        }
        vo.set("fields", J::Arr(fs));
        vs.push(vo);
    }
    o.set("variants", J::Arr(vs));
    let (f, l) = span_loc(tcx, tcx.def_span(did));
    o.set("file", J::s(&f));
    o.set("line", J::Int(l as i128));
    o
}

fn dump_const<'tcx>(tcx: TyCtxt<'tcx>, did: DefId) -> Option<J> {
    let t = tcx.type_of(did).instantiate_identity().skip_norm_wip();
    if !(t.is_integral() || t.is_bool()) {
        return None;
    }
    if tcx.generics_of(did).requires_monomorphization(tcx) {
        return None;
    }
    let val = tcx.const_eval_poly(did).ok()?;
    let scalar = val.try_to_scalar_int()?;
    let mut o = J::obj();
    o.set("kind", J::s("const"));
    o.set("path", J::s(&tcx.def_path_str(did)));
    o.set("name", J::s(tcx.item_name(did).as_str()));
    o.set("ty", J::s(&ty_str(t)));
    o.set("val", scalar_to_j(scalar, t));
    Some(o)
}

fn scalar_to_j<'tcx>(s: ty::ScalarInt, t: Ty<'tcx>) -> J {
    let size = s.size();
    if t.is_bool() {
        return J::Bool(s.to_bits(size) != 0);
    }
    if t.is_signed() {
        J::Int(s.to_int(size))
    } else {
        J::Int(s.to_bits(size) as i128)
    }
}

struct FnCx<'a, 'tcx> {
    tcx: TyCtxt<'tcx>,
    body: &'a Body<'tcx>,
    def: LocalDefId,
    env: TypingEnv<'tcx>,
}

fn dump_fn<'tcx>(tcx: TyCtxt<'tcx>, ldid: LocalDefId, kind: DefKind, hir_filter: &[String]) -> J {
    let did = ldid.to_def_id();
    let mut o = J::obj();
    o.set("kind", J::s("fn"));
    let path = tcx.def_path_str(did);
    o.set("path", J::s(&path));
    let name = if kind == DefKind::Closure {
        "{closure}".to_string()
    } else {
        tcx.item_name(did).to_string()
    };
    o.set("name", J::s(&name));
    o.set("def_kind", J::s(&format!("{:?}", kind)));
    // stable key: module-free for methods
    let mut key = path.clone();
    if kind == DefKind::AssocFn {
        if let Some(impl_did) = tcx.impl_of_assoc(did) {
            let self_ty = tcx.type_of(impl_did).instantiate_identity().skip_norm_wip();
            let self_s = ty_str(self_ty);
            o.set("impl_self", J::s(&self_s));
            let short_self = short_ty(tcx, self_ty);
            if let Some(tr) = tcx.impl_opt_trait_ref(impl_did) {
                let tr = tr.instantiate_identity().skip_norm_wip();
                let tp = tcx.def_path_str(tr.def_id);
                o.set("impl_trait", J::s(&tp));
                key = format!("<{} as {}>::{}", short_self, tcx.item_name(tr.def_id), name);
            } else {
                key = format!("{}::{}", short_self, name);
            }
        } else if let Some(tr) = tcx.trait_of_assoc(did) {
            key = format!("{}::{}", tcx.item_name(tr), name);
            o.set("trait_default", J::s(&tcx.def_path_str(tr)));
        }
    }
    if kind == DefKind::Closure {
        let parent = tcx.typeck_root_def_id(did);
        o.set("root", J::s(&tcx.def_path_str(parent)));
        let p = tcx.parent(did);
        o.set("parent", J::s(&tcx.def_path_str(p)));
    }
    o.set("key", J::s(&key));
    if matches!(kind, DefKind::Fn | DefKind::AssocFn) {
        let vis = tcx.visibility(did);
        o.set("pub", J::Bool(vis.is_public()));
        let ev = tcx.effective_visibilities(());
        o.set("exported", J::Bool(ev.is_reachable(ldid)));
    }
    let (f, l) = span_loc(tcx, tcx.def_span(did));
    o.set("file", J::s(&f));
    o.set("line", J::Int(l as i128));
    let dsp = tcx.def_span(did);
    if dsp.from_expansion() {
        for ed in dsp.macro_backtrace() {
            if let rustc_span::ExpnKind::Macro(rustc_span::MacroKind::Derive, n) = ed.kind {
                o.set("derive", J::s(n.as_str()));
                break;
            }
        }
    }

    let body = tcx.optimized_mir(did);
    let cx = FnCx { tcx, body, def: ldid, env: TypingEnv::post_analysis(tcx, did) };
    o.set("argc", J::Int(body.arg_count as i128));
    // locals
    let mut names: Vec<Option<String>> = vec![None; body.local_decls.len()];
    let mut upvar_names: Vec<(usize, String)> = Vec::new();
    for vdi in &body.var_debug_info {
        if let mir::VarDebugInfoContents::Place(p) = &vdi.value {
            if p.projection.is_empty() {
                names[p.local.as_usize()] = Some(vdi.name.to_string());
            } else if p.local.as_usize() == 1 {
                // closure upvar: (*_1).N or _1.N
                for e in p.projection.iter() {
                    if let ProjectionElem::Field(fi, _) = e {
                        upvar_names.push((fi.as_usize(), vdi.name.to_string()));
                        break;
                    }
                }
            }
        }
    }
    let mut locals = Vec::new();
    for (i, d) in body.local_decls.iter_enumerated() {
        let mut lo = J::obj();
        lo.set("ty", J::s(&ty_str(d.ty)));
        if let Some(n) = &names[i.as_usize()] {
            lo.set("n", J::s(n));
        }
        locals.push(lo);
    }
    o.set("locals", J::Arr(locals));
    if kind == DefKind::Closure {
        let mut uv = Vec::new();
        upvar_names.sort();
        upvar_names.dedup();
        for (i, n) in upvar_names {
            uv.push(J::Arr(vec![J::Int(i as i128), J::s(&n)]));
        }
        o.set("upvars", J::Arr(uv));
    }
    let mut blocks = Vec::new();
    for (_bb, data) in body.basic_blocks.iter_enumerated() {
        blocks.push(cx.block(data));
    }
    o.set("blocks", J::Arr(blocks));
    // promoted constants (`&CONST_EXPR` temporaries): tiny bodies whose _0 is the promoted value
    let proms = tcx.promoted_mir(did);
    if !proms.is_empty() {
        let mut ps = Vec::new();
        for pb in proms.iter() {
            let pcx = FnCx { tcx, body: pb, def: ldid, env: TypingEnv::post_analysis(tcx, did) };
            let mut bl = Vec::new();
            for (_bb, data) in pb.basic_blocks.iter_enumerated() {
                bl.push(pcx.block(data));
            }
            ps.push(J::Arr(bl));
        }
        o.set("promoted", J::Arr(ps));
    }

    if kind != DefKind::Closure || true {
        let want = hir_filter.iter().any(|f| f == "*" || path.contains(f.as_str()) || key.contains(f.as_str()));
        if want {
            if let Some(h) = hirdump::dump(tcx, ldid) {
                o.set("hir", h);
            }
        }
    }
    o
}

/// Stable, module-free key of a function-like item: `Type::name`, `<Type as Trait>::name`,
/// `Trait::name` (trait default / declaration) or the plain def-path for free functions.
fn stable_key<'tcx>(tcx: TyCtxt<'tcx>, did: DefId) -> String {
    let kind = tcx.def_kind(did);
    let path = tcx.def_path_str(did);
    if kind != DefKind::AssocFn {
        return path;
    }
    let name = tcx.item_name(did).to_string();
    if let Some(impl_did) = tcx.impl_of_assoc(did) {
        let self_ty = tcx.type_of(impl_did).instantiate_identity().skip_norm_wip();
        let short_self = short_ty(tcx, self_ty);
        if let Some(tr) = tcx.impl_opt_trait_ref(impl_did) {
            let tr = tr.instantiate_identity().skip_norm_wip();
            return format!("<{} as {}>::{}", short_self, tcx.item_name(tr.def_id), name);
        }
        return format!("{}::{}", short_self, name);
    }
    if let Some(tr) = tcx.trait_of_assoc(did) {
        return format!("{}::{}", tcx.item_name(tr), name);
    }
    path
}

/// Short, module-free type name used in stable keys (`Memvid`, `EmbeddedWal`, `Vec<T>` → `Vec`).
fn short_ty<'tcx>(tcx: TyCtxt<'tcx>, t: Ty<'tcx>) -> String {
    match t.kind() {
        ty::Adt(def, _) => tcx.item_name(def.did()).to_string(),
        ty::Ref(_, inner, _) => format!("&{}", short_ty(tcx, *inner)),
        _ => ty_str(t),
    }
}

impl<'a, 'tcx> FnCx<'a, 'tcx> {
    fn block(&self, data: &BasicBlockData<'tcx>) -> J {
        let mut b = J::obj();
        if data.is_cleanup {
            b.set("cleanup", J::Bool(true));
        }
        let mut st = Vec::new();
        for s in &data.statements {
            match &s.kind {
                StatementKind::Assign(bx) => {
                    let (place, rv) = &**bx;
                    let mut so = J::obj();
                    so.set("lhs", self.place(place.as_ref()));
                    so.set("rv", self.rvalue(rv));
                    self.loc(&mut so, s.source_info.span);
                    st.push(so);
                }
                StatementKind::SetDiscriminant { place, variant_index } => {
                    let mut so = J::obj();
                    so.set("lhs", self.place(place.as_ref().as_ref()));
                    let mut rv = J::obj();
                    rv.set("k", J::s("setdiscr"));
                    rv.set("variant", J::Int(variant_index.as_usize() as i128));
                    so.set("rv", rv);
                    self.loc(&mut so, s.source_info.span);
                    st.push(so);
                }
                _ => {}
            }
        }
        b.set("s", J::Arr(st));
        let term = data.terminator();
        let mut t = J::obj();
        self.loc(&mut t, term.source_info.span);
        match &term.kind {
            TerminatorKind::Goto { target } => {
                t.set("k", J::s("goto"));
                t.set("t", J::Int(target.as_usize() as i128));
            }
            TerminatorKind::SwitchInt { discr, targets } => {
                t.set("k", J::s("switch"));
                t.set("d", self.operand(discr));
                let mut ts = Vec::new();
                for (v, bb) in targets.iter() {
                    ts.push(J::Arr(vec![J::Int(v as i128), J::Int(bb.as_usize() as i128)]));
                }
                t.set("ts", J::Arr(ts));
                t.set("o", J::Int(targets.otherwise().as_usize() as i128));
            }
            TerminatorKind::Return => t.set("k", J::s("return")),
            TerminatorKind::Unreachable => t.set("k", J::s("unreachable")),
            TerminatorKind::UnwindResume => t.set("k", J::s("resume")),
            TerminatorKind::UnwindTerminate(_) => t.set("k", J::s("abort")),
            TerminatorKind::Drop { place, target, unwind, .. } => {
                t.set("k", J::s("drop"));
                t.set("p", self.place(place.as_ref()));
                t.set("t", J::Int(target.as_usize() as i128));
                if let mir::UnwindAction::Cleanup(bb) = unwind {
                    t.set("u", J::Int(bb.as_usize() as i128));
                }
            }
            TerminatorKind::Call { func, args, destination, target, unwind, fn_span, .. } => {
                t.set("k", J::s("call"));
                self.callee(&mut t, func);
                t.set("args", J::Arr(args.iter().map(|a| self.operand(&a.node)).collect()));
                t.set("dest", self.place(destination.as_ref()));
                if let Some(tg) = target {
                    t.set("t", J::Int(tg.as_usize() as i128));
                }
                if let mir::UnwindAction::Cleanup(bb) = unwind {
                    t.set("u", J::Int(bb.as_usize() as i128));
                }
                let (_, l) = span_loc(self.tcx, *fn_span);
                t.set("fn_line", J::Int(l as i128));
            }
            TerminatorKind::TailCall { func, args, .. } => {
                t.set("k", J::s("tailcall"));
                self.callee(&mut t, func);
                t.set("args", J::Arr(args.iter().map(|a| self.operand(&a.node)).collect()));
            }
            TerminatorKind::Assert { cond, expected, msg, target, unwind } => {
                t.set("k", J::s("assert"));
                t.set("c", self.operand(cond));
                t.set("e", J::Bool(*expected));
                let full = format!("{:?}", msg);
                let head: String = full.chars().take_while(|c| c.is_alphanumeric()).collect();
                t.set("msg", J::s(&head));
                t.set("t", J::Int(target.as_usize() as i128));
                if let mir::UnwindAction::Cleanup(bb) = unwind {
                    t.set("u", J::Int(bb.as_usize() as i128));
                }
            }
            TerminatorKind::FalseEdge { real_target, .. } => {
                t.set("k", J::s("goto"));
                t.set("t", J::Int(real_target.as_usize() as i128));
            }
            TerminatorKind::FalseUnwind { real_target, .. } => {
                t.set("k", J::s("goto"));
                t.set("t", J::Int(real_target.as_usize() as i128));
            }
            other => {
                t.set("k", J::s("other"));
                let full = format!("{:?}", other);
                t.set("dbg", J::s(&full.chars().take(60).collect::<String>()));
            }
        }
        b.set("t", t);
        b
    }

    fn loc(&self, o: &mut J, span: Span) {
        let (_, l) = span_loc(self.tcx, span);
        o.set("l", J::Int(l as i128));
        if span.from_expansion() {
            let ms = macro_names(span);
            if !ms.is_empty() {
                o.set("mac", J::Arr(ms.iter().map(|s| J::s(s)).collect()));
            }
        }
    }

    fn callee(&self, t: &mut J, func: &Operand<'tcx>) {
        let fty = func.ty(self.body, self.tcx);
        match *fty.kind() {
            ty::FnDef(did, args) => {
                t.set("decl", J::s(&self.tcx.def_path_str(did)));
                t.set("decl_key", J::s(&stable_key(self.tcx, did)));
                t.set("decl_name", J::s(self.tcx.item_name(did).as_str()));
                if !args.is_empty() {
                    t.set(
                        "substs",
                        J::Arr(args.iter().map(|a| J::s(&format!("{}", a))).collect()),
                    );
                }
                let mut resolved = false;
                if let Ok(Some(inst)) = Instance::try_resolve(self.tcx, self.env, did, args) {
                    let rdid = inst.def_id();
                    let kind = match inst.def {
                        ty::InstanceKind::Item(_) => "item",
                        ty::InstanceKind::Virtual(..) => "virtual",
                        ty::InstanceKind::ClosureOnceShim { .. } => "closure_once",
                        ty::InstanceKind::FnPtrShim(..) => "fnptr_shim",
                        ty::InstanceKind::DropGlue(..) => "drop_glue",
                        ty::InstanceKind::CloneShim(..) => "clone_shim",
                        ty::InstanceKind::Intrinsic(_) => "intrinsic",
                        ty::InstanceKind::ReifyShim(..) => "reify",
                        ty::InstanceKind::VTableShim(..) => "vtable_shim",
                        _ => "other",
                    };
                    t.set("rk", J::s(kind));
                    if !matches!(inst.def, ty::InstanceKind::Virtual(..)) {
                        t.set("res", J::s(&self.tcx.def_path_str(rdid)));
                        if matches!(self.tcx.def_kind(rdid), DefKind::Fn | DefKind::AssocFn) {
                            t.set("res_key", J::s(&stable_key(self.tcx, rdid)));
                        }
                        t.set("res_local", J::Bool(rdid.is_local()));
                        if !inst.args.is_empty() {
                            t.set(
                                "res_substs",
                                J::Arr(inst.args.iter().map(|a| J::s(&format!("{}", a))).collect()),
                            );
                        }
                        resolved = true;
                    }
                }
                if !resolved {
                    // an unresolved trait method: record the trait so CG can over-approximate
                    if let Some(tr) = self.tcx.trait_of_assoc(did) {
                        t.set("trait", J::s(&self.tcx.def_path_str(tr)));
                    }
                }
                t.set("decl_local", J::Bool(did.is_local()));
            }
            ty::FnPtr(..) => {
                t.set("indirect", J::s("fnptr"));
                t.set("f", self.operand(func));
            }
            _ => {
                t.set("indirect", J::s("other"));
                t.set("f", self.operand(func));
            }
        }
    }

    fn place(&self, p: PlaceRef<'tcx>) -> J {
        let mut o = J::obj();
        o.set("l", J::Int(p.local.as_usize() as i128));
        if !p.projection.is_empty() {
            let mut pr = Vec::new();
            let mut pty = mir::PlaceTy::from_ty(self.body.local_decls[p.local].ty);
            for elem in p.projection.iter() {
                match elem {
                    ProjectionElem::Deref => pr.push(J::s("*")),
                    ProjectionElem::Field(fi, _) => {
                        let mut fo = J::obj();
                        let (name, owner) = self.field_name(pty, *fi);
                        fo.set("f", J::s(&name));
                        if let Some(ow) = owner {
                            fo.set("o", J::s(&ow));
                        }
                        pr.push(fo);
                    }
                    ProjectionElem::Downcast(name, vi) => {
                        let mut d = J::obj();
                        let n = match name {
                            Some(s) => s.to_string(),
                            None => format!("{}", vi.as_usize()),
                        };
                        d.set("d", J::s(&n));
                        pr.push(d);
                    }
                    ProjectionElem::Index(l) => {
                        let mut d = J::obj();
                        d.set("ix", J::Int(l.as_usize() as i128));
                        pr.push(d);
                    }
                    ProjectionElem::ConstantIndex { offset, from_end, .. } => {
                        let mut d = J::obj();
                        d.set("cix", J::Int(*offset as i128));
                        if *from_end {
                            d.set("from_end", J::Bool(true));
                        }
                        pr.push(d);
                    }
                    ProjectionElem::Subslice { .. } => pr.push(J::s("[..]")),
                    ProjectionElem::OpaqueCast(_) | ProjectionElem::UnwrapUnsafeBinder(_) => {
                        pr.push(J::s("cast"))
                    }
                }
                pty = pty.projection_ty(self.tcx, *elem);
            }
            o.set("p", J::Arr(pr));
        }
        o
    }

    fn field_name(&self, pty: mir::PlaceTy<'tcx>, fi: rustc_abi::FieldIdx) -> (String, Option<String>) {
        match pty.ty.kind() {
            ty::Adt(adt, _) => {
                let vi = pty.variant_index.unwrap_or(rustc_abi::FIRST_VARIANT);
                if adt.is_enum() || adt.is_struct() || adt.is_union() {
                    let v = adt.variant(vi);
                    if let Some(f) = v.fields.get(fi) {
                        let mut owner = self.tcx.item_name(adt.did()).to_string();
                        if adt.is_enum() {
                            owner = format!("{}::{}", owner, v.name);
                        }
                        return (f.name.to_string(), Some(owner));
                    }
                }
                (format!("{}", fi.as_usize()), None)
            }
            ty::Closure(did, _) => {
                // upvar index -> captured variable name
                if let Some(ld) = did.as_local() {
                    let caps = self.tcx.closure_captures(ld);
                    if let Some(c) = caps.get(fi.as_usize()) {
                        return (
                            format!("{}", c.to_string(self.tcx)),
                            Some("{closure}".to_string()),
                        );
                    }
                }
                (format!("{}", fi.as_usize()), Some("{closure}".to_string()))
            }
            _ => (format!("{}", fi.as_usize()), None),
        }
    }

    fn operand(&self, op: &Operand<'tcx>) -> J {
        let mut o = J::obj();
        match op {
            Operand::Copy(p) => o.set("c", self.place(p.as_ref())),
            Operand::Move(p) => o.set("m", self.place(p.as_ref())),
            Operand::Constant(c) => {
                let mut k = J::obj();
                let t = c.const_.ty();
                k.set("ty", J::s(&ty_str(t)));
                if let ty::FnDef(did, _) = *t.kind() {
                    k.set("fn", J::s(&self.tcx.def_path_str(did)));
                } else {
                    if let Some(v) = self.eval_scalar(&c.const_) {
                        k.set("v", v);
                    } else {
                        let s = format!("{}", c.const_);
                        k.set("s", J::s(&s.chars().take(200).collect::<String>()));
                    }
                    if let Const::Unevaluated(u, _) = c.const_ {
                        k.set("name", J::s(&self.tcx.def_path_str(u.def)));
                        if let Some(p) = u.promoted {
                            k.set("promoted", J::Int(p.as_usize() as i128));
                        }
                    }
                }
                o.set("k", k);
            }
            #[allow(unreachable_patterns)]
            _ => o.set("k", J::obj()),
        }
        o
    }

    fn eval_scalar(&self, c: &Const<'tcx>) -> Option<J> {
        let t = c.ty();
        if !(t.is_integral() || t.is_bool() || t.is_char()) {
            return None;
        }
        let s = c.try_eval_scalar_int(self.tcx, self.env)?;
        if t.is_char() {
            return Some(J::Int(s.to_bits(s.size()) as i128));
        }
        Some(scalar_to_j(s, t))
    }

    fn rvalue(&self, rv: &Rvalue<'tcx>) -> J {
        let mut o = J::obj();
        match rv {
            Rvalue::Use(op, ..) => {
                o.set("k", J::s("use"));
                o.set("a", self.operand(op));
            }
            Rvalue::Repeat(op, _) => {
                o.set("k", J::s("repeat"));
                o.set("a", self.operand(op));
            }
            Rvalue::Ref(_, bk, p) => {
                o.set("k", J::s("ref"));
                o.set("mut", J::Bool(matches!(bk, mir::BorrowKind::Mut { .. })));
                o.set("p", self.place(p.as_ref()));
            }
            Rvalue::RawPtr(_, p) => {
                o.set("k", J::s("rawptr"));
                o.set("p", self.place(p.as_ref()));
            }
            Rvalue::ThreadLocalRef(d) => {
                o.set("k", J::s("tls"));
                o.set("def", J::s(&self.tcx.def_path_str(*d)));
            }
            Rvalue::Cast(ck, op, t) => {
                o.set("k", J::s("cast"));
                let cks = format!("{:?}", ck);
                o.set("ck", J::s(&cks.chars().take_while(|c| c.is_alphanumeric()).collect::<String>()));
                o.set("a", self.operand(op));
                o.set("ty", J::s(&ty_str(*t)));
            }
            Rvalue::BinaryOp(bop, ops) => {
                o.set("k", J::s("bin"));
                o.set("op", J::s(&format!("{:?}", bop)));
                o.set("a", self.operand(&ops.0));
                o.set("b", self.operand(&ops.1));
            }
            Rvalue::UnaryOp(uop, op) => {
                o.set("k", J::s("un"));
                o.set("op", J::s(&format!("{:?}", uop)));
                o.set("a", self.operand(op));
            }
            Rvalue::Discriminant(p) => {
                o.set("k", J::s("discr"));
                o.set("p", self.place(p.as_ref()));
                // enum type, to map switch values to variant names
                let t = p.ty(self.body, self.tcx).ty;
                if let ty::Adt(adt, _) = t.kind() {
                    if adt.is_enum() {
                        o.set("enum", J::s(self.tcx.item_name(adt.did()).as_str()));
                        let mut vs = Vec::new();
                        for (vi, d) in adt.discriminants(self.tcx) {
                            vs.push(J::Arr(vec![
                                J::Int(d.val as i128),
                                J::s(adt.variant(vi).name.as_str()),
                            ]));
                        }
                        o.set("variants", J::Arr(vs));
                    }
                }
            }
            Rvalue::Aggregate(kind, ops) => {
                o.set("k", J::s("agg"));
                match &**kind {
                    AggregateKind::Array(_) => o.set("ak", J::s("array")),
                    AggregateKind::Tuple => o.set("ak", J::s("tuple")),
                    AggregateKind::Adt(did, vi, _, _, active) => {
                        o.set("ak", J::s("adt"));
                        let adt = self.tcx.adt_def(*did);
                        o.set("adt", J::s(self.tcx.item_name(*did).as_str()));
                        o.set("adt_path", J::s(&self.tcx.def_path_str(*did)));
                        let v = adt.variant(*vi);
                        o.set("variant", J::s(v.name.as_str()));
                        let names: Vec<J> = if let Some(a) = active {
                            vec![J::s(v.fields[*a].name.as_str())]
                        } else {
                            v.fields.iter().map(|f| J::s(f.name.as_str())).collect()
                        };
                        o.set("fields", J::Arr(names));
                    }
                    AggregateKind::Closure(did, _) | AggregateKind::CoroutineClosure(did, _) => {
                        o.set("ak", J::s("closure"));
                        o.set("def", J::s(&self.tcx.def_path_str(*did)));
                    }
                    AggregateKind::Coroutine(did, _) => {
                        o.set("ak", J::s("coroutine"));
                        o.set("def", J::s(&self.tcx.def_path_str(*did)));
                    }
                    AggregateKind::RawPtr(..) => o.set("ak", J::s("rawptr")),
                }
                o.set("ops", J::Arr(ops.iter().map(|x| self.operand(x)).collect()));
            }
            Rvalue::CopyForDeref(p) => {
                o.set("k", J::s("use"));
                let mut c = J::obj();
                c.set("c", self.place(p.as_ref()));
                o.set("a", c);
            }
            Rvalue::WrapUnsafeBinder(op, _) => {
                o.set("k", J::s("use"));
                o.set("a", self.operand(op));
            }
            #[allow(unreachable_patterns)]
            _ => {
                o.set("k", J::s("other"));
            }
        }
        let _ = self.def;
        o
    }
}

fn main() {
    let mut args: Vec<String> = std::env::args().collect();
    // RUSTC_WORKSPACE_WRAPPER: argv = [driver, rustc, args…]
    if args.len() > 1 && (args[1].ends_with("rustc") || args[1].contains("/rustc")) {
        args.remove(1);
    }
    let crates = std::env::var("MVFACTS_CRATES").unwrap_or_else(|_| "memvid_core".to_string());
    let mut target = false;
    let mut i = 0;
    while i + 1 < args.len() {
        if args[i] == "--crate-name" && crates.split(',').any(|c| c == args[i + 1]) {
            target = true;
        }
        i += 1;
    }
    // build scripts and probes are not targets
    if args.iter().any(|a| a == "build_script_build" || a.starts_with("--print")) {
        target = false;
    }
    let out = std::env::var("MVFACTS_OUT").ok();
    if target && out.is_some() {
        args.push("-Zmir-opt-level=0".to_string());
        args.push("-Awarnings".to_string());
        let hir_filter: Vec<String> = std::env::var("MVFACTS_HIR")
            .unwrap_or_default()
            .split(',')
            .filter(|s| !s.is_empty())
            .map(|s| s.to_string())
            .collect();
        let mut cb = Extract { out: out.unwrap(), hir_filter };
        rustc_driver::run_compiler(&args, &mut cb);
    } else {
        struct Plain;
        impl rustc_driver::Callbacks for Plain {}
        rustc_driver::run_compiler(&args, &mut Plain);
    }
}
