#!/bin/sh
# MANIFEST.setup_cmd: build the fact extractor and warm the dependency metadata (offline).
set -e
cd "$(dirname "$0")"
exec python3 ./check --setup
